// Probe for finding #30 (development only; not part of any check): before the fix fuse_gadgets panicked with "Vertex not found".
use quizx::graph::*;
use quizx::simplify::*;
use quizx::vec_graph::Graph;

#[test]
fn fuse_gadgets_on_an_isolated_pair() {
    // two phase-0 Z spiders joined by a Hadamard edge, nothing else: a well-formed scalar diagram
    let mut g = Graph::new();
    let a = g.add_vertex(VType::Z);
    let b = g.add_vertex(VType::Z);
    g.add_edge_with_type(a, b, EType::H);
    let fused = fuse_gadgets(&mut g);
    assert!(!fused);
    assert_eq!(g.num_vertices(), 2);
}
