use quizx::scalar::*;
use num::{One, Zero};
fn main() {
    let m = Scalar4::new([i64::MAX, 0, 0, 0], 0);
    let one = Scalar4::one();
    let s = m + m + one;          // 2^64 - 1, fits the 64-bit mantissa exactly
    println!("2^64-1: approx={} value={:?}", s.approx(), s.complex_value());
    println!("exact_phase_and_sqrt2_pow = {:?}", s.exact_phase_and_sqrt2_pow());
    let n = Scalar4::zero() - s;
    println!("-(2^64-1): approx={} value={:?} recognised as {:?}", n.approx(), n.complex_value(), n.exact_phase_and_sqrt2_pow());
    let js = quizx::json::JsonScalar::from(&s);
    println!("json: {:?}", js);
    let back = Scalar4::try_from(&js).unwrap();
    println!("decoded: {:?}", back.complex_value());
}
