use quizx::graph::*;
use quizx::hash_graph::Graph;
use quizx::detection_webs::detection_webs;
fn main() {
    let mut g = Graph::new();
    let i = g.add_vertex(VType::B); let o = g.add_vertex(VType::B);
    g.add_edge(i, o);
    g.set_inputs(vec![i]); g.set_outputs(vec![o]);
    println!("before: edges={} identity={}", g.num_edges(), g.is_identity());
    let w = detection_webs(&mut g);
    println!("after detection_webs: webs={} edges={} identity={}", w.len(), g.num_edges(), g.is_identity());
}
