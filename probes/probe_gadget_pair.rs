// Probe for finding #29 (development only; not part of any check): put under quizx/tests/ in a scratch worktree and run
// `cargo test --offline -p quizx --test probe_gadget_pair`.  Before the fix check_gadget_fusion returned true and gadget_fusion
// panicked with "Vertex not found" (vec_graph.rs); after the fix the checked rule returns false and leaves the diagram alone.
use quizx::basic_rules::*;
use quizx::graph::*;
use quizx::vec_graph::Graph;

#[test]
fn gadget_fusion_on_an_isolated_pair() {
    let mut g = Graph::new();
    let a = g.add_vertex(VType::Z);
    let b = g.add_vertex(VType::Z);
    g.add_edge_with_type(a, b, EType::H);
    assert!(!check_gadget_fusion(&g, a, b));
    assert!(!gadget_fusion(&mut g, a, b));
    assert_eq!(g.num_vertices(), 2);
}
