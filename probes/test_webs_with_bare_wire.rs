//! Detection webs of one and the same Pauli diagram under different vertex numberings
//! (boundaries first, last, interleaved with the spiders).
//!
//! For every numbering each returned web must be a valid detection web (no boundary edge
//! marked, spider constraints satisfied everywhere), the webs must be independent over F2
//! and their number must equal the dimension of the space of all detection webs.

use quizx::detection_webs::{detection_webs, Pauli, PauliWeb};
use quizx::hash_graph::{Graph, GraphLike, VType};
use quizx::phase::Phase;

/// Rank over F2 of a list of bit rows.
fn rank(mut rows: Vec<Vec<bool>>) -> usize {
    let ncols = rows.first().map(|r| r.len()).unwrap_or(0);
    let mut rk = 0;
    for c in 0..ncols {
        if let Some(p) = (rk..rows.len()).find(|&r| rows[r][c]) {
            rows.swap(rk, p);
            let pivot = rows[rk].clone();
            for (r, row) in rows.iter_mut().enumerate() {
                if r != rk && row[c] {
                    for (a, b) in row.iter_mut().zip(pivot.iter()) {
                        *a ^= *b;
                    }
                }
            }
            rk += 1;
        }
    }
    rk
}

fn x_part(p: Option<Pauli>) -> bool {
    matches!(p, Some(Pauli::X) | Some(Pauli::Y))
}

fn z_part(p: Option<Pauli>) -> bool {
    matches!(p, Some(Pauli::Z) | Some(Pauli::Y))
}

/// Runs detection_webs on `g` and checks validity, independence and completeness.
/// Returns the number of webs.
fn check_detection_webs(mut g: Graph) -> usize {
    let ins = g.inputs().clone();
    let outs = g.outputs().clone();
    let webs: Vec<PauliWeb> = detection_webs(&mut g);
    assert_eq!(g.inputs(), &ins, "inputs not restored");
    assert_eq!(g.outputs(), &outs, "outputs not restored");

    // the graph is now in bipartite form; webs live on its edges
    let mut edges: Vec<(usize, usize)> = g.edges().map(|(u, v, _)| (u.min(v), u.max(v))).collect();
    edges.sort();
    let ne = edges.len();
    let mut verts: Vec<usize> = g.vertices().collect();
    verts.sort();
    let legs = |v: usize| -> Vec<usize> {
        (0..ne)
            .filter(|&i| edges[i].0 == v || edges[i].1 == v)
            .collect()
    };

    // 1. every web is a valid detection web
    for (k, web) in webs.iter().enumerate() {
        for key in web.edge_operators.keys() {
            assert!(edges.contains(key), "web {k} marks a non-edge {key:?}");
        }
        for &v in &verts {
            let ls = legs(v);
            let xs = ls
                .iter()
                .filter(|&&i| x_part(web.edge(edges[i].0, edges[i].1)))
                .count();
            let zs = ls
                .iter()
                .filter(|&&i| z_part(web.edge(edges[i].0, edges[i].1)))
                .count();
            match g.vertex_type(v) {
                VType::B => assert!(
                    xs == 0 && zs == 0,
                    "web {k} marks the boundary edge at boundary vertex {v}"
                ),
                // firing a Z spider puts Pauli::X ("green") on all of its legs
                VType::Z => {
                    assert!(xs == 0 || xs == ls.len(), "web {k}: X not all-or-none at Z spider {v}");
                    assert!(zs % 2 == 0, "web {k}: odd number of Z legs at Z spider {v}");
                }
                VType::X => {
                    assert!(zs == 0 || zs == ls.len(), "web {k}: Z not all-or-none at X spider {v}");
                    assert!(xs % 2 == 0, "web {k}: odd number of X legs at X spider {v}");
                }
                t => panic!("unexpected vertex type {t:?}"),
            }
        }
    }

    // 2. the webs are linearly independent
    let rows: Vec<Vec<bool>> = webs
        .iter()
        .map(|w| {
            let mut r = vec![false; 2 * ne];
            for (i, &(u, v)) in edges.iter().enumerate() {
                r[2 * i] = x_part(w.edge(u, v));
                r[2 * i + 1] = z_part(w.edge(u, v));
            }
            r
        })
        .collect();
    assert_eq!(rank(rows), webs.len(), "webs are not independent");

    // 3. their number is the dimension of the space of all detection webs
    let mut cons: Vec<Vec<bool>> = Vec::new();
    for &v in &verts {
        let ls = legs(v);
        // (own, other) offsets into the (x, z) pair of an edge
        let (own, other) = match g.vertex_type(v) {
            VType::B => {
                for &i in &ls {
                    for o in 0..2 {
                        let mut r = vec![false; 2 * ne];
                        r[2 * i + o] = true;
                        cons.push(r);
                    }
                }
                continue;
            }
            VType::Z => (0, 1),
            VType::X => (1, 0),
            t => panic!("unexpected vertex type {t:?}"),
        };
        for &i in ls.iter().skip(1) {
            let mut r = vec![false; 2 * ne];
            r[2 * ls[0] + own] = true;
            r[2 * i + own] = true;
            cons.push(r);
        }
        let mut r = vec![false; 2 * ne];
        for &i in &ls {
            r[2 * i + other] = true;
        }
        cons.push(r);
    }
    let dim = 2 * ne - rank(cons);
    assert_eq!(webs.len(), dim, "number of webs differs from the dimension of the web space");
    webs.len()
}

/// Roles of the diagram: a 4-cycle z0 - x0 - z1 - x1 - z0 and two arms, arm i being a
/// Z spider s_i attached to x_i and carrying the boundary b_i.
const Z0: usize = 0;
const X0: usize = 1;
const Z1: usize = 2;
const X1: usize = 3;
const S0: usize = 4;
const S1: usize = 5;
const B0: usize = 6;
const B1: usize = 7;

/// Builds the diagram, handing out vertex ids in the order in which the roles are listed.
fn diagram(order: [usize; 8], pi: bool) -> Graph {
    let mut g = Graph::new();
    let mut id = [usize::MAX; 8];
    for role in order {
        let ty = match role {
            Z0 | Z1 | S0 | S1 => VType::Z,
            X0 | X1 => VType::X,
            _ => VType::B,
        };
        id[role] = g.add_vertex(ty);
    }
    assert!(id.iter().all(|&v| v != usize::MAX));
    if pi {
        g.set_phase(id[Z1], Phase::new(1));
        g.set_phase(id[X0], Phase::new(1));
        g.set_phase(id[S1], Phase::new(1));
    }
    g.add_edge(id[Z0], id[X0]);
    g.add_edge(id[X0], id[Z1]);
    g.add_edge(id[Z1], id[X1]);
    g.add_edge(id[X1], id[Z0]);
    g.add_edge(id[S0], id[X0]);
    g.add_edge(id[S1], id[X1]);
    g.add_edge(id[B0], id[S0]);
    g.add_edge(id[B1], id[S1]);
    g.set_inputs(vec![id[B0]]);
    g.set_outputs(vec![id[B1]]);
    g
}

#[test]
fn boundaries_numbered_first() {
    assert_eq!(check_detection_webs(diagram([B0, B1, Z0, X0, Z1, X1, S0, S1], false)), 1);
    assert_eq!(check_detection_webs(diagram([B0, B1, S0, S1, Z0, X0, Z1, X1], true)), 1);
}

#[test]
fn boundaries_numbered_last() {
    assert_eq!(check_detection_webs(diagram([Z0, X0, Z1, X1, S0, S1, B0, B1], false)), 1);
    assert_eq!(check_detection_webs(diagram([S0, S1, Z0, X0, Z1, X1, B0, B1], false)), 1);
}

#[test]
fn boundaries_interleaved() {
    assert_eq!(check_detection_webs(diagram([Z0, X0, B0, B1, Z1, X1, S0, S1], false)), 1);
    assert_eq!(check_detection_webs(diagram([Z0, B0, X0, S0, Z1, B1, X1, S1], true)), 1);
    assert_eq!(check_detection_webs(diagram([S0, Z0, B0, X0, Z1, X1, B1, S1], false)), 1);
}

#[test]
fn with_an_extra_bare_wire() {
    // the same diagram plus a bare input-output wire: the webs must be those of the diagram alone
    let base = check_detection_webs(diagram([0, 1, 2, 3, 4, 5, 6, 7], false));
    let mut g = diagram([0, 1, 2, 3, 4, 5, 6, 7], false);
    let i = g.add_vertex(VType::B);
    let o = g.add_vertex(VType::B);
    g.add_edge(i, o);
    let mut ins = g.inputs().clone(); ins.push(i); g.set_inputs(ins);
    let mut outs = g.outputs().clone(); outs.push(o); g.set_outputs(outs);
    let edges_before = g.num_edges();
    let mut h = g.clone();
    let n = detection_webs(&mut h).len();
    assert_eq!(n, base, "a bare wire must not change the number of webs");
    assert!(h.connected(i, o), "the bare wire must survive");
    let _ = edges_before;
}
