use quizx::graph::*;
use quizx::scalar::*;
use quizx::scalar::dyadic::Dyadic;
use quizx::vec_graph::Graph;
use quizx::hash_graph::Graph as HGraph;
use quizx::circuit::Circuit;
use quizx::tensor::*;
use quizx::basic_rules::*;
use quizx::simplify::*;
use quizx::params::*;
use quizx::json::*;
use approx::AbsDiffEq;
use num::Rational64;
use std::panic::catch_unwind;

fn parity_val(p: &Parity, asg: &[bool]) -> bool { let s = format!("{:?}", p); let mut b = s.trim_end_matches(')').ends_with("true"); for v in p.iter() { b ^= asg[v as usize]; } b }
fn instantiate(g: &Graph, asg: &[bool]) -> Graph {
    let mut h = g.clone();
    for v in g.vertices() { if parity_val(&g.vars(v), asg) { h.add_to_phase(v, Rational64::new(1,1)); } h.set_vars(v, Parity::zero()); }
    let mut s = *g.scalar();
    for (e, f) in g.scalar_factors() { if e.iter().all(|p| parity_val(p, asg)) { s *= *f; } }
    let mut h2 = h.copy(false); h2.set_inputs(h.inputs().clone()); h2.set_outputs(h.outputs().clone()); *h2.scalar_mut() = s; h2
}
fn cmp(name: &str, g0: &Graph, g1: &Graph, nvars: usize) {
    let ok = (0..(1u32<<nvars)).all(|m| { let asg: Vec<bool> = (0..nvars).map(|i| (m>>i)&1==1).collect(); instantiate(g0,&asg).to_tensor4()==instantiate(g1,&asg).to_tensor4() });
    println!("{name}: all assignments equal = {ok}");
}
fn main() {
    println!("F8  zero < 2^-5: {}   abs_diff_eq(x,x): {}", Dyadic::new(0,0) < Dyadic::new(1,-5), Dyadic::new(3,0).abs_diff_eq(&Dyadic::new(3,0), Dyadic::default_epsilon()));
    let b = Scalar4::from_phase(Rational64::new(1,3)) * Scalar4::from_phase(Rational64::new(1,5));
    let ex = num::Complex::from_polar(1.0, std::f64::consts::PI*(1.0/3.0+1.0/5.0));
    println!("F9  e(1/3)e(1/5) error: {:e}", (b.complex_value()-ex).norm());
    let big = Dyadic::new(1,100); let one = Dyadic::new(1,0); let r = ((big+one)-big)+one;
    println!("F7  ((2^100+1)-2^100)+1 = {:?} approx={}", r, r.approx());
    println!("F11 vec add_named(3) ok: {:?}", catch_unwind(|| { let mut g = Graph::new(); g.add_named_vertex_with_data(3, VData::default()).unwrap(); g.add_named_vertex_with_data(1, VData::default()).unwrap(); let a=g.add_vertex(VType::Z); (g.num_vertices(), g.vertices().collect::<Vec<_>>(), a, g.add_named_vertex_with_data(3, VData::default()).is_err()) }));
    println!("F17 plug_inputs shorter: {:?}", catch_unwind(|| { let c = Circuit::from_qasm("qreg q[2]; cx q[0], q[1];").unwrap(); let mut g: Graph = c.to_graph(); g.plug_inputs(&[BasisElem::Z0]); g.inputs().len() }));
    let c = Circuit::from_qasm("qreg q[1]; h q[0];").unwrap(); let mut g: Graph = c.to_graph(); full_simp(&mut g);
    println!("F16 H wire is_identity: {}", g.is_identity());
    for q in ["qreg q[2]; xcx q[0], q[1];", "qreg q[2]; swap q[0], q[1]; t q[0];", "qreg q[3]; h q[0]; swap q[0], q[2]; cx q[0], q[1]; swap q[1], q[2]; t q[2];"] {
        let c = Circuit::from_qasm(q).unwrap(); let g: Graph = c.to_graph(); let gs: Graph = c.to_graph_with_options(true, false);
        println!("F5/F10 {:75} circ==graph: {} (simplify-while-building: {})", q, c.to_tensor4()==g.to_tensor4(), c.to_tensor4()==gs.to_tensor4());
    }
    println!("F1  check_boundary_local_comp(nonexistent): {:?}", catch_unwind(|| { let c = Circuit::from_qasm("qreg q[1]; h q[0];").unwrap(); let g: Graph = c.to_graph(); check_boundary_local_comp(&g, 99, 0) }));
    // F1 positive example: boundary +pi/2 spider v0, H-adjacent interior pauli v1
    {
        let mut g = Graph::new();
        let b1 = g.add_vertex(VType::B); let b2 = g.add_vertex(VType::B);
        let v0 = g.add_vertex_with_phase(VType::Z, Rational64::new(1,2)); let v1 = g.add_vertex_with_phase(VType::Z, Rational64::new(1,1));
        let c = g.add_vertex_with_phase(VType::Z, Rational64::new(1,4)); let d = g.add_vertex_with_phase(VType::Z, Rational64::new(1,4));
        g.add_edge(b1, v0); g.add_edge_with_type(v0, v1, EType::H); g.add_edge_with_type(v1, c, EType::H); g.add_edge_with_type(v1, d, EType::H); g.add_edge_with_type(v0, c, EType::H);
        g.add_edge_with_type(c, d, EType::H); g.add_edge(d, b2);
        g.set_inputs(vec![b1]); g.set_outputs(vec![b2]);
        let h = g.clone(); let ok = boundary_local_comp(&mut g, v0, v1);
        println!("F1  boundary_local_comp applied={} sound={}", ok, g.to_tensor4()==h.to_tensor4());
        let mut g2 = h.clone(); g2.remove_edge(v0, v1); g2.add_edge_with_type(v0, d, EType::H); let h2=g2.clone();
        let ok2 = boundary_local_comp(&mut g2, v0, v1); println!("F1  non-adjacent pair rejected={} unchanged={}", !ok2, g2==h2);
    }
    { // F2
        let mut g = Graph::new(); let b1 = g.add_vertex(VType::B); let a = g.add_vertex(VType::Z); let v = g.add_vertex(VType::Z);
        g.add_edge(b1, a); g.add_edge_with_type(a, v, EType::H); g.set_inputs(vec![b1]);
        println!("F2  check_remove_duplicate(v,v)={}", check_remove_duplicate(&g, v, v));
        // duplicate with vars on v1
        let mut g = Graph::new(); let b1 = g.add_vertex(VType::B); let a = g.add_vertex(VType::Z);
        let v0 = g.add_vertex_with_phase(VType::Z, Rational64::new(1,4)); let v1 = g.add_vertex_with_phase(VType::Z, Rational64::new(1,1));
        g.add_edge(b1, a); g.add_edge_with_type(a, v0, EType::H); g.add_edge_with_type(a, v1, EType::H); g.set_inputs(vec![b1]); g.set_vars(v1, Parity::single(1));
        let h = g.clone(); let ok = remove_duplicate(&mut g, v0, v1); print!("F15 remove_duplicate(vars on v1) applied={} ", ok); cmp("", &h, &g, 2);
    }
    { // F3
        let mut g = Graph::new(); let b1 = g.add_vertex(VType::B); let b2 = g.add_vertex(VType::B);
        let l1 = g.add_vertex_with_phase(VType::Z, Rational64::new(1,4)); let l2 = g.add_vertex_with_phase(VType::Z, Rational64::new(1,4));
        g.add_edge_with_type(b1, l1, EType::H); g.add_edge_with_type(b2, l2, EType::H); g.set_outputs(vec![b1,b2]);
        println!("F3  check_gadget_fusion(boundary,boundary) = {}", check_gadget_fusion(&g, b1, b2));
    }
    { // F4
        let mut g = Graph::new(); let b1 = g.add_vertex(VType::B); let b2 = g.add_vertex(VType::B);
        let w1 = g.add_vertex(VType::Z); let v1 = g.add_vertex_with_phase(VType::Z, Rational64::new(1,4)); let w2 = g.add_vertex(VType::Z); let v2 = g.add_vertex_with_phase(VType::Z, Rational64::new(1,4));
        g.add_edge_with_type(w1, v1, EType::H); g.add_edge_with_type(w2, v2, EType::H); g.add_edge(b1, w1); g.add_edge(b2, w2); g.set_inputs(vec![b1]); g.set_outputs(vec![b2]);
        let h = g.clone(); let fused = fuse_gadgets(&mut g); println!("F4  fuse_gadgets on boundary-attached centres fused={} sound={}", fused, g.to_tensor4()==h.to_tensor4());
        // vars on leaf
        let mut g = Graph::new(); let b0 = g.add_vertex(VType::B); let b1 = g.add_vertex(VType::B); let a = g.add_vertex(VType::Z); let b = g.add_vertex(VType::Z);
        g.add_edge(b0, a); g.add_edge(b1, b);
        let w1 = g.add_vertex(VType::Z); let l1 = g.add_vertex_with_phase(VType::Z, Rational64::new(1,4)); let w2 = g.add_vertex(VType::Z); let l2 = g.add_vertex_with_phase(VType::Z, Rational64::new(1,4));
        for (w,l) in [(w1,l1),(w2,l2)] { g.add_edge_with_type(w,l,EType::H); g.add_edge_with_type(w,a,EType::H); g.add_edge_with_type(w,b,EType::H); }
        g.set_inputs(vec![b0]); g.set_outputs(vec![b1]); g.set_vars(l2, Parity::single(1)); g.set_vars(l1, Parity::single(0));
        let g0 = g.clone(); let f = fuse_gadgets(&mut g); print!("F15 fuse_gadgets(leaf vars) fused={} ", f); cmp("", &g0, &g, 2);
    }
    { // F14 pivot
        for (p0,p1) in [(1,0),(0,1),(1,1),(0,0)] {
        let mut g = Graph::new(); let b0 = g.add_vertex(VType::B); let b1 = g.add_vertex(VType::B); let n0 = g.add_vertex(VType::Z); let n1 = g.add_vertex(VType::Z);
        let v0 = g.add_vertex_with_phase(VType::Z, Rational64::new(p0,1)); let v1 = g.add_vertex_with_phase(VType::Z, Rational64::new(p1,1));
        g.add_edge(b0, n0); g.add_edge(b1, n1); g.add_edge_with_type(n0, v0, EType::H); g.add_edge_with_type(n1, v1, EType::H); g.add_edge_with_type(v0, v1, EType::H);
        g.set_inputs(vec![b0]); g.set_outputs(vec![b1]); g.set_vars(v1, Parity::single(1)); g.set_vars(v0, Parity::new([0u32,1u32], false));
        let g0 = g.clone(); pivot_unchecked(&mut g, v0, v1); cmp(&format!("F14 pivot p0={p0} p1={p1} vars0={{0,1}} vars1={{1}}"), &g0, &g, 2); }
    }
    println!("F13 Parity::one().is_one()={} single(0).is_one()={} quadratic(single0,single3)={:?}", Parity::one().is_one(), Parity::single(0).is_one(), Expr::quadratic(Parity::single(0), Parity::single(3)));
    { let mut g = HGraph::new(); let a = g.add_vertex(VType::Z); let b = g.add_vertex(VType::Z); g.add_edge(a,b); println!("F12 hash find_edge(s>t) = {:?}", g.find_edge(|s,t,_| s > t)); }
    { // F19
        let mut g = Graph::new(); let i0 = g.add_vertex(VType::B); let o0 = g.add_vertex(VType::B); g.add_edge(i0,o0); g.set_inputs(vec![i0]); g.set_outputs(vec![o0]);
        for s in [Scalar4::sqrt2_pow(-3), Scalar4::new([0,1,0,0], 2), Scalar4::new([1,1,0,0], 0)] { *g.scalar_mut() = s; let h: Graph = decode_graph(&encode_graph(&g).unwrap()).unwrap();
            let ef = g.to_tensorf().iter().zip(h.to_tensorf().iter()).all(|(a,b)| (a-b).norm() < 1e-9);
            println!("F19 scalar {}: tensor4 eq={} tensorf eq={}", s, g.to_tensor4()==h.to_tensor4(), ef); }
    }
}
