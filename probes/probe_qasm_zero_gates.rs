use quizx::circuit::Circuit;
fn main() {
    for n in [1usize, 3] {
        let c = Circuit::new(n);
        let q = c.to_qasm();
        let d = Circuit::from_qasm(&q).unwrap();
        println!("n={} qasm={:?} -> parsed num_qubits={} equal={}", n, q.replace('\n', " "), d.num_qubits(), c == d);
    }
    let d = Circuit::from_qasm("OPENQASM 2.0; include \"qelib1.inc\"; qreg a[2]; qreg b[3]; creg c[2];").unwrap();
    println!("two registers, no gates: {}", d.num_qubits());
    let d = Circuit::from_qasm("OPENQASM 2.0; qreg a[2]; qreg b[3]; h b[1];").unwrap();
    println!("two registers, one gate: {} {:?}", d.num_qubits(), d.gates);
}
