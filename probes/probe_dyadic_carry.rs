use quizx::scalar::dyadic::Dyadic;
use std::cmp::Ordering;

#[test]
fn sum_with_carry_out_of_two_odd_mantissas_is_normalised() {
    let half = Dyadic::new(1, -1);
    let y = Dyadic::new(i64::MAX, 0) + half; // 2^63 - 1/2: exact, all 64 mantissa bits set
    assert!(!y.approx());
    let z = y + half; // 2^63
    let (v, e) = z.val_and_exp();
    println!("z denotes {v} * 2^{e}, approx = {}", z.approx());
    // the number z denotes (v * 2^e) against y = 2^63 - 1/2
    let z_real = (v as f64) * 2f64.powi(e);
    println!("z as a real: {z_real}; y = 2^63 - 0.5; z.cmp(y) = {:?}", z.cmp(&y));
    // 2^63 exactly
    let u = Dyadic::new(1, 63);
    println!("z.cmp(2^63) = {:?}", z.cmp(&u));
    assert_eq!(z.cmp(&u), Ordering::Equal, "y + 1/2 is 2^63");
}
