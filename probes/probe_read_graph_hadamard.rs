use quizx::graph::*;
use quizx::vec_graph::Graph;
use quizx::json::*;
fn main() {
    let mut g = Graph::new();
    let a = g.add_vertex(VType::Z); let b = g.add_vertex(VType::Z);
    g.add_edge_with_type(a, b, EType::H);
    let p = std::path::Path::new("/tmp/probe/h.qgraph");
    write_graph(&g, p).unwrap();
    println!("file: {}", std::fs::read_to_string(p).unwrap());
    let s = encode_graph(&g).unwrap();
    let d: Result<Graph, _> = decode_graph(&s);
    println!("decode_graph(string): {:?}", d.map(|g| (g.num_vertices(), g.num_edges())));
    let r: Result<Graph, _> = read_graph(p);
    println!("read_graph(file): {:?}", r.map(|g| (g.num_vertices(), g.num_edges())));
}
