use quizx::scalar::*;
use num::{One, Zero};
fn main() {
    // 2^70 as an exact scalar
    let big = Scalar4::new([1, 0, 0, 0], 70);
    let one = Scalar4::one();
    let s = big + one;            // 2^70 + 1 does not fit 64 bits: approximate
    println!("2^70+1: approx={} value={:?}", s.approx(), s.complex_value());
    let d = s - big;              // true value 1
    println!("(2^70+1)-2^70: approx={} is_zero={} value={:?}", d.approx(), d.is_zero(), d.complex_value());
    let p = d * one;              // true value 1
    println!("((2^70+1)-2^70)*1: approx={} is_zero={} value={:?}", p.approx(), p.is_zero(), p.complex_value());
    let q = one * d;
    println!("1*((2^70+1)-2^70): approx={} is_zero={} value={:?}", q.approx(), q.is_zero(), q.complex_value());
    println!("p == Scalar4::zero(): {}", p == Scalar4::zero());
}
