use quizx::scalar::*;
use quizx::json::*;
fn main() {
    for (c, p) in [([2i64,1,0,0],0i32), ([3,1,0,0],0), ([5,2,1,0],-3), ([1,1,0,0],0), ([1,0,0,0],1), ([7,3,2,1],2)] {
        let s = Scalar4::new(c, p);
        let js = JsonScalar::from(&s);
        let d: Scalar4 = Scalar4::try_from(&js).unwrap();
        let a = s.complex_value(); let b = d.complex_value();
        println!("{:?} pow {} : {} -> {}  relerr {:.3e}  json={}", c, p, a, b, (a-b).norm()/a.norm(), serde_json::to_string(&js).unwrap());
    }
}
