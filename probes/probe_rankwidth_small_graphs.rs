use quizx::graph::*;
use quizx::vec_graph::Graph;
use quizx::rankwidth::decomp_tree::DecompTree;
use quizx::rankwidth::annealer::RankwidthAnnealer;
use rand::SeedableRng;
use std::panic::catch_unwind;
fn main() {
    let r = catch_unwind(|| {
        let mut g = Graph::new();
        let a = g.add_vertex(VType::Z); let b = g.add_vertex(VType::Z); g.add_edge(a, b);
        let mut rng = rand::rngs::StdRng::seed_from_u64(1);
        let mut t = DecompTree::random_decomp(&g, &mut rng);
        for _ in 0..5 { t.swap_random_leaves(&mut rng); }
        (t.is_valid_for_graph(&g), t.rankwidth(&g))
    });
    println!("2-vertex graph, leaf swaps: {:?}", r.map_err(|_| "PANIC"));
    let r = catch_unwind(|| {
        let mut g = Graph::new();
        for _ in 0..5 { g.add_vertex(VType::Z); }
        let rng = rand::rngs::StdRng::seed_from_u64(1);
        let mut ann = RankwidthAnnealer::new(g.clone(), rng);
        let mut t = ann.run();
        (t.is_valid_for_graph(&g), t.rankwidth(&g))
    });
    println!("edgeless 5-vertex graph, annealer: {:?}", r.map_err(|_| "PANIC"));
}
