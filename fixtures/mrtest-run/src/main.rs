// Development-time only: prints the `{:?}` form of every tNNN() of ../posctl/src/mrtest.rs as JSON lines.  Not used by any check.
#![allow(dead_code)]
#[path = "../../posctl/src/mrtest.rs"]
mod mrtest;

fn main() {
    println!("{{");
    println!("  {:?}: {:?},", "t001", format!("{:?}", mrtest::t001()));
    println!("  {:?}: {:?},", "t002", format!("{:?}", mrtest::t002()));
    println!("  {:?}: {:?},", "t003", format!("{:?}", mrtest::t003()));
    println!("  {:?}: {:?},", "t004", format!("{:?}", mrtest::t004()));
    println!("  {:?}: {:?},", "t005", format!("{:?}", mrtest::t005()));
    println!("  {:?}: {:?},", "t006", format!("{:?}", mrtest::t006()));
    println!("  {:?}: {:?},", "t007", format!("{:?}", mrtest::t007()));
    println!("  {:?}: {:?},", "t008", format!("{:?}", mrtest::t008()));
    println!("  {:?}: {:?},", "t009", format!("{:?}", mrtest::t009()));
    println!("  {:?}: {:?},", "t010", format!("{:?}", mrtest::t010()));
    println!("  {:?}: {:?},", "t011", format!("{:?}", mrtest::t011()));
    println!("  {:?}: {:?},", "t012", format!("{:?}", mrtest::t012()));
    println!("  {:?}: {:?},", "t013", format!("{:?}", mrtest::t013()));
    println!("  {:?}: {:?},", "t014", format!("{:?}", mrtest::t014()));
    println!("  {:?}: {:?},", "t015", format!("{:?}", mrtest::t015()));
    println!("  {:?}: {:?},", "t016", format!("{:?}", mrtest::t016()));
    println!("  {:?}: {:?},", "t017", format!("{:?}", mrtest::t017()));
    println!("  {:?}: {:?},", "t018", format!("{:?}", mrtest::t018()));
    println!("  {:?}: {:?},", "t019", format!("{:?}", mrtest::t019()));
    println!("  {:?}: {:?},", "t020", format!("{:?}", mrtest::t020()));
    println!("  {:?}: {:?},", "t021", format!("{:?}", mrtest::t021()));
    println!("  {:?}: {:?},", "t022", format!("{:?}", mrtest::t022()));
    println!("  {:?}: {:?},", "t023", format!("{:?}", mrtest::t023()));
    println!("  {:?}: {:?},", "t024", format!("{:?}", mrtest::t024()));
    println!("  {:?}: {:?},", "t025", format!("{:?}", mrtest::t025()));
    println!("  {:?}: {:?},", "t026", format!("{:?}", mrtest::t026()));
    println!("  {:?}: {:?},", "t027", format!("{:?}", mrtest::t027()));
    println!("  {:?}: {:?},", "t028", format!("{:?}", mrtest::t028()));
    println!("  {:?}: {:?},", "t029", format!("{:?}", mrtest::t029()));
    println!("  {:?}: {:?},", "t030", format!("{:?}", mrtest::t030()));
    println!("  {:?}: {:?},", "t031", format!("{:?}", mrtest::t031()));
    println!("  {:?}: {:?},", "t032", format!("{:?}", mrtest::t032()));
    println!("  {:?}: {:?},", "t033", format!("{:?}", mrtest::t033()));
    println!("  {:?}: {:?},", "t034", format!("{:?}", mrtest::t034()));
    println!("  {:?}: {:?},", "t035", format!("{:?}", mrtest::t035()));
    println!("  {:?}: {:?},", "t036", format!("{:?}", mrtest::t036()));
    println!("  {:?}: {:?},", "t037", format!("{:?}", mrtest::t037()));
    println!("  {:?}: {:?},", "t038", format!("{:?}", mrtest::t038()));
    println!("  {:?}: {:?},", "t039", format!("{:?}", mrtest::t039()));
    println!("  {:?}: {:?},", "t040", format!("{:?}", mrtest::t040()));
    println!("  {:?}: {:?},", "t041", format!("{:?}", mrtest::t041()));
    println!("  {:?}: {:?},", "t042", format!("{:?}", mrtest::t042()));
    println!("  {:?}: {:?},", "t043", format!("{:?}", mrtest::t043()));
    println!("  {:?}: {:?},", "t044", format!("{:?}", mrtest::t044()));
    println!("  {:?}: {:?},", "t045", format!("{:?}", mrtest::t045()));
    println!("  {:?}: {:?},", "t046", format!("{:?}", mrtest::t046()));
    println!("  {:?}: {:?},", "t047", format!("{:?}", mrtest::t047()));
    println!("  {:?}: {:?},", "t048", format!("{:?}", mrtest::t048()));
    println!("  {:?}: {:?},", "t049", format!("{:?}", mrtest::t049()));
    println!("  {:?}: {:?},", "t050", format!("{:?}", mrtest::t050()));
    println!("  {:?}: {:?},", "t051", format!("{:?}", mrtest::t051()));
    println!("  {:?}: {:?},", "t052", format!("{:?}", mrtest::t052()));
    println!("  {:?}: {:?},", "t053", format!("{:?}", mrtest::t053()));
    println!("  {:?}: {:?},", "t054", format!("{:?}", mrtest::t054()));
    println!("  {:?}: {:?},", "t055", format!("{:?}", mrtest::t055()));
    println!("  {:?}: {:?},", "t056", format!("{:?}", mrtest::t056()));
    println!("  {:?}: {:?},", "t057", format!("{:?}", mrtest::t057()));
    println!("  {:?}: {:?},", "t058", format!("{:?}", mrtest::t058()));
    println!("  {:?}: {:?},", "t059", format!("{:?}", mrtest::t059()));
    println!("  {:?}: {:?}", "t060", format!("{:?}", mrtest::t060()));
    println!("}}");
}
