pub mod utils;
use std::ops::{Div, Sub};

#[derive(Clone, Copy, PartialEq)]
pub struct Ratio {
    n: i64,
    d: i64,
}
impl Ratio {
    pub fn new(n: i64, d: i64) -> Ratio {
        Ratio { n, d }
    }
    pub fn numer(&self) -> &i64 {
        &self.n
    }
    pub fn denom(&self) -> &i64 {
        &self.d
    }
}
impl Sub for Ratio {
    type Output = Ratio;
    fn sub(self, o: Ratio) -> Ratio {
        Ratio::new(self.n * o.d - o.n * self.d, self.d * o.d)
    }
}
impl std::ops::Add for Ratio {
    type Output = Ratio;
    fn add(self, o: Ratio) -> Ratio {
        Ratio::new(self.n * o.d + o.n * self.d, self.d * o.d)
    }
}
impl Div for Ratio {
    type Output = Ratio;
    fn div(self, o: Ratio) -> Ratio {
        Ratio::new(self.n * o.d, self.d * o.n)
    }
}

#[derive(Clone, Copy, PartialEq)]
pub struct Phase {
    r: Ratio,
}

impl Phase {
    pub fn new(r: Ratio) -> Phase {
        Phase { r }.normalize()
    }
    /// control: `<=` lets -1 through (the range must be (-1, 1])
    pub fn normalize(&self) -> Phase {
        let denom = *self.r.denom();
        let mut num = *self.r.numer();
        if -denom <= num && num <= denom {
            return *self;
        }
        num = num.rem_euclid(2 * denom);
        if num > *self.r.denom() {
            num -= 2 * denom;
        }
        Phase::new(Ratio::new(num, denom))
    }
    /// control: a literal outside the constructor, not normalised
    pub fn raw(r: Ratio) -> Phase {
        Phase { r }
    }
}

/// control: Sub that adds
impl Sub for Phase {
    type Output = Phase;
    fn sub(self, other: Phase) -> Phase {
        Phase::new(self.r + other.r)
    }
}

/// control: swapped operands
impl Div for Phase {
    type Output = Phase;
    fn div(self, other: Phase) -> Phase {
        Phase::new(other.r / self.r)
    }
}
