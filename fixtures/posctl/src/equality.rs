pub struct G2;
impl G2 {
    pub fn to_adjoint(&self) -> G2 {
        G2
    }
    pub fn plug(&mut self, o: &G2) {}
    pub fn is_identity(&self) -> bool {
        true
    }
}
pub fn equal_graph_dim(a: &G2, b: &G2) -> bool {
    true
}
/// control: plugs the adjoint of g1 with g1 itself
pub fn equal_graph_with_options(g1: &G2, g2: &G2, up_to_global_phase: bool) -> Option<bool> {
    if !equal_graph_dim(g1, g2) {
        return Some(false);
    }
    let mut g = g1.to_adjoint();
    g.plug(g1);
    crate::simplify::full_simp(&mut g);
    if g.is_identity() {
        return Some(true);
    }
    None
}
