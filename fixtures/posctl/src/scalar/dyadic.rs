use std::cmp::Ordering;
use std::ops::Add;

const SIGN: u8 = 0x01;
const APPROX: u8 = 0x02;

#[derive(Clone, Copy, PartialEq, Eq)]
pub struct Dyadic {
    flags: u8,
    exp: i32,
    val: u64,
}
impl Dyadic {
    pub fn sign(&self) -> bool {
        self.flags & SIGN == SIGN
    }
    pub fn val_and_exp(&self) -> (i64, i32) {
        let shift = self.val.trailing_zeros();
        let v = self.val.wrapping_shr(shift) as i64;
        (v, self.exp + shift as i32)
    }
}
impl PartialOrd for Dyadic {
    fn partial_cmp(&self, other: &Self) -> Option<Ordering> {
        Some(self.cmp(other))
    }
}
/// control: zero is ordered by its stored exponent
impl Ord for Dyadic {
    fn cmp(&self, other: &Self) -> Ordering {
        let ord = if self.sign() != other.sign() {
            Ordering::Greater
        } else if self.exp == other.exp {
            self.val.cmp(&other.val)
        } else {
            self.exp.cmp(&other.exp)
        };
        if self.sign() {
            ord.reverse()
        } else {
            ord
        }
    }
}
/// controls: returns the other operand untainted; an unguarded lossy shift
impl Add for Dyadic {
    type Output = Dyadic;
    fn add(mut self, mut rhs: Dyadic) -> Dyadic {
        if self.val == 0 {
            return rhs;
        }
        let shift = (self.exp - rhs.exp) as u32;
        rhs.val = rhs.val.wrapping_shr(shift);
        self.val += rhs.val;
        self.flags |= rhs.flags & APPROX;
        self
    }
}
/// control: the signed view wraps for full-width mantissas
impl TryFrom<Dyadic> for f64 {
    type Error = ();
    fn try_from(value: Dyadic) -> Result<f64, ()> {
        let (v, e) = value.val_and_exp();
        Ok((v as f64) * 2.0f64.powi(e))
    }
}
