pub mod dyadic;
