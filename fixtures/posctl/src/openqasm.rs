pub trait GateWriter {
    fn write_barrier(&mut self, regs: &[usize]) -> Result<(), ()>;
}
