pub struct R;
impl R {
    pub fn random_bool(&mut self, p: f64) -> bool {
        p > 0.5
    }
}
pub fn decomp_graph(g: usize) -> f64 {
    0.5
}
/// control: draws each bit with the joint probability
pub fn sample(qs: usize, rng: &mut R) -> Vec<bool> {
    let mut xs: Vec<bool> = vec![];
    for _ in 0..qs {
        let scalar = decomp_graph(xs.len());
        xs.push(rng.random_bool(scalar));
    }
    xs
}
