pub mod sim;
