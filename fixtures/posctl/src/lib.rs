//! Positive controls for the /verif static rules: one deliberately violating construct per rule.
//! The crate mirrors the module / type names of quizx so that resolved def paths print the same;
//! it has no dependencies, is never executed, and is analysed by the same driver on every run.
//! A rule that does not fire on its control makes the check end with CHECK-ERROR.
#![allow(dead_code, unused_variables, unused_mut, clippy::all)]

pub mod basic_rules;
pub mod circuit;
pub mod cli;
pub mod decompose;
pub mod detection_webs;
pub mod equality;
pub mod extract;
pub mod gate;
pub mod generate;
pub mod graph;
pub mod hash_graph;
pub mod json;
pub mod linalg;
pub mod openqasm;
pub mod phase;
pub mod rankwidth;
pub mod scalar;
pub mod simplify;
pub mod tensor;
pub mod vec_graph;
pub mod mrtest;
