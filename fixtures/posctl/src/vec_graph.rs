//! C09 controls, vector back end: each method violates one clause of the representation invariant.
use crate::graph::*;
use std::mem;

#[derive(Clone, PartialEq)]
pub struct Graph {
    vdata: Vec<Option<VData>>,
    edata: Vec<Option<Vec<(V, EType)>>>,
    holes: Vec<V>,
    inputs: Vec<V>,
    outputs: Vec<V>,
    numv: usize,
    nume: usize,
}

impl Graph {
    fn index<U>(nhd: &[(V, U)], v: V) -> Option<usize> {
        nhd.iter().position(|&(v0, _)| v == v0)
    }
    fn remove_half_edge(&mut self, s: V, t: V) {
        if let Some(Some(nhd)) = self.edata.get_mut(s) {
            Graph::index(nhd, t).map(|i| nhd.swap_remove(i));
        }
    }
}

impl GraphLike for Graph {
    fn degree(&self, v: V) -> usize {
        0
    }
    fn vertex_data_opt(&self, v: V) -> Option<VData> {
        None
    }
    fn vertex_type(&self, v: V) -> VType {
        VType::B
    }
    fn phase(&self, v: V) -> i64 {
        0
    }
    fn vars(&self, v: V) -> Vec<u32> {
        vec![]
    }
    fn neighbor_vec(&self, v: V) -> Vec<V> {
        vec![]
    }
    fn connected(&self, s: V, t: V) -> bool {
        false
    }
    fn add_vertex(&mut self, ty: VType) -> V {
        0
    }
    /// control: correct (sibling of the hash control that forgets the adjacency slot)
    fn add_vertex_with_data(&mut self, d: VData) -> V {
        self.numv += 1;
        if let Some(v) = self.holes.pop() {
            self.vdata[v] = Some(d);
            self.edata[v] = Some(Vec::new());
            v
        } else {
            self.vdata.push(Some(d));
            self.edata.push(Some(Vec::new()));
            self.vdata.len() - 1
        }
    }
    /// control: off-by-one resize, the slot for `v` itself is never created
    fn add_named_vertex_with_data(&mut self, v: V, d: VData) -> Result<(), &str> {
        if v < self.vdata.len() {
            let h = self.holes.iter().position(|&h| h == v);
            if h.is_none() {
                return Err("Vertex already in graph");
            }
            self.holes.remove(h.unwrap());
        } else {
            for i in self.vdata.len()..(v) {
                self.vdata.push(None);
                self.edata.push(None);
                self.holes.push(i);
            }
        }
        self.numv += 1;
        self.vdata[v] = Some(d);
        self.edata[v] = Some(Vec::new());
        Ok(())
    }
    /// control: the counter is bumped but only one half-edge is stored
    fn add_edge_with_type(&mut self, s: V, t: V, ety: EType) {
        self.nume += 1;
        if let Some(Some(nhd)) = self.edata.get_mut(s) {
            nhd.push((t, ety));
        } else {
            panic!("Source vertex not found");
        }
    }
    /// control: only one side of the edge gets the new type
    fn set_edge_type(&mut self, s: V, t: V, ety: EType) {
        if let Some(Some(nhd)) = self.edata.get_mut(s) {
            let i = Graph::index(nhd, t).expect("Edge not found");
            nhd[i] = (t, ety);
        } else {
            panic!("Source vertex not found");
        }
    }
    fn add_edge_smart(&mut self, s: V, t: V, et: EType) {}
    fn add_to_phase(&mut self, v: V, p: i64) {}
    fn add_to_vars(&mut self, v: V, vars: &Vec<u32>) {}
    /// control: the slot is emptied but never recorded as a hole
    fn remove_vertex(&mut self, v: V) {
        self.numv -= 1;
        self.vdata[v] = None;
        let adj = mem::take(&mut self.edata[v]).expect("No such vertex.");
        for (v1, _) in adj {
            self.nume -= 1;
            self.remove_half_edge(v1, v);
        }
    }
    fn vertex_vec(&self) -> Vec<V> {
        vec![]
    }
    /// control: the predicate is offered empty slots
    fn find_vertex<F: Fn(V) -> bool>(&self, f: F) -> Option<V> {
        for (v, d) in self.vdata.iter().enumerate() {
            if f(v) {
                return Some(v);
            }
        }
        None
    }
    /// control: indexing without the bound test
    fn contains_vertex(&self, v: V) -> bool {
        self.vdata[v].is_some()
    }
    /// control: outputs keep the old names
    fn pack(&mut self, force: bool) {
        if force {
            let new_size = self.numv;
            let mut vtab = vec![0; self.vdata.len()];
            let mut j = 0;
            for i in 0..self.vdata.len() {
                if self.vdata[i].is_some() {
                    self.vdata[j] = self.vdata[i].take();
                    self.edata[j] = self.edata[i].take();
                    vtab[i] = j;
                    j += 1;
                }
            }
            self.vdata.truncate(new_size);
            self.edata.truncate(new_size);
            self.holes = vec![];
            for et in self.edata.iter_mut() {
                if let Some(tab) = et.as_mut() {
                    tab.iter_mut().for_each(|pair| *pair = (vtab[pair.0], pair.1));
                }
            }
            self.inputs = self.inputs.iter().map(|v| vtab[*v]).collect();
        }
    }
}
