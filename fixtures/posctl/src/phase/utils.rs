//! control (C16 R-REFEQ): Fraction.limit_denominator with the tie going to the wrong candidate
pub struct Ratio2 {
    n: i64,
    d: i64,
}
impl Ratio2 {
    pub fn numer(&self) -> &i64 {
        &self.n
    }
    pub fn denom(&self) -> &i64 {
        &self.d
    }
    pub fn new_raw(n: i64, d: i64) -> Ratio2 {
        Ratio2 { n, d }
    }
}
pub trait DivFloor {
    fn div_floor(&self, o: &i64) -> i64;
}
impl DivFloor for i64 {
    fn div_floor(&self, o: &i64) -> i64 {
        *self / *o
    }
}

pub fn limit_denominator(fraction: Ratio2, max_denom: i64) -> Ratio2 {
    let mut numer = fraction.numer().clone();
    let mut denom = fraction.denom().clone();
    if denom <= max_denom {
        return fraction;
    }
    let mut numer_0 = 0;
    let mut denom_0 = 1;
    let mut numer_1 = 1;
    let mut denom_1 = 0;
    loop {
        let a = numer.div_floor(&denom);
        let new_numer = denom_0 + a * denom_1;
        if new_numer > max_denom {
            break;
        }
        let new_denom = numer_0 + a * numer_1;
        numer_0 = numer_1;
        denom_0 = denom_1;
        numer_1 = new_denom;
        denom_1 = new_numer;
        let tmp_denom = numer - a * denom;
        numer = denom;
        denom = tmp_denom;
    }
    let k = (max_denom - denom_0).div_floor(&denom_1);
    if 2 * denom * (denom_0 + k * denom_1) < *fraction.denom() {
        Ratio2::new_raw(numer_1, denom_1)
    } else {
        Ratio2::new_raw(numer_0 + k * numer_1, denom_0 + k * denom_1)
    }
}
