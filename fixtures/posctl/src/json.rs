pub struct JsonScalar {
    pub floatfactor: f64,
    pub power2: i32,
}
pub fn exact(v: i32) -> Option<i32> {
    Some(v)
}
/// control: the exact branch writes 1.0 ...
pub fn enc(v: i32) -> JsonScalar {
    match exact(v) {
        Some(pow) => JsonScalar { power2: pow, floatfactor: 1.0 },
        None => JsonScalar { power2: 0, floatfactor: 0.5 },
    }
}
pub trait IsZero {
    fn is_zero(&self) -> bool;
}
impl IsZero for f64 {
    fn is_zero(&self) -> bool {
        *self == 0.0
    }
}
/// ... but the reader only skips 0.0
pub fn dec(value: &JsonScalar) -> f64 {
    let mut s = 1.0;
    if !value.floatfactor.is_zero() {
        s *= value.floatfactor;
    }
    s
}
