pub trait RowOps {
    fn row_add(&mut self, r0: usize, r1: usize);
}
impl RowOps for () {
    fn row_add(&mut self, _: usize, _: usize) {}
}
#[derive(Clone)]
pub struct Mat2 {
    d: Vec<Vec<u8>>,
}
impl Mat2 {
    pub fn id(n: usize) -> Mat2 {
        Mat2 { d: vec![vec![0; n]; n] }
    }
    pub fn num_rows(&self) -> usize {
        self.d.len()
    }
    pub fn num_cols(&self) -> usize {
        self.d[0].len()
    }
    /// controls: an unmirrored row_add, a direct write, an unguarded row_add(a, b)
    pub fn gauss_helper<T: RowOps>(&mut self, full_reduce: bool, blocksize: usize, x: &mut T, pivot_cols: &mut Vec<usize>) -> usize {
        let rows = self.num_rows();
        let mut pivot_row = 0;
        for r0 in 0..rows {
            self.row_add(r0, pivot_row);
            x.row_add(r0, pivot_row);
            self.row_add(pivot_row, r0);
            pivot_row += 1;
            self.d[r0][0] = 0;
        }
        pivot_row
    }
    /// controls (C17 D5): last partial block dropped; pivot without break; forward elimination starts one row too low
    pub fn gauss_blocks<T: RowOps>(&mut self, full_reduce: bool, blocksize: usize, x: &mut T, pivot_cols: &mut Vec<usize>) -> usize {
        let rows = self.num_rows();
        let cols = self.num_cols();
        let mut pivot_row = 0;
        let num_blocks = cols / blocksize;
        for sec in 0..num_blocks {
            let i0 = sec * blocksize;
            let i1 = std::cmp::min(cols, (sec + 1) * blocksize);
            for p in i0..i1 {
                for r0 in pivot_row..rows {
                    if self.d[r0][p] != 0 {
                        for r1 in pivot_row + 2..rows {
                            if self.d[r1][p] != 0 {
                                self.row_add(pivot_row, r1);
                                x.row_add(pivot_row, r1);
                            }
                        }
                        pivot_cols.push(p);
                        pivot_row += 1;
                    }
                }
            }
        }
        if full_reduce {
            let mut sec = num_blocks;
            while sec != 0 {
                sec -= 1;
                let i0 = sec * blocksize;
                let i1 = std::cmp::min(cols, (sec + 1) * blocksize);
            }
        }
        pivot_row
    }
    pub fn build<F: Fn(usize, usize) -> bool>(rows: usize, cols: usize, f: F) -> Mat2 {
        Mat2 { d: vec![] }
    }
    /// control (C17 D6): dimensions not exchanged
    pub fn transpose(&self) -> Mat2 {
        Mat2::build(self.num_rows(), self.num_cols(), |i, j| self.d[j][i] == 1)
    }
    pub fn gauss(&mut self, full_reduce: bool) -> usize {
        self.gauss_helper(full_reduce, 3, &mut (), &mut vec![])
    }
    /// control (C17 D6): the tested entry uses the pivot column as a row index
    pub fn nullspace(&self) -> Vec<Vec<u8>> {
        let mut mat = self.clone();
        let rank = mat.gauss(true);
        let n = self.num_cols();
        let pivot_cols: Vec<usize> = Vec::new();
        let free_vars: Vec<usize> = Vec::new();
        let mut basis = Vec::new();
        for &free_var in &free_vars {
            let mut vec = vec![0u8; n];
            vec[free_var] = 1;
            for (row, &pivot_col) in pivot_cols.iter().enumerate().rev() {
                if mat.d[pivot_col][free_var] == 1 {
                    vec[pivot_col] = 1;
                }
            }
            basis.push(vec);
        }
        basis
    }
    /// control: no rank test
    pub fn inverse(&self) -> Option<Mat2> {
        if self.num_rows() != self.num_cols() {
            return None;
        }
        let mut m = self.clone();
        let mut inv = Mat2::id(self.num_rows());
        let rank = m.gauss_helper(true, 3, &mut inv, &mut vec![]);
        Some(inv)
    }
}
/// control: adds r1 into r0 (reversed)
impl RowOps for Mat2 {
    fn row_add(&mut self, r0: usize, r1: usize) {
        for i in 0..self.num_cols() {
            self.d[r0][i] ^= self.d[r1][i];
        }
    }
}
