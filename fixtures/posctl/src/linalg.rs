pub trait RowOps {
    fn row_add(&mut self, r0: usize, r1: usize);
}
impl RowOps for () {
    fn row_add(&mut self, _: usize, _: usize) {}
}
#[derive(Clone)]
pub struct Mat2 {
    d: Vec<Vec<u8>>,
}
impl Mat2 {
    pub fn id(n: usize) -> Mat2 {
        Mat2 { d: vec![vec![0; n]; n] }
    }
    pub fn num_rows(&self) -> usize {
        self.d.len()
    }
    pub fn num_cols(&self) -> usize {
        self.d[0].len()
    }
    /// controls: an unmirrored row_add, a direct write, an unguarded row_add(a, b)
    pub fn gauss_helper<T: RowOps>(&mut self, full_reduce: bool, blocksize: usize, x: &mut T, pivot_cols: &mut Vec<usize>) -> usize {
        let rows = self.num_rows();
        let mut pivot_row = 0;
        for r0 in 0..rows {
            self.row_add(r0, pivot_row);
            x.row_add(r0, pivot_row);
            self.row_add(pivot_row, r0);
            pivot_row += 1;
            self.d[r0][0] = 0;
        }
        pivot_row
    }
    /// control: no rank test
    pub fn inverse(&self) -> Option<Mat2> {
        if self.num_rows() != self.num_cols() {
            return None;
        }
        let mut m = self.clone();
        let mut inv = Mat2::id(self.num_rows());
        let rank = m.gauss_helper(true, 3, &mut inv, &mut vec![]);
        Some(inv)
    }
}
/// control: adds r1 into r0 (reversed)
impl RowOps for Mat2 {
    fn row_add(&mut self, r0: usize, r1: usize) {
        for i in 0..self.num_cols() {
            self.d[r0][i] ^= self.d[r1][i];
        }
    }
}
