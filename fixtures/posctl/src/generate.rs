use crate::circuit::Circuit;
use crate::gate::*;

pub struct StdRng(u64);
pub mod rand {
    pub trait Rng {
        fn random_range(&mut self, r: std::ops::Range<usize>) -> usize;
    }
    impl Rng for super::StdRng {
        fn random_range(&mut self, r: std::ops::Range<usize>) -> usize {
            r.start
        }
    }
    pub fn rng() -> super::StdRng {
        super::StdRng(0)
    }
}
use rand::Rng;

pub struct RandomCircuitBuilder {
    pub rng: StdRng,
    pub qubits: usize,
    pub depth: usize,
}
impl RandomCircuitBuilder {
    /// control: writes another field
    pub fn depth(&mut self, depth: usize) -> &mut Self {
        self.qubits = depth;
        self
    }
    /// controls: a draw from a foreign generator; `>` instead of `>=` in the index shift
    pub fn build(&mut self, c: &mut Circuit) {
        let q0 = self.rng.random_range(0..self.qubits);
        let mut q1 = rand::rng().random_range(0..self.qubits - 1);
        if q1 > q0 {
            q1 += 1;
        }
        c.push(Gate::new(CNOT, vec![q0, q1]));
    }
}

pub struct RandomPauliGadgetCircuitBuilder {
    pub rng: StdRng,
    pub phase_denom: usize,
}

impl RandomPauliGadgetCircuitBuilder {
    /// control (C19 R-RANGE-nonclifford): denominators 6, 10, .. take the unrestricted arm
    pub fn build(&mut self) -> usize {
        let phase_num = if self.phase_denom >= 4 && self.phase_denom % 4 == 0 {
            let mut p = self.rng.random_range(1..(2 * self.phase_denom) - 3);
            if p >= self.phase_denom / 2 {
                p += 1;
            }
            if p >= self.phase_denom {
                p += 1;
            }
            if p >= (3 * self.phase_denom) / 2 {
                p += 1;
            }
            p
        } else {
            self.rng.random_range(1..2 * self.phase_denom)
        };
        phase_num
    }
}
