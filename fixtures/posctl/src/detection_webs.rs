use crate::graph::*;

/// control: first block sorted by id only
pub fn ordered_nodes(g: &Graph) -> (Vec<usize>, Vec<usize>) {
    let mut original: Vec<usize> = g.vertices().collect();
    original.sort();
    let outputs: Vec<usize> = original.iter().filter(|&&v| !g.inputs().contains(&v)).cloned().collect();
    let mut vertices = outputs.clone();
    vertices.extend(original.iter().filter(|&&v| g.vertex_type(v) != VType::B && !outputs.contains(&v)).cloned());
    let m = vertices.clone();
    (vertices, m)
}

/// control: the restores are swapped
pub fn detection_webs(g: &mut Graph) -> usize {
    let old_inputs = g.inputs().clone();
    let old_outputs = g.outputs().clone();
    g.set_outputs(vec![]);
    g.set_inputs(vec![]);
    let (nodelist, index_map) = ordered_nodes(g);
    g.set_outputs(old_inputs);
    g.set_inputs(old_outputs);
    nodelist.len()
}
