use crate::graph::*;

/// control: first block sorted by id only
pub fn ordered_nodes(g: &Graph) -> (Vec<usize>, Vec<usize>) {
    let mut original: Vec<usize> = g.vertices().collect();
    original.sort();
    let outputs: Vec<usize> = original.iter().filter(|&&v| !g.inputs().contains(&v)).cloned().collect();
    let mut vertices = outputs.clone();
    vertices.extend(original.iter().filter(|&&v| g.vertex_type(v) != VType::B && !outputs.contains(&v)).cloned());
    let m = vertices.clone();
    (vertices, m)
}

/// controls: the restores are swapped; the block width is read before the outputs are de-duplicated; the no-output block is outs wide
pub fn detection_webs(g: &mut Graph) -> Vec<usize> {
    let old_inputs = g.inputs().clone();
    let old_outputs = g.outputs().clone();
    let mut outputs: Vec<usize> = Vec::new();
    for v in g.vertices() {
        outputs.push(v);
    }
    let outs = outputs.len();
    outputs.sort_unstable();
    outputs.dedup();
    g.set_outputs(outputs);
    g.set_inputs(vec![]);
    let (nodelist, index_map) = ordered_nodes(g);
    let big_n = g.adjacency_matrix(Some(&nodelist));
    let i_n = BitMatrix::identity(outs);
    let zeroblock = BitMatrix::zeros(big_n.rows() - outs, outs);
    let mdl = i_n.vstack(&zeroblock);
    let md = mdl.hstack(&big_n);
    let eye_part = BitMatrix::identity(outs);
    let zero_part = BitMatrix::zeros(outs, md.cols() - outs);
    let no_output = eye_part.hstack(&zero_part);
    let md_no_output = md.vstack(&no_output);
    let mdnons = md_no_output.nullspace();
    let mut pws = Vec::new();
    for basis in mdnons.into_iter() {
        let w = pw(&index_map, &basis, g);
        pws.push(w);
    }
    g.set_outputs(old_inputs);
    g.set_inputs(old_outputs);
    pws
}

pub enum Pauli {
    X,
    Y,
    Z,
}
pub struct PauliWeb;
impl PauliWeb {
    pub fn set_edge(&mut self, a: usize, b: usize, p: Pauli) {}
}

/// control: the Pauli letters of the single-colour cases are swapped
pub fn pw(index_map: &Vec<usize>, v: &BitMatrix, g: &Graph) -> usize {
    let n_outs = g.inputs().len() + g.outputs().len();
    let mut red_edges = std::collections::BTreeSet::new();
    let mut green_edges = std::collections::BTreeSet::new();
    let mut pw = PauliWeb;
    for col in 0..v.cols() {
        if v.bit(0, col) {
            let node = index_map[col - n_outs];
            let node_color = g.vertex_type(node);
            for edge in g.edges() {
                if node == edge.0 || node == edge.1 {
                    if node_color == VType::Z {
                        green_edges.insert((edge.0, edge.1));
                    } else if node_color == VType::X {
                        red_edges.insert((edge.0, edge.1));
                    }
                }
            }
        }
    }
    for e in &red_edges {
        if green_edges.contains(e) {
            pw.set_edge(e.0, e.1, Pauli::Y);
        } else {
            pw.set_edge(e.0, e.1, Pauli::X);
        }
    }
    for e in green_edges {
        if !red_edges.contains(&e) {
            pw.set_edge(e.0, e.1, Pauli::Z);
        }
    }
    0
}
