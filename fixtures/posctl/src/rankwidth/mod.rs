pub mod decomp_tree;
