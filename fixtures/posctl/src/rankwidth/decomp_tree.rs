use std::collections::HashMap;

pub struct DecompTree {
    pub nodes: Vec<[usize; 3]>,
    ranks: HashMap<(usize, usize), usize>,
}
impl DecompTree {
    pub fn swap_subtrees(&mut self, t1: (usize, usize), t2: (usize, usize)) {}
    pub fn clear_rank(&mut self, e: (usize, usize)) {
        let e = if e.0 < e.1 { e } else { (e.1, e.0) };
        self.ranks.remove(&e);
    }
    /// control: key not canonicalised
    pub fn set_rank(&mut self, e: (usize, usize), rank: usize) {
        self.ranks.insert(e, rank);
    }
    /// control: the edge between the two parents is not cleared
    pub fn random_local_swap(&mut self, c: usize, a: usize, b: usize, d: usize) {
        self.clear_rank((c, a));
        self.clear_rank((b, d));
        self.swap_subtrees((c, a), (b, d));
    }
}
