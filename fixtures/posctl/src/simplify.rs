use crate::basic_rules::*;
use crate::graph::*;

/// control: the unchecked rule is applied without its matcher
pub fn bad_sweep(g: &mut impl GraphLike) {
    for v in g.vertex_vec() {
        if g.degree(v) == 2 {
            remove_id_unchecked(g, v);
        }
    }
}

/// control: raw insertion between two pre-existing vertices
pub fn bad_edge(g: &mut impl GraphLike, a: V, b: V) {
    let c = g.add_vertex(VType::Z);
    g.add_edge_with_type(a, c, EType::H);
    g.add_edge_with_type(a, b, EType::H);
}

/// control: phase transferred without its parity
pub fn bad_transfer(g: &mut impl GraphLike, v0: V, v1: V) {
    g.add_to_phase(v0, g.phase(v1));
    g.remove_vertex(v1);
}

pub fn full_simp(g: &mut crate::equality::G2) {}
