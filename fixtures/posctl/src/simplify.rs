use crate::basic_rules::*;
use crate::graph::*;

/// control: the unchecked rule is applied without its matcher
pub fn bad_sweep(g: &mut impl GraphLike) {
    for v in g.vertex_vec() {
        if g.degree(v) == 2 {
            remove_id_unchecked(g, v);
        }
    }
}

/// control: raw insertion between two pre-existing vertices
pub fn bad_edge(g: &mut impl GraphLike, a: V, b: V) {
    let c = g.add_vertex(VType::Z);
    g.add_edge_with_type(a, c, EType::H);
    g.add_edge_with_type(a, b, EType::H);
}

/// control: phase transferred without its parity
pub fn bad_transfer(g: &mut impl GraphLike, v0: V, v1: V) {
    g.add_to_phase(v0, g.phase(v1));
    g.remove_vertex(v1);
}

pub fn full_simp(g: &mut crate::equality::G2) {}

pub trait ScalarLike {
    fn mul_sqrt2_pow(&mut self, p: i32);
}
pub trait HasScalar {
    type S: ScalarLike;
    fn scalar_mut(&mut self) -> &mut Self::S;
}

/// control (C01 R-EFFECT-fuse): one sqrt2 factor per group instead of per removed gadget; the phase accumulator is overwritten
pub fn fuse_gadgets<G: GraphLike + HasScalar>(g: &mut G, gadgets: &std::collections::HashMap<Vec<V>, Vec<(V, V)>>) {
    for (vs, gs) in gadgets.iter() {
        if gs.len() > 1 {
            let num = gs.len() as i32;
            let degree = vs.len() as i32;
            let mut ph = 0i64;
            for (u, v) in gs.iter().skip(1).copied() {
                ph = g.phase(v);
                g.remove_vertex(u);
                g.remove_vertex(v);
            }
            g.add_to_phase(gs[0].1, ph);
            g.scalar_mut().mul_sqrt2_pow(-(degree - 1));
        }
    }
}
