//! Semantics fixture for the source-level interpreter (qxlib/minirust.py).  Every `tNNN` function is closed (no
//! arguments) and returns a value whose `{:?}` form is recorded in /verif/fixtures/mrtest_expected.json — produced ONCE by
//! compiling this file natively (fixtures/mrtest-run).  The checks never execute it: they interpret it from the facts the
//! driver extracts and compare with the recorded strings, as a positive control that the interpreter agrees with rustc on
//! the language semantics the evaluated fragments of quizx rely on.
use std::collections::{HashMap, VecDeque};

#[derive(Clone, Copy, Debug, PartialEq, Eq, Default)]
pub struct P {
    pub a: i64,
    pub b: u8,
}

#[derive(Clone, Debug, PartialEq, Eq, Default)]
pub struct Bag {
    pub n: usize,
    pub items: Vec<i32>,
    pub tag: P,
}

#[derive(Clone, Copy, Debug, PartialEq, Eq)]
pub enum Col {
    R,
    G,
    B,
}

pub trait Ops {
    fn bump(&mut self, k: i64);
    fn twice(&mut self, k: i64) {
        self.bump(k);
        self.bump(k);
    }
}

impl Ops for P {
    fn bump(&mut self, k: i64) {
        self.a += k;
    }
}

impl Ops for () {
    fn bump(&mut self, _k: i64) {}
}

impl std::ops::Add for P {
    type Output = P;
    fn add(mut self, rhs: P) -> P {
        self.a += rhs.a;
        self.b ^= rhs.b;
        self
    }
}

impl std::ops::AddAssign for P {
    fn add_assign(&mut self, rhs: P) {
        *self = *self + rhs;
    }
}

impl std::ops::Neg for P {
    type Output = P;
    fn neg(mut self) -> P {
        self.a = -self.a;
        self
    }
}

impl std::ops::Index<usize> for Bag {
    type Output = i32;
    fn index(&self, i: usize) -> &i32 {
        &self.items[i]
    }
}

impl From<i64> for P {
    fn from(a: i64) -> P {
        P { a, b: 0 }
    }
}

fn generic_twice<T: Ops>(x: &mut T, k: i64) {
    x.twice(k);
}

fn by_value(mut p: P) -> i64 {
    p.a += 100;
    p.a
}

fn by_ref(p: &mut P) {
    p.a += 100;
}

fn opt_half(x: i32) -> Option<i32> {
    if x % 2 == 0 {
        Some(x / 2)
    } else {
        None
    }
}

fn try_chain(x: i32) -> Option<i32> {
    let a = opt_half(x)?;
    let b = opt_half(a)?;
    Some(a + b)
}

pub fn t001() -> (i32, i32, i32, i32) {
    (-7 / 2, -7 % 2, 7 / -2, 7 % -2)
}
pub fn t002() -> (i32, i32) {
    ((-7i32).rem_euclid(4), (-1i32 - 1) / 2)
}
pub fn t003() -> (u32, u32, u32, u32) {
    (8u64.leading_zeros(), 8u64.trailing_zeros(), 0u64.trailing_zeros(), (1u128 << 100).leading_zeros())
}
pub fn t004() -> (u64, u64, u8) {
    (1u64.wrapping_shl(65), (u64::MAX).wrapping_shr(63), 0xf0u8 ^ 0xff)
}
pub fn t005() -> (Option<u64>, Option<u64>, Option<u8>) {
    (u64::MAX.checked_add(1), 5u64.checked_add(6), 200u8.checked_add(55))
}
pub fn t006() -> (u64, u64, i64, u8) {
    ((-1i64) as u64, ((1u128 << 64) + 5) as u64, (u64::MAX) as i64, 300i32 as u8)
}
pub fn t007() -> (i32, &'static str) {
    let x = -1;
    let s = match x {
        1 => "one",
        -1 => "minus one",
        _ => "other",
    };
    (x, s)
}
pub fn t008() -> Vec<&'static str> {
    let mut out = vec![];
    for x in [0, 3, 5, 8, 11] {
        out.push(match x {
            0 => "zero",
            n if n % 2 == 1 && n < 5 => "small odd",
            5 | 7 => "five or seven",
            n if n > 10 => "big",
            _ => "even",
        });
    }
    out
}
pub fn t009() -> (i64, i64, i64) {
    let p = P { a: 1, b: 2 };
    let mut q = p;
    q.a += 10;
    let r = by_value(q);
    (p.a, q.a, r)
}
pub fn t010() -> (i64, i64) {
    let mut p = P { a: 1, b: 2 };
    by_ref(&mut p);
    let mut v = vec![p, p];
    v[0].a += 1;
    (v[0].a, v[1].a)
}
pub fn t011() -> (i64, i64) {
    let mut p = P { a: 1, b: 0 };
    generic_twice(&mut p, 5);
    let mut u = ();
    generic_twice(&mut u, 5);
    let mut q = P::default();
    q.twice(3);
    (p.a, q.a)
}
pub fn t012() -> (P, P) {
    let a = P { a: 3, b: 5 };
    let b = P { a: 4, b: 1 };
    let mut c = a + b;
    c += a;
    (c, -a)
}
pub fn t013() -> Vec<i32> {
    let mut v = vec![1, 2, 3, 4];
    for x in v.iter_mut() {
        *x *= 2;
    }
    v.iter_mut().for_each(|x| *x += 1);
    v
}
pub fn t014() -> (i32, i32) {
    let mut a = 1;
    let mut b = 2;
    std::mem::swap(&mut a, &mut b);
    let old = std::mem::replace(&mut a, 9);
    (a + old, b)
}
pub fn t015() -> (Vec<i32>, Vec<i32>) {
    let a = vec![1, 2, 3];
    let mut b = a.clone();
    b.push(4);
    let c: Vec<i32> = a.iter().cloned().collect();
    (a, if c.len() == 3 { b } else { c })
}
pub fn t016() -> Vec<(usize, i32)> {
    vec![5, 6, 7, 8]
        .into_iter()
        .enumerate()
        .filter(|(i, _)| i % 2 == 1)
        .map(|(i, x)| (i, x * 10))
        .collect()
}
pub fn t017() -> (i32, Option<usize>, Option<i32>, bool, bool) {
    let v = vec![3, 1, 4, 1, 5];
    (
        v.iter().sum(),
        v.iter().position(|&x| x == 4),
        v.iter().copied().find(|&x| x > 3),
        v.iter().any(|&x| x == 9),
        v.iter().all(|&x| x > 0),
    )
}
pub fn t018() -> (Vec<i32>, Vec<(i32, i32)>, Vec<i32>) {
    let v = vec![1, 2, 3, 4, 5];
    (
        v.iter().rev().skip(1).take(2).copied().collect(),
        v.iter().copied().zip(v.iter().copied().skip(3)).collect(),
        v.windows(2).map(|w| w[1] - w[0]).collect(),
    )
}
pub fn t019() -> (Option<i32>, Option<i32>, i32) {
    let v = vec![3, 9, 2];
    (v.iter().copied().max(), v.iter().copied().min(), v.iter().fold(100, |acc, &x| acc - x))
}
pub fn t020() -> Vec<i32> {
    let mut v = vec![5, 3, 9, 3, 1];
    v.sort();
    v.dedup();
    v.reverse();
    v.insert(1, 7);
    let r = v.remove(0);
    v.push(r);
    v
}
pub fn t021() -> (Vec<i32>, i32, Option<i32>) {
    let mut v = vec![10, 20, 30, 40];
    let x = v.swap_remove(1);
    v.swap(0, 2);
    v.truncate(2);
    let y = v.pop();
    (v, x, y)
}
pub fn t022() -> (Option<i32>, Option<i32>, usize, bool) {
    let mut m: HashMap<Vec<u8>, i32> = HashMap::new();
    m.insert(vec![1, 2], 5);
    let old = m.insert(vec![1, 2], 6);
    m.insert(vec![3], 7);
    let r = m.remove(&vec![3]);
    (old, r, m.len(), m.contains_key(&vec![1, 2]))
}
pub fn t023() -> Vec<i32> {
    let mut d: VecDeque<i32> = VecDeque::new();
    d.push_back(1);
    d.push_back(2);
    d.push_front(0);
    d.push_front(-1);
    let f = d.pop_front();
    d.make_contiguous().reverse();
    let mut out: Vec<i32> = d.iter().copied().collect();
    out.push(f.unwrap());
    out
}
pub fn t024() -> (i32, i32) {
    let mut stack = vec![1, 2, 3];
    let mut sum = 0;
    let mut n = 0;
    while let Some(x) = stack.pop() {
        if x == 2 {
            continue;
        }
        sum += x;
        n += 1;
    }
    (sum, n)
}
pub fn t025() -> (i32, i32) {
    let v = vec![1, 2];
    let Some(&first) = v.first() else {
        return (-1, -1);
    };
    let w: Vec<i32> = vec![];
    let Some(&last) = w.last() else {
        return (first, -2);
    };
    (first, last)
}
pub fn t026() -> (Option<i32>, Option<i32>, Option<i32>) {
    (try_chain(12), try_chain(6), try_chain(3))
}
pub fn t027() -> i32 {
    let mut total = 0;
    for i in 0..5 {
        if i == 1 {
            continue;
        }
        if i == 4 {
            break;
        }
        let mut j = 0;
        loop {
            j += 1;
            if j > i {
                break;
            }
            total += j;
        }
    }
    total
}
pub fn t028() -> (i32, i32) {
    let x = 5;
    let x = x * 2;
    let y = {
        let x = x + 1;
        x * 3
    };
    (x, y)
}
pub fn t029() -> (usize, i32, i32) {
    let v = [3, 4, 5];
    let k = 10;
    let f = |a: i32| a + k;
    let g = |a: i32, b: i32| f(a) * b;
    (v.len(), f(1), g(1, 2))
}
pub fn t030() -> (u32, i64, i32, u64) {
    (7u32.saturating_sub(9), (-5i64).abs(), 2i32.pow(10), 3u64.min(9).max(4))
}
pub fn t031() -> String {
    let mut s = String::from("q");
    s += "[";
    s.push_str(&format!("{}", 3));
    s.push(']');
    let parts: Vec<String> = [1, 2].iter().map(|i| format!("x{i}")).collect();
    format!("{} {}", s, parts.join(", "))
}
pub fn t032() -> (Vec<i64>, [u8; 3]) {
    let a = [1i64, -2, 3].map(|c| c * 2);
    let b = [1u8, 2, 3].map(|c| c + 1);
    (a.to_vec(), b)
}
pub fn t033() -> Bag {
    let base = Bag { n: 1, items: vec![1, 2], tag: P { a: 7, b: 7 } };
    let mut b = Bag { n: 5, ..base.clone() };
    b.items.push(3);
    Bag { items: b.items.clone(), ..Default::default() }
}
pub fn t034() -> (i32, i32, P) {
    let b = Bag { n: 0, items: vec![4, 5, 6], tag: P::default() };
    (b[0], b[2], P::from(9))
}
pub fn t035() -> (Col, bool, Vec<u8>) {
    let c = Col::G;
    let d = if c == Col::R { Col::B } else { c };
    let codes = [Col::R, Col::G, Col::B]
        .iter()
        .map(|x| match x {
            Col::R => 0,
            Col::G | Col::B => 1,
        })
        .collect();
    (d, matches!(c, Col::G | Col::B), codes)
}
pub fn t036() -> (i32, i32, i32) {
    let t = (1, (2, 3));
    let (a, (b, c)) = t;
    let [x, y] = [a + b, b + c];
    (x, y, t.1 .0)
}
pub fn t037() -> Vec<i32> {
    let v = vec![1, 2, 3, 4, 5];
    match v.as_slice() {
        [first, .., last] => vec![*first, *last],
        _ => vec![],
    }
}
pub fn t038() -> (Vec<i32>, Vec<i32>) {
    let mut m: HashMap<i32, i32> = HashMap::new();
    m.insert(1, 10);
    m.insert(2, 20);
    for (_, v) in m.iter_mut() {
        if *v > 10 {
            *v -= 1;
        }
    }
    let mut ks: Vec<i32> = m.keys().copied().collect();
    ks.sort();
    let mut vs: Vec<i32> = m.values().copied().collect();
    vs.sort();
    (ks, vs)
}
pub fn t039() -> (u8, bool, u8) {
    let mut f: u8 = 0;
    f |= 0x02;
    f ^= 0x01;
    let s = f & 0x01 == 0x01;
    f &= 0xff ^ 0x02;
    (f, s, !f)
}
pub fn t040() -> (i64, u32) {
    let v: u64 = 0b1011000;
    let shift = v.trailing_zeros();
    ((v.wrapping_shr(shift)) as i64, shift)
}
pub fn t041() -> Vec<i32> {
    let mut it = vec![1, 3, 5].into_iter().peekable();
    let mut out = vec![];
    for c in 0..6 {
        if let Some(&p) = it.peek() {
            if p == c {
                it.next();
                continue;
            }
        }
        out.push(c);
    }
    out
}
pub fn t042() -> (i32, Vec<i32>) {
    let mut v = vec![vec![1, 2], vec![3]];
    let first = v[0].clone();
    v[0][1] ^= 3;
    v[1].extend(first.iter());
    (v[0][1], v[1].clone())
}
pub fn t043() -> (usize, usize) {
    let n: usize = 7;
    let blocks = if n % 3 == 0 { n / 3 } else { n / 3 + 1 };
    (blocks, std::cmp::min(n, 2 * 3))
}
pub fn t044() -> Vec<(i32, i32)> {
    let mut out = vec![];
    for (i, row) in [[1, 2], [3, 4]].iter().enumerate().rev() {
        for &x in row.iter().rev() {
            out.push((i as i32, x));
        }
    }
    out
}
pub fn t045() -> (Option<(i32, Vec<i32>)>, Option<(i32, Vec<i32>)>) {
    let v = vec![1, 2, 3];
    let e: Vec<i32> = vec![];
    (
        v.split_last().map(|(l, rest)| (*l, rest.to_vec())),
        e.split_last().map(|(l, rest)| (*l, rest.to_vec())),
    )
}
pub fn t046() -> (i32, i32) {
    let mut acc = 0;
    let mut calls = 0;
    let mut add = |x: i32| {
        acc += x;
        calls += 1;
    };
    add(2);
    add(3);
    (acc, calls)
}
pub fn t047() -> Vec<i32> {
    let mut out = vec![];
    'outer: for i in 0..4 {
        for j in 0..4 {
            if j == 2 {
                continue 'outer;
            }
            if i == 3 {
                break 'outer;
            }
            out.push(i * 10 + j);
        }
    }
    out
}
pub fn t048() -> (bool, bool, std::cmp::Ordering, std::cmp::Ordering) {
    let a = 3u64;
    let b = 5u64;
    (a.cmp(&b).is_lt(), (a, 2) < (a, 1), a.cmp(&b).reverse(), a.cmp(&a).then(b.cmp(&a)))
}
pub fn t049() -> (Vec<i32>, usize) {
    let v = vec![1, 2, 3, 4, 5, 6];
    let evens: Vec<i32> = v.iter().filter_map(|&x| if x % 2 == 0 { Some(x * x) } else { None }).collect();
    let n = v.iter().flat_map(|&x| vec![x; (x % 3) as usize]).count();
    (evens, n)
}
pub fn t050() -> (i64, i64, i64) {
    let mut ps = vec![P { a: 1, b: 0 }, P { a: 2, b: 0 }];
    let first = ps[0];
    for p in &mut ps {
        p.a *= 10;
    }
    let total: i64 = ps.iter().map(|p| p.a).sum();
    (first.a, ps[0].a, total)
}
#[derive(Debug, Clone, Copy, PartialEq, Eq)]
pub enum Nd {
    Leaf([usize; 1], usize),
    Inner([usize; 3]),
}
impl Nd {
    fn nhd_mut(&mut self) -> &mut [usize] {
        match self {
            Nd::Leaf(n, _) => n,
            Nd::Inner(n) => n,
        }
    }
    fn nhd(&self) -> &[usize] {
        match self {
            Nd::Leaf(n, _) => n,
            Nd::Inner(n) => n,
        }
    }
    fn parent(self) -> usize {
        if let Nd::Leaf([p], _) = self {
            p
        } else {
            99
        }
    }
}
pub fn t051() -> (Vec<Nd>, Nd, usize, bool) {
    let mut ns = vec![Nd::Leaf([1], 7), Nd::Inner([0, 2, 3])];
    let copy = ns[1];
    for n in ns[1].nhd_mut().iter_mut() {
        if *n == 2 {
            *n = 5;
            break;
        }
    }
    ns[0].nhd_mut()[0] = 4;
    let mut c2 = copy;
    c2.nhd_mut()[2] = 8;
    (ns.clone(), copy, ns[0].parent() + c2.nhd()[2], matches!(ns[0], Nd::Leaf(_, 7)))
}
pub fn t052() -> Vec<&'static str> {
    let mut out = vec![];
    for op in 0..10usize {
        out.push(match op {
            0 => "leaf",
            1..=4 => "local",
            5..7 => "mid",
            _ => "move",
        });
    }
    out
}
pub fn t053() -> (bool, bool, usize, Vec<usize>) {
    use std::collections::HashSet;
    let avoid = [3usize, 4];
    let mut seen: HashSet<usize> = avoid.iter().copied().collect();
    let a = seen.insert(1);
    let b = seen.insert(3);
    let mut path = vec![];
    let mut cur = 0usize;
    'dfs: while cur != 6 {
        for n in [3usize, 1, 4, 6, 2] {
            if !seen.contains(&n) {
                cur = n;
                path.push(n);
                seen.insert(n);
                continue 'dfs;
            }
        }
        break;
    }
    (a, b, seen.len(), path)
}
pub fn t054() -> (usize, bool, String, Vec<u8>) {
    use std::collections::HashMap;
    let mut m: HashMap<(usize, usize), usize> = HashMap::new();
    m.insert((1, 2), 5);
    let a = m.get(&(1, 2)).copied().unwrap_or_default() + m.get(&(2, 1)).copied().unwrap_or_default();
    let b: bool = None.unwrap_or_default();
    let s: String = None.unwrap_or_default();
    let v: Vec<u8> = None.unwrap_or_default();
    m.clear();
    (a + m.len(), b, s, v)
}
pub fn t055() -> (usize, usize, (usize, usize)) {
    let (mut a, mut b) = (1usize, 2usize);
    if a < b {
        (b, a) = (a, b);
    }
    let ranks = vec![3usize, 1, 2];
    (ranks.iter().max().copied().unwrap_or(0), ranks.iter().map(|r| r * r).sum(), (a, b))
}
pub fn t056() -> (f64, f64, bool, bool, f64, bool) {
    let old = 13usize;
    let new = 16usize;
    let delta = old as f64 - new as f64;
    let t = 5.0 * (1.0 + (new as f64 - 12.0) / 12.0);
    let zero = 0.0f64;
    let nan = zero / zero;
    ((delta / t).exp(), 7.5 / 2.0, (1.0 / zero).is_infinite(), nan.is_nan(), 7.5 % 2.0, nan > 1.0)
}
pub fn t057() -> (usize, bool, Option<u8>, u8, f64, f64, f64, f64) {
    let v: Vec<(usize, u8)> = vec![(7, 1)];
    let [(a, _b)] = v.clone().try_into().unwrap();
    let two: Result<[(usize, u8); 2], _> = v.try_into();
    let r: Result<u8, String> = Err("x".to_string());
    let k: Result<u8, String> = Ok(4);
    (a, two.is_err(), r.clone().ok(), k.map(|x| x + 1).unwrap_or(0) + r.unwrap_or(9), (1.5f64).clamp(0.0, 1.0), (-0.5f64).clamp(0.0, 1.0), (0.25f64).min(0.5), (0.25f64).max(0.5))
}
pub fn t058() -> (Vec<(usize, usize)>, usize) {
    use std::collections::HashMap;
    let mut qs: HashMap<usize, usize> = HashMap::new();
    for q in 0..4 {
        qs.insert(q, q);
    }
    let i = 1;
    qs.remove(&1);
    for idx in qs.values_mut().filter(|idx| **idx > i) {
        *idx -= 1;
    }
    for (_, v) in qs.iter_mut() {
        if *v == 0 {
            *v += 10;
        }
    }
    let mut out: Vec<(usize, usize)> = qs.iter().map(|(k, v)| (*k, *v)).collect();
    out.sort();
    let total = qs.values().sum();
    (out, total)
}
fn bump(counter: &mut u32, by: u32) -> u32 {
    *counter += by;
    *counter
}
pub fn t059() -> (u32, u32, u32, f64) {
    let mut fresh: u32 = 3;
    let a = bump(&mut fresh, 2);
    let b = bump(&mut fresh, 1) + fresh;
    let n: i32 = 7;
    let x: f64 = n.into();
    (a, b, fresh, x / 2.0)
}
pub enum Decl060 {
    Q { size: Option<u64> },
    C { size: Option<u64> },
    Gate,
}
pub fn t060() -> (u64, Option<u64>, Option<u64>, u64) {
    let decls = vec![
        Box::new(Decl060::C { size: Some(4) }),
        Box::new(Decl060::Q { size: Some(2) }),
        Box::new(Decl060::Gate),
        Box::new(Decl060::Q { size: None }),
        Box::new(Decl060::Q { size: Some(3) }),
    ];
    let total: u64 = decls
        .iter()
        .map(|d| match &**d {
            Decl060::Q { size } => size.unwrap_or(1),
            _ => 0,
        })
        .sum();
    let first = decls.iter().find_map(|d| match &**d {
        Decl060::Q { size } => Some(size.unwrap_or(1)),
        _ => None,
    });
    let none = decls.iter().find_map(|d| match &**d {
        Decl060::C { size: Some(9) } => Some(9),
        _ => None,
    });
    let cs: u64 = decls
        .iter()
        .map(|d| if let Decl060::C { size } = &**d { size.unwrap_or(1) } else { 0 })
        .sum();
    (total, first, none, cs)
}
