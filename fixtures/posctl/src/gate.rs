use crate::circuit::Circuit;

#[derive(PartialEq, Eq, Clone, Copy, Debug)]
pub enum GType {
    XPhase, NOT, ZPhase, Z, S, T, Sdg, Tdg, CNOT, CZ, ParityPhase, XCX, SWAP, HAD, TOFF, CCZ,
    InitAncilla, PostSelect, Measure, MeasureReset, UnknownGate,
}
pub use GType::*;

#[derive(Clone)]
pub struct Gate {
    pub t: GType,
    pub qs: Vec<usize>,
    pub phase: i64,
}

impl Gate {
    pub fn new(t: GType, qs: Vec<usize>) -> Gate {
        Gate { t, qs, phase: 0 }
    }
    /// control: the `Tdg => T` arm is missing
    pub fn adjoint(&mut self) {
        match self.t {
            ZPhase | XPhase | ParityPhase => {
                self.phase *= -1;
            }
            S => self.t = Sdg,
            T => self.t = Tdg,
            Sdg => self.t = S,
            _ => {}
        }
    }
    /// control: advertises 14 gates for CCZ, pushes 13
    pub fn num_basic_gates(&self) -> usize {
        match self.t {
            CCZ => 14,
            ParityPhase => {
                if self.qs.is_empty() {
                    0
                } else {
                    self.qs.len() * 2 - 1
                }
            }
            _ => 1,
        }
    }
    fn push13(circ: &mut Circuit, qs: &[usize]) {
        circ.push(Gate::new(CNOT, vec![qs[1], qs[2]]));
        circ.push(Gate::new(Tdg, vec![qs[2]]));
        circ.push(Gate::new(CNOT, vec![qs[0], qs[2]]));
        circ.push(Gate::new(T, vec![qs[2]]));
        circ.push(Gate::new(CNOT, vec![qs[1], qs[2]]));
        circ.push(Gate::new(Tdg, vec![qs[2]]));
        circ.push(Gate::new(CNOT, vec![qs[0], qs[2]]));
        circ.push(Gate::new(T, vec![qs[1]]));
        circ.push(Gate::new(T, vec![qs[2]]));
        circ.push(Gate::new(CNOT, vec![qs[0], qs[1]]));
        circ.push(Gate::new(T, vec![qs[0]]));
        circ.push(Gate::new(Tdg, vec![qs[1]]));
        circ.push(Gate::new(CNOT, vec![qs[0], qs[1]]));
    }
    pub fn push_basic_gates(&self, circ: &mut Circuit) {
        match self.t {
            CCZ => {
                Gate::push13(circ, &self.qs);
            }
            ParityPhase => {
                if let Some(&t) = self.qs.last() {
                    let sz = self.qs.len();
                    for &c in self.qs[0..sz - 1].iter() {
                        circ.push(Gate::new(CNOT, vec![c, t]));
                    }
                    circ.push(Gate::new(ZPhase, vec![t]));
                    for &c in self.qs[0..sz - 1].iter().rev() {
                        circ.push(Gate::new(CNOT, vec![c, t]));
                    }
                }
            }
            _ => circ.push(self.clone()),
        }
    }
}

impl GType {
    pub fn from_qasm_name(s: &str) -> GType {
        match s {
            "rz" => ZPhase,
            "s" => S,
            "sdg" => Sdg,
            _ => UnknownGate,
        }
    }
    /// control: Sdg prints as "s"
    pub fn qasm_name(&self) -> &'static str {
        match self {
            ZPhase => "rz",
            S => "s",
            Sdg => "s",
            _ => "UNKNOWN",
        }
    }
}

impl Gate {
    fn add_spider(g: &mut Vec<u8>, qs: &mut Vec<usize>, q: usize, ty: crate::graph::VType, et: crate::graph::EType, phase: i64) -> Option<usize> {
        None
    }
    /// control: CZ between two Z spiders with a plain edge
    pub fn add_to_graph_ctl(&self, graph: &mut Vec<u8>, qs: &mut Vec<usize>) {
        use crate::graph::{EType, VType};
        match self.t {
            CZ => {
                if let (Some(v1), Some(v2)) = (
                    Gate::add_spider(graph, qs, self.qs[0], VType::Z, EType::N, 0),
                    Gate::add_spider(graph, qs, self.qs[1], VType::Z, EType::N, 0),
                ) {
                    crate::gate::add_edge(graph, v1, v2);
                }
            }
            _ => {}
        }
    }
}
pub fn add_edge(g: &mut Vec<u8>, a: usize, b: usize) {}
