use crate::circuit::Circuit;
use crate::gate::*;

/// control: emits XCX
pub fn emit_bad(c: &mut Circuit, a: usize, b: usize) {
    c.push(Gate::new(XCX, vec![a, b]));
}

pub struct BM;
impl BM {
    pub fn cols(&self) -> usize {
        0
    }
    pub fn rows(&self) -> usize {
        0
    }
    pub fn row_weight(&self, i: usize) -> usize {
        0
    }
    pub fn bit(&self, r: usize, c: usize) -> bool {
        false
    }
}

/// control (C03 R-ARGMIN): strict comparison against an attainable initial bound
pub fn single_sln_set(m1: &BM, row_ops: &BM) -> usize {
    let mut min_weight = row_ops.cols();
    let mut min_weight_row = 0;
    for i in 0..m1.rows() {
        if m1.row_weight(i) == 1 {
            let weight = row_ops.row_weight(i);
            if weight < min_weight {
                min_weight_row = i;
                min_weight = weight;
            }
        }
    }
    min_weight_row
}
