use crate::circuit::Circuit;
use crate::gate::*;

/// control: emits XCX
pub fn emit_bad(c: &mut Circuit, a: usize, b: usize) {
    c.push(Gate::new(XCX, vec![a, b]));
}
