use crate::gate::*;
use std::collections::VecDeque;

#[derive(Clone)]
pub struct Circuit {
    nqubits: usize,
    pub gates: VecDeque<Gate>,
}
pub struct CircuitStats {
    pub oneq: usize,
    pub twoq: usize,
    pub moreq: usize,
    pub cliff: usize,
    pub non_cliff: usize,
}
impl CircuitStats {
    /// control: the two-qubit arm also counts the gate as one-qubit
    pub fn make(c: &Circuit) -> Self {
        let mut s = CircuitStats { oneq: 0, twoq: 0, moreq: 0, cliff: 0, non_cliff: 0 };
        for g in &c.gates {
            match g.qs.len() {
                1 => {
                    s.oneq += 1;
                }
                2 => {
                    s.twoq += 1;
                    s.oneq += 1;
                }
                _ => {
                    s.moreq += 1;
                }
            }
            match g.t {
                NOT | Z => {
                    s.cliff += 1;
                }
                _ => {
                    s.non_cliff += 1;
                }
            }
        }
        s
    }
}
impl Circuit {
    pub fn push(&mut self, g: Gate) {
        self.gates.push_back(g);
    }
}
/// control: prepends
impl std::ops::AddAssign<&Circuit> for Circuit {
    fn add_assign(&mut self, rhs: &Self) {
        for g in rhs.gates.iter() {
            self.gates.push_front(g.clone());
        }
    }
}

pub struct CircuitWriter {
    circuit: Circuit,
}
/// control: a barrier is silently accepted
impl crate::openqasm::GateWriter for &mut CircuitWriter {
    fn write_barrier(&mut self, _: &[usize]) -> Result<(), ()> {
        Ok(())
    }
}
