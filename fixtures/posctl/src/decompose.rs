#[derive(Clone)]
pub enum ComputationNode {
    Scalar(i64),
    Prod(Vec<ComputationNode>),
    Sum(Vec<ComputationNode>),
}
#[derive(Clone)]
pub struct Decomposer {
    n: usize,
}
impl Decomposer {
    fn decompose_node(&mut self, node: ComputationNode, parallel: bool, depth: i64) -> ComputationNode {
        node
    }
    fn node_to_scalar(&mut self, node: ComputationNode) -> i64 {
        0
    }
    /// control: the parallel branch recurses with a different depth
    pub fn decompose_graph(&mut self, terms: Vec<ComputationNode>, parallel: bool, current_depth: i64) -> Vec<ComputationNode> {
        let terms_vec: Vec<ComputationNode> = if parallel {
            terms
                .into_iter()
                .map(|term| {
                    let mut d = self.clone();
                    d.decompose_node(term, parallel, current_depth + 2)
                })
                .collect()
        } else {
            terms.into_iter().map(|term| self.decompose_node(term, parallel, current_depth + 1)).collect()
        };
        terms_vec
    }
    /// control: a product node reduced with sum
    pub fn prod_arm(&mut self, terms: Vec<ComputationNode>) -> i64 {
        terms.into_iter().map(|node| self.node_to_scalar(node)).sum()
    }
}
