use crate::gate::*;

pub struct T2;
impl T2 {
    pub fn hadamard_at(&mut self, q: usize) {}
    pub fn cphase_at(&mut self, p: i64, qs: &[usize]) {}
}
/// control: the NOT arm lost its second Hadamard
pub fn to_tensor(gates: &Vec<Gate>, a: &mut T2) {
    for g in gates.iter().rev() {
        match g.t {
            ZPhase => a.cphase_at(g.phase, &g.qs),
            NOT => {
                a.hadamard_at(g.qs[0]);
                a.cphase_at(1, &g.qs);
            }
            _ => {}
        }
    }
}
