#[derive(Clone, Copy, PartialEq, Eq, Debug)]
pub enum VType {
    B,
    Z,
    X,
    H,
}
#[derive(Clone, Copy, PartialEq, Eq, Debug)]
pub enum EType {
    N,
    H,
}
pub type V = usize;

/// a minimal stand-in for the concrete graph used by fixture functions that take `&Graph`
pub struct Graph {
    ins: Vec<usize>,
    outs: Vec<usize>,
}
impl Graph {
    pub fn vertices(&self) -> std::vec::IntoIter<usize> {
        vec![].into_iter()
    }
    pub fn inputs(&self) -> &Vec<usize> {
        &self.ins
    }
    pub fn outputs(&self) -> &Vec<usize> {
        &self.outs
    }
    pub fn set_inputs(&mut self, v: Vec<usize>) {
        self.ins = v;
    }
    pub fn set_outputs(&mut self, v: Vec<usize>) {
        self.outs = v;
    }
    pub fn vertex_type(&self, v: usize) -> VType {
        VType::B
    }
}

#[derive(Clone, Copy)]
pub struct VData {
    pub ty: VType,
    pub phase: i64,
}
pub trait GraphLike {
    fn degree(&self, v: V) -> usize;
    fn vertex_data_opt(&self, v: V) -> Option<VData>;
    fn vertex_type(&self, v: V) -> VType;
}
