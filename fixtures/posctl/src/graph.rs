#[derive(Clone, Copy, PartialEq, Eq, Debug)]
pub enum VType {
    B,
    Z,
    X,
    H,
}
#[derive(Clone, Copy, PartialEq, Eq, Debug)]
pub enum EType {
    N,
    H,
}
pub type V = usize;

/// a minimal stand-in for the concrete graph used by fixture functions that take `&Graph`
pub struct Graph {
    ins: Vec<usize>,
    outs: Vec<usize>,
}
impl Graph {
    pub fn vertices(&self) -> std::vec::IntoIter<usize> {
        vec![].into_iter()
    }
    pub fn inputs(&self) -> &Vec<usize> {
        &self.ins
    }
    pub fn outputs(&self) -> &Vec<usize> {
        &self.outs
    }
    pub fn set_inputs(&mut self, v: Vec<usize>) {
        self.ins = v;
    }
    pub fn set_outputs(&mut self, v: Vec<usize>) {
        self.outs = v;
    }
    pub fn vertex_type(&self, v: usize) -> VType {
        VType::B
    }
    pub fn adjacency_matrix(&self, nodes: Option<&[usize]>) -> BitMatrix {
        BitMatrix(0, 0)
    }
    pub fn edges(&self) -> Vec<(usize, usize, EType)> {
        vec![]
    }
    pub fn neighbors(&self, v: usize) -> Vec<usize> {
        vec![]
    }
}

/// stand-in for bitgauss::BitMatrix (shape only)
pub struct BitMatrix(pub usize, pub usize);
impl BitMatrix {
    pub fn identity(n: usize) -> BitMatrix {
        BitMatrix(n, n)
    }
    pub fn zeros(r: usize, c: usize) -> BitMatrix {
        BitMatrix(r, c)
    }
    pub fn vstack(&self, o: &BitMatrix) -> BitMatrix {
        BitMatrix(self.0 + o.0, self.1)
    }
    pub fn hstack(&self, o: &BitMatrix) -> BitMatrix {
        BitMatrix(self.0, self.1 + o.1)
    }
    pub fn rows(&self) -> usize {
        self.0
    }
    pub fn cols(&self) -> usize {
        self.1
    }
    pub fn nullspace(&self) -> Vec<BitMatrix> {
        vec![]
    }
    pub fn bit(&self, r: usize, c: usize) -> bool {
        false
    }
}

#[derive(Clone, Copy, PartialEq)]
pub struct VData {
    pub ty: VType,
    pub phase: i64,
    pub qubit: f64,
    pub row: f64,
}
pub trait GraphLike {
    fn degree(&self, v: V) -> usize;
    fn vertex_data_opt(&self, v: V) -> Option<VData>;
    fn vertex_type(&self, v: V) -> VType;
    fn phase(&self, v: V) -> i64;
    fn vars(&self, v: V) -> Vec<u32>;
    fn neighbor_vec(&self, v: V) -> Vec<V>;
    fn connected(&self, s: V, t: V) -> bool;
    fn add_vertex(&mut self, ty: VType) -> V;
    fn add_edge_with_type(&mut self, s: V, t: V, et: EType);
    fn add_edge_smart(&mut self, s: V, t: V, et: EType);
    fn add_to_phase(&mut self, v: V, p: i64);
    fn add_to_vars(&mut self, v: V, vars: &Vec<u32>);
    fn remove_vertex(&mut self, v: V);
    fn vertex_vec(&self) -> Vec<V>;
    fn vertex_data_mut(&mut self, v: V) -> &mut VData {
        unimplemented!()
    }
    fn add_vertex_with_data(&mut self, d: VData) -> V {
        unimplemented!()
    }
    fn add_named_vertex_with_data(&mut self, v: V, d: VData) -> Result<(), &str> {
        unimplemented!()
    }
    fn set_edge_type(&mut self, s: V, t: V, ety: EType) {
        unimplemented!()
    }
    fn remove_edge(&mut self, s: V, t: V) {
        unimplemented!()
    }
    fn find_edge<F: Fn(V, V, EType) -> bool>(&self, f: F) -> Option<(V, V, EType)> {
        unimplemented!()
    }
    fn find_vertex<F: Fn(V) -> bool>(&self, f: F) -> Option<V> {
        unimplemented!()
    }
    fn contains_vertex(&self, v: V) -> bool {
        unimplemented!()
    }
    fn outputs_mut(&mut self) -> &mut Vec<V> {
        unimplemented!()
    }
    fn pack(&mut self, force: bool) {}
    fn mul_scalar_factor(&mut self, e: u32, s: i64) {}
    /// control (C09 R-TABLE-accessor): the row setter writes the qubit field
    fn set_row(&mut self, v: V, row: f64) {
        self.vertex_data_mut(v).qubit = row;
    }
    fn set_qubit(&mut self, v: V, qubit: f64) {
        self.vertex_data_mut(v).qubit = qubit;
    }
}

/// control: index before bound test in one && chain
pub fn plug_inputs_bad(inputs: &Vec<V>, plug: &[u8]) -> usize {
    let mut n = 0;
    for (i, &v) in inputs.iter().enumerate() {
        if plug[i] != 0 && i < plug.len() {
            n += 1;
        }
    }
    n
}
