#[derive(Clone, Copy, PartialEq, Eq, Debug)]
pub enum VType {
    B,
    Z,
    X,
    H,
}
#[derive(Clone, Copy, PartialEq, Eq, Debug)]
pub enum EType {
    N,
    H,
}
pub type V = usize;

/// a minimal stand-in for the concrete graph used by fixture functions that take `&Graph`
pub struct Graph {
    ins: Vec<usize>,
    outs: Vec<usize>,
}
impl Graph {
    pub fn vertices(&self) -> std::vec::IntoIter<usize> {
        vec![].into_iter()
    }
    pub fn inputs(&self) -> &Vec<usize> {
        &self.ins
    }
    pub fn outputs(&self) -> &Vec<usize> {
        &self.outs
    }
    pub fn set_inputs(&mut self, v: Vec<usize>) {
        self.ins = v;
    }
    pub fn set_outputs(&mut self, v: Vec<usize>) {
        self.outs = v;
    }
    pub fn vertex_type(&self, v: usize) -> VType {
        VType::B
    }
}

#[derive(Clone, Copy)]
pub struct VData {
    pub ty: VType,
    pub phase: i64,
}
pub trait GraphLike {
    fn degree(&self, v: V) -> usize;
    fn vertex_data_opt(&self, v: V) -> Option<VData>;
    fn vertex_type(&self, v: V) -> VType;
    fn phase(&self, v: V) -> i64;
    fn vars(&self, v: V) -> Vec<u32>;
    fn neighbor_vec(&self, v: V) -> Vec<V>;
    fn connected(&self, s: V, t: V) -> bool;
    fn add_vertex(&mut self, ty: VType) -> V;
    fn add_edge_with_type(&mut self, s: V, t: V, et: EType);
    fn add_edge_smart(&mut self, s: V, t: V, et: EType);
    fn add_to_phase(&mut self, v: V, p: i64);
    fn add_to_vars(&mut self, v: V, vars: &Vec<u32>);
    fn remove_vertex(&mut self, v: V);
    fn vertex_vec(&self) -> Vec<V>;
}

/// control: index before bound test in one && chain
pub fn plug_inputs_bad(inputs: &Vec<V>, plug: &[u8]) -> usize {
    let mut n = 0;
    for (i, &v) in inputs.iter().enumerate() {
        if plug[i] != 0 && i < plug.len() {
            n += 1;
        }
    }
    n
}
