#[derive(Clone, Copy, PartialEq, Eq, Debug)]
pub enum VType {
    B,
    Z,
    X,
    H,
}
#[derive(Clone, Copy, PartialEq, Eq, Debug)]
pub enum EType {
    N,
    H,
}
pub type V = usize;

/// a minimal stand-in for the concrete graph used by fixture functions that take `&Graph`
pub struct Graph {
    ins: Vec<usize>,
    outs: Vec<usize>,
}
impl Graph {
    pub fn vertices(&self) -> std::vec::IntoIter<usize> {
        vec![].into_iter()
    }
    pub fn inputs(&self) -> &Vec<usize> {
        &self.ins
    }
    pub fn outputs(&self) -> &Vec<usize> {
        &self.outs
    }
    pub fn set_inputs(&mut self, v: Vec<usize>) {
        self.ins = v;
    }
    pub fn set_outputs(&mut self, v: Vec<usize>) {
        self.outs = v;
    }
    pub fn vertex_type(&self, v: usize) -> VType {
        VType::B
    }
}
