use crate::graph::*;

/// controls: `vars.is_empty()` dropped; `degree` before the existence test
pub fn check_remove_id(g: &impl GraphLike, v: V) -> bool {
    if g.degree(v) != 2 {
        return false;
    }
    if let Some(vd) = g.vertex_data_opt(v) {
        (vd.ty == VType::Z || vd.ty == VType::X) && vd.phase == 0
    } else {
        false
    }
}
pub fn remove_id_unchecked(g: &mut impl GraphLike, v: V) {}
/// control: applies before checking
pub fn remove_id(g: &mut impl GraphLike, v: V) -> bool {
    remove_id_unchecked(g, v);
    if check_remove_id(g, v) {
        true
    } else {
        false
    }
}
