//! C09 controls, hash back end.
use crate::graph::*;
use std::collections::HashMap;

#[derive(PartialEq)]
pub struct Graph {
    vdata: HashMap<V, VData>,
    edata: HashMap<V, HashMap<V, EType>>,
    inputs: Vec<V>,
    outputs: Vec<V>,
    numv: usize,
    nume: usize,
    freshv: V,
    scalar_factors: HashMap<u32, i64>,
}

/// control: hand-written Clone (forgets the outputs)
impl Clone for Graph {
    fn clone(&self) -> Graph {
        Graph { vdata: self.vdata.clone(), edata: self.edata.clone(), inputs: self.inputs.clone(), outputs: Vec::new(), numv: self.numv, nume: self.nume, freshv: self.freshv, scalar_factors: self.scalar_factors.clone() }
    }
}

impl Graph {
    fn remove_half_edge(&mut self, s: V, t: V) {
        self.edata.get_mut(&s).map(|nhd| nhd.remove(&t));
    }
}

impl GraphLike for Graph {
    fn degree(&self, v: V) -> usize {
        0
    }
    fn vertex_data_opt(&self, v: V) -> Option<VData> {
        None
    }
    fn vertex_type(&self, v: V) -> VType {
        VType::B
    }
    fn phase(&self, v: V) -> i64 {
        0
    }
    fn vars(&self, v: V) -> Vec<u32> {
        vec![]
    }
    fn neighbor_vec(&self, v: V) -> Vec<V> {
        vec![]
    }
    fn connected(&self, s: V, t: V) -> bool {
        false
    }
    fn add_vertex(&mut self, ty: VType) -> V {
        0
    }
    /// control: the adjacency slot is forgotten (differs from the vector sibling)
    fn add_vertex_with_data(&mut self, d: VData) -> V {
        let v = self.freshv;
        self.freshv += 1;
        self.numv += 1;
        self.vdata.insert(v, d);
        v
    }
    /// control: inverted presence test, and freshv advanced under `>` instead of `>=`
    fn add_named_vertex_with_data(&mut self, v: V, d: VData) -> Result<(), &str> {
        if !self.vdata.contains_key(&v) {
            return Err("Vertex already in graph");
        }
        if v > self.freshv {
            self.freshv = v + 1;
        }
        self.numv += 1;
        self.vdata.insert(v, d);
        self.edata.insert(v, HashMap::default());
        Ok(())
    }
    fn add_edge_with_type(&mut self, s: V, t: V, ety: EType) {}
    fn add_edge_smart(&mut self, s: V, t: V, et: EType) {}
    fn add_to_phase(&mut self, v: V, p: i64) {}
    fn add_to_vars(&mut self, v: V, vars: &Vec<u32>) {}
    fn remove_vertex(&mut self, v: V) {}
    /// control: an unrecognised representation write (the whole adjacency of s is cleared)
    fn remove_edge(&mut self, s: V, t: V) {
        self.nume -= 1;
        self.edata.get_mut(&s).expect("x").clear();
        self.remove_half_edge(t, s);
    }
    fn vertex_vec(&self) -> Vec<V> {
        vec![]
    }
    /// control: no orientation filter
    fn find_edge<F: Fn(V, V, EType) -> bool>(&self, f: F) -> Option<(V, V, EType)> {
        for (&v0, tab) in self.edata.iter() {
            for (&v1, &et) in tab.iter() {
                if f(v0, v1, et) {
                    return Some((v0, v1, et));
                }
            }
        }
        None
    }
    /// control: a second factor for the same expression replaces the first
    fn mul_scalar_factor(&mut self, e: u32, s: i64) {
        if let Some(t) = self.scalar_factors.get_mut(&e) {
            *t = s;
        } else {
            self.scalar_factors.insert(e, s);
        }
    }
    /// control: the outputs accessor hands out the inputs
    fn outputs_mut(&mut self) -> &mut Vec<V> {
        &mut self.inputs
    }
}
