#![feature(rustc_private)]
// qxfacts — fact extractor for the QuiZX static checks (engine E1 of /verif/DESIGN.md).
//
// A rustc driver (injected with RUSTC_WORKSPACE_WRAPPER under `cargo +nightly check`) that, after
// analysis of the crate named by $QXFACTS_CRATE (default "quizx"), writes one JSON fact base to
// $QXFACTS_OUT:
//   fns   : every local fn/method body as a typed, resolved expression tree ("HIR-lite"),
//           with `for`/`while`/`?` re-sugared, closures inline, resolved callee def paths;
//           plus a light MIR summary (resolved call terminators, int casts, ADT aggregates)
//   consts: local const/static bodies (HIR-lite)
//   adts  : fields (name, type, visibility) of local structs/enums
//   impls : local impl blocks (trait, self type, derived?, method keys)
// Nothing of the analysed crate is executed.
extern crate rustc_ast;
extern crate rustc_driver;
extern crate rustc_hir;
extern crate rustc_interface;
extern crate rustc_middle;
extern crate rustc_span;

use rustc_driver::Compilation;
use rustc_hir as hir;
use rustc_hir::def::{DefKind, Res};
use rustc_middle::mir;
use rustc_middle::ty::print::PrintTraitRefExt;
use rustc_middle::ty::{TyCtxt, TypeckResults};
use rustc_span::Span;
use std::collections::HashMap;
use std::fmt::Write as _;

fn js(s: &str) -> String {
    let mut o = String::with_capacity(s.len() + 2);
    o.push('"');
    for c in s.chars() {
        match c {
            '"' => o.push_str("\\\""),
            '\\' => o.push_str("\\\\"),
            '\n' => o.push_str("\\n"),
            '\t' => o.push_str("\\t"),
            '\r' => o.push_str("\\r"),
            c if (c as u32) < 0x20 => {
                let _ = write!(o, "\\u{:04x}", c as u32);
            }
            c => o.push(c),
        }
    }
    o.push('"');
    o
}
fn obj(fields: Vec<(&str, String)>) -> String {
    let mut o = String::from("{");
    for (i, (k, v)) in fields.iter().enumerate() {
        if i > 0 {
            o.push(',');
        }
        o.push_str(&js(k));
        o.push(':');
        o.push_str(v);
    }
    o.push('}');
    o
}
fn arr(items: Vec<String>) -> String {
    format!("[{}]", items.join(","))
}
fn opt(x: Option<String>) -> String {
    x.unwrap_or_else(|| "null".into())
}

struct Ex<'tcx> {
    tcx: TyCtxt<'tcx>,
    tr: &'tcx TypeckResults<'tcx>,
    unsupported: usize,
    nodes: usize,
}

fn hid(h: hir::HirId) -> String {
    format!("{}:{}", h.owner.def_id.local_def_index.as_u32(), h.local_id.as_u32())
}

impl<'tcx> Ex<'tcx> {
    fn sp(&self, sp: Span) -> String {
        let sm = self.tcx.sess.source_map();
        let lo = sm.lookup_char_pos(sp.lo());
        let mac = if sp.from_expansion() {
            let ed = sp.ctxt().outer_expn_data();
            format!("{:?}", ed.kind)
        } else {
            String::new()
        };
        let cs = sp.source_callsite();
        let cl = sm.lookup_char_pos(cs.lo());
        arr(vec![
            lo.line.to_string(),
            lo.col.0.to_string(),
            cl.line.to_string(),
            js(&mac),
        ])
    }
    fn defpath(&self, did: rustc_span::def_id::DefId) -> String {
        js(&self.tcx.def_path_str(did))
    }
    fn res(&self, res: Res) -> String {
        match res {
            Res::Local(h) => {
                let name = self.tcx.hir_name(h);
                obj(vec![("k", js("Local")), ("name", js(name.as_str())), ("id", js(&hid(h)))])
            }
            Res::Def(kind, did) => obj(vec![
                ("k", js("Def")),
                ("dk", js(&format!("{:?}", kind))),
                ("path", self.defpath(did)),
            ]),
            Res::SelfCtor(did) | Res::SelfTyAlias { alias_to: did, .. } => {
                let self_ty = format!("{}", self.tcx.type_of(did).instantiate_identity().skip_norm_wip());
                obj(vec![("k", js("SelfCtor")), ("path", self.defpath(did)), ("self_ty", js(&self_ty))])
            }
            other => obj(vec![("k", js("Res")), ("dbg", js(&format!("{:?}", other)))]),
        }
    }
    fn qpath(&self, qp: &hir::QPath<'tcx>, h: hir::HirId) -> String {
        self.res(self.tr.qpath_res(qp, h))
    }
    fn ty_of(&self, e: &hir::Expr<'tcx>) -> String {
        js(&format!("{}", self.tr.expr_ty(e)))
    }

    fn pat(&mut self, p: &hir::Pat<'tcx>) -> String {
        use hir::PatKind::*;
        match p.kind {
            Wild | Missing => obj(vec![("k", js("Wild"))]),
            Binding(mode, h, ident, sub) => obj(vec![
                ("k", js("Bind")),
                ("name", js(ident.as_str())),
                ("id", js(&hid(h))),
                ("mode", js(&format!("{:?}", mode))),
                ("sub", opt(sub.map(|s| self.pat(s)))),
                ("ty", js(&format!("{}", self.tr.pat_ty(p)))),
            ]),
            TupleStruct(ref qp, pats, _) => obj(vec![
                ("k", js("TupleStruct")),
                ("ctor", self.qpath(qp, p.hir_id)),
                ("sub", arr(pats.iter().map(|x| self.pat(x)).collect())),
            ]),
            Struct(ref qp, fields, _) => obj(vec![
                ("k", js("Struct")),
                ("ctor", self.qpath(qp, p.hir_id)),
                (
                    "fields",
                    arr(fields
                        .iter()
                        .map(|f| arr(vec![js(f.ident.as_str()), self.pat(f.pat)]))
                        .collect()),
                ),
            ]),
            Tuple(pats, _) => obj(vec![
                ("k", js("Tuple")),
                ("sub", arr(pats.iter().map(|x| self.pat(x)).collect())),
            ]),
            Or(pats) => obj(vec![
                ("k", js("Or")),
                ("sub", arr(pats.iter().map(|x| self.pat(x)).collect())),
            ]),
            Ref(inner, _, _) | Box(inner) | Deref(inner) => {
                obj(vec![("k", js("Ref")), ("sub", self.pat(inner))])
            }
            Expr(pe) => match pe.kind {
                hir::PatExprKind::Lit { lit, negated } => obj(vec![
                    ("k", js("Lit")),
                    ("v", js(&format!("{:?}", lit.node))),
                    ("neg", negated.to_string()),
                ]),
                hir::PatExprKind::Path(ref qp) => {
                    obj(vec![("k", js("Path")), ("res", self.qpath(qp, pe.hir_id))])
                }
            },
            Range(lo, hi, end) => {
                let mut pe = |x: Option<&hir::PatExpr<'tcx>>, this: &mut Self| -> String {
                    match x {
                        None => "null".to_string(),
                        Some(pe) => match pe.kind {
                            hir::PatExprKind::Lit { lit, negated } => obj(vec![
                                ("k", js("Lit")),
                                ("v", js(&format!("{:?}", lit.node))),
                                ("neg", negated.to_string()),
                            ]),
                            hir::PatExprKind::Path(ref qp) => {
                                obj(vec![("k", js("Path")), ("res", this.qpath(qp, pe.hir_id))])
                            }
                        },
                    }
                };
                let l = pe(lo, self);
                let h = pe(hi, self);
                obj(vec![
                    ("k", js("Range")),
                    ("lo", l),
                    ("hi", h),
                    ("incl", matches!(end, hir::RangeEnd::Included).to_string()),
                ])
            }
            Slice(a, m, b) => obj(vec![
                ("k", js("Slice")),
                ("pre", arr(a.iter().map(|x| self.pat(x)).collect())),
                ("mid", opt(m.map(|x| self.pat(x)))),
                ("post", arr(b.iter().map(|x| self.pat(x)).collect())),
            ]),
            _ => {
                self.unsupported += 1;
                obj(vec![("k", js("UnsupportedPat"))])
            }
        }
    }

    fn block(&mut self, b: &hir::Block<'tcx>) -> String {
        // `for` in expression position: `{ let _t = match into_iter(..) {..}; _t }`
        if b.stmts.len() == 1 {
            if let (hir::StmtKind::Let(l), Some(tail)) = (&b.stmts[0].kind, b.expr) {
                if let (Some(init), hir::ExprKind::Path(_)) = (l.init, &tail.kind) {
                    let init = peel(init);
                    if let hir::ExprKind::Match(_, _, hir::MatchSource::ForLoopDesugar) = init.kind {
                        return self.expr(init);
                    }
                }
            }
        }
        let mut stmts = vec![];
        for s in b.stmts {
            match s.kind {
                hir::StmtKind::Let(l) => stmts.push(obj(vec![
                    ("k", js("Let")),
                    ("pat", self.pat(l.pat)),
                    ("init", opt(l.init.map(|e| self.expr(e)))),
                    ("els", opt(l.els.map(|b| self.block(b)))),
                    ("sp", self.sp(l.span)),
                ])),
                hir::StmtKind::Expr(e) => stmts.push(self.expr(e)),
                hir::StmtKind::Semi(e) => {
                    let inner = self.expr(e);
                    stmts.push(inner);
                }
                hir::StmtKind::Item(_) => stmts.push(obj(vec![("k", js("Item"))])),
            }
        }
        let tail_ty = match b.expr {
            Some(e) => format!("{}", self.tr.expr_ty(e)),
            None => "()".to_string(),
        };
        let is_unsafe = !matches!(b.rules, hir::BlockCheckMode::DefaultBlock);
        obj(vec![
            ("k", js("Block")),
            ("unsafe", is_unsafe.to_string()),
            ("stmts", arr(stmts)),
            ("expr", opt(b.expr.map(|e| self.expr(e)))),
            ("ty", js(&tail_ty)),
            ("sp", self.sp(b.span)),
        ])
    }

    fn method_def(&self, e: &hir::Expr<'tcx>) -> Option<String> {
        self.tr.type_dependent_def_id(e.hir_id).map(|d| self.defpath(d))
    }

    /// `for` loop desugaring → For node
    fn try_for(&mut self, e: &hir::Expr<'tcx>) -> Option<String> {
        let hir::ExprKind::Match(scrut, arms, hir::MatchSource::ForLoopDesugar) = e.kind else {
            return None;
        };
        let hir::ExprKind::Call(_, args) = scrut.kind else { return None };
        if args.len() != 1 || arms.len() != 1 {
            return None;
        }
        let lp = peel(arms[0].body);
        let hir::ExprKind::Loop(blk, label, _, _) = lp.kind else { return None };
        let inner = match (blk.expr, blk.stmts.first()) {
            (Some(x), _) => peel(x),
            (None, Some(s)) => match s.kind {
                hir::StmtKind::Expr(x) | hir::StmtKind::Semi(x) => peel(x),
                _ => return None,
            },
            _ => return None,
        };
        let hir::ExprKind::Match(_, iarms, _) = inner.kind else { return None };
        if iarms.len() != 2 {
            return None;
        }
        // the arm that binds something is `Some(pat)`
        let mut some_arm = None;
        for a in iarms {
            match a.pat.kind {
                hir::PatKind::Struct(_, fields, _) if fields.len() == 1 => some_arm = Some((fields[0].pat, a.body)),
                hir::PatKind::TupleStruct(_, pats, _) if pats.len() == 1 => some_arm = Some((&pats[0], a.body)),
                _ => {}
            }
        }
        let (p, body) = some_arm?;
        let pat = self.pat(p);
        let iter = self.expr(&args[0]);
        let b = self.expr(body);
        Some(obj(vec![
            ("k", js("For")),
            ("pat", pat),
            ("iter", iter),
            ("body", b),
            ("label", opt(label.map(|l| js(l.ident.as_str())))),
            ("id", js(&hid(lp.hir_id))),
            ("ty", js("()")),
            ("sp", self.sp(e.span)),
        ]))
    }

    /// `while` / `while let` desugaring → While node
    fn try_while(&mut self, e: &hir::Expr<'tcx>) -> Option<String> {
        let hir::ExprKind::Loop(blk, label, hir::LoopSource::While, _) = e.kind else { return None };
        let tail = peel(blk.expr?);
        let hir::ExprKind::If(c, t, Some(_)) = tail.kind else { return None };
        if !blk.stmts.is_empty() {
            return None;
        }
        let cond = self.expr(c);
        let body = self.expr(t);
        Some(obj(vec![
            ("k", js("While")),
            ("cond", cond),
            ("body", body),
            ("label", opt(label.map(|l| js(l.ident.as_str())))),
            ("id", js(&hid(e.hir_id))),
            ("ty", js("()")),
            ("sp", self.sp(e.span)),
        ]))
    }

    /// `expr?` desugaring → Try node
    fn try_try(&mut self, e: &hir::Expr<'tcx>) -> Option<String> {
        let hir::ExprKind::Match(scrut, _, hir::MatchSource::TryDesugar(_)) = e.kind else { return None };
        let hir::ExprKind::Call(_, args) = scrut.kind else { return None };
        if args.len() != 1 {
            return None;
        }
        let inner = self.expr(&args[0]);
        Some(obj(vec![
            ("k", js("Try")),
            ("e", inner),
            ("ty", self.ty_of(e)),
            ("sp", self.sp(e.span)),
        ]))
    }

    fn expr(&mut self, e: &hir::Expr<'tcx>) -> String {
        use hir::ExprKind::*;
        self.nodes += 1;
        let mut f: Vec<(&str, String)> = vec![];
        match e.kind {
            Lit(l) => {
                f.push(("k", js("Lit")));
                f.push(("v", js(&format!("{:?}", l.node))));
            }
            Path(ref qp) => {
                f.push(("k", js("Path")));
                f.push(("res", self.qpath(qp, e.hir_id)));
            }
            Call(fun, args) => {
                f.push(("k", js("Call")));
                // resolved callee for path calls (associated fns through type-dependent resolution)
                let callee = match fun.kind {
                    Path(ref qp) => match self.tr.qpath_res(qp, fun.hir_id) {
                        Res::Def(DefKind::Fn | DefKind::AssocFn | DefKind::Ctor(..), did) => Some(self.defpath(did)),
                        Res::SelfCtor(did) => Some(self.defpath(did)),
                        _ => None,
                    },
                    _ => None,
                };
                f.push(("callee", opt(callee)));
                f.push(("fun", self.expr(fun)));
                f.push(("args", arr(args.iter().map(|a| self.expr(a)).collect())));
            }
            MethodCall(seg, recv, args, _) => {
                f.push(("k", js("MethodCall")));
                f.push(("name", js(seg.ident.as_str())));
                f.push(("callee", opt(self.method_def(e))));
                f.push(("recv", self.expr(recv)));
                f.push(("args", arr(args.iter().map(|a| self.expr(a)).collect())));
            }
            Binary(op, l, r) => {
                f.push(("k", js("Binary")));
                f.push(("op", js(&format!("{:?}", op.node))));
                f.push(("callee", opt(self.method_def(e))));
                f.push(("l", self.expr(l)));
                f.push(("r", self.expr(r)));
            }
            Unary(op, x) => {
                f.push(("k", js("Unary")));
                f.push(("op", js(&format!("{:?}", op))));
                f.push(("callee", opt(self.method_def(e))));
                f.push(("e", self.expr(x)));
            }
            AssignOp(op, l, r) => {
                f.push(("k", js("AssignOp")));
                f.push(("op", js(&format!("{:?}", op.node))));
                f.push(("callee", opt(self.method_def(e))));
                f.push(("l", self.expr(l)));
                f.push(("r", self.expr(r)));
            }
            Assign(l, r, _) => {
                f.push(("k", js("Assign")));
                f.push(("l", self.expr(l)));
                f.push(("r", self.expr(r)));
            }
            Field(x, ident) => {
                f.push(("k", js("Field")));
                f.push(("name", js(ident.as_str())));
                f.push(("e", self.expr(x)));
                f.push(("ety", self.ty_of(x)));
            }
            Index(x, i, _) => {
                f.push(("k", js("Index")));
                f.push(("callee", opt(self.method_def(e))));
                f.push(("e", self.expr(x)));
                f.push(("i", self.expr(i)));
                f.push(("ety", self.ty_of(x)));
            }
            Tup(xs) => {
                f.push(("k", js("Tup")));
                f.push(("items", arr(xs.iter().map(|a| self.expr(a)).collect())));
            }
            Array(xs) => {
                f.push(("k", js("Array")));
                f.push(("items", arr(xs.iter().map(|a| self.expr(a)).collect())));
            }
            Repeat(x, _) => {
                f.push(("k", js("Repeat")));
                f.push(("e", self.expr(x)));
            }
            Struct(qp, fields, tail) => {
                f.push(("k", js("Struct")));
                f.push(("ctor", self.qpath(qp, e.hir_id)));
                f.push((
                    "fields",
                    arr(fields
                        .iter()
                        .map(|fl| arr(vec![js(fl.ident.as_str()), self.expr(fl.expr)]))
                        .collect()),
                ));
                let base = match tail {
                    hir::StructTailExpr::Base(b) => Some(self.expr(b)),
                    _ => None,
                };
                f.push(("base", opt(base)));
            }
            Cast(x, _) => {
                f.push(("k", js("Cast")));
                f.push(("from", self.ty_of(x)));
                f.push(("e", self.expr(x)));
            }
            Type(x, _) | DropTemps(x) | Use(x, _) => {
                return self.expr(x);
            }
            AddrOf(_, m, x) => {
                f.push(("k", js("AddrOf")));
                f.push(("mut", (m == rustc_ast::Mutability::Mut).to_string()));
                f.push(("e", self.expr(x)));
            }
            Let(l) => {
                f.push(("k", js("LetCond")));
                f.push(("pat", self.pat(l.pat)));
                f.push(("init", self.expr(l.init)));
            }
            If(c, t, el) => {
                f.push(("k", js("If")));
                f.push(("cond", self.expr(c)));
                f.push(("then", self.expr(t)));
                f.push(("else", opt(el.map(|x| self.expr(x)))));
            }
            Match(scrut, arms, src) => {
                if let Some(s) = self.try_for(e) {
                    return s;
                }
                if let Some(s) = self.try_try(e) {
                    return s;
                }
                f.push(("k", js("Match")));
                f.push(("src", js(&format!("{:?}", src))));
                f.push(("scrut", self.expr(scrut)));
                let a: Vec<String> = arms
                    .iter()
                    .map(|a| {
                        obj(vec![
                            ("pat", self.pat(a.pat)),
                            ("guard", opt(a.guard.map(|g| self.expr(g)))),
                            ("body", self.expr(a.body)),
                            ("sp", self.sp(a.span)),
                        ])
                    })
                    .collect();
                f.push(("arms", arr(a)));
            }
            Loop(b, label, src, _) => {
                if let Some(s) = self.try_while(e) {
                    return s;
                }
                f.push(("k", js("Loop")));
                f.push(("src", js(&format!("{:?}", src))));
                f.push(("label", opt(label.map(|l| js(l.ident.as_str())))));
                f.push(("id", js(&hid(e.hir_id))));
                f.push(("body", self.block(b)));
            }
            Block(b, label) => {
                let s = self.block(b);
                if let Some(l) = label {
                    return obj(vec![
                        ("k", js("Labeled")),
                        ("label", js(l.ident.as_str())),
                        ("id", js(&hid(e.hir_id))),
                        ("body", s),
                        ("ty", self.ty_of(e)),
                        ("sp", self.sp(e.span)),
                    ]);
                }
                return s;
            }
            Closure(c) => {
                let body = self.tcx.hir_body(c.body);
                let old = self.tr;
                self.tr = self.tcx.typeck_body(c.body);
                let params: Vec<String> = body.params.iter().map(|p| self.pat(p.pat)).collect();
                let b = self.expr(body.value);
                self.tr = old;
                f.push(("k", js("Closure")));
                f.push(("params", arr(params)));
                f.push(("body", b));
            }
            Ret(x) => {
                f.push(("k", js("Ret")));
                f.push(("e", opt(x.map(|x| self.expr(x)))));
            }
            Break(dest, x) => {
                f.push(("k", js("Break")));
                f.push(("target", opt(dest.target_id.ok().map(|h| js(&hid(h))))));
                f.push(("label", opt(dest.label.map(|l| js(l.ident.as_str())))));
                f.push(("e", opt(x.map(|x| self.expr(x)))));
            }
            Continue(dest) => {
                f.push(("k", js("Continue")));
                f.push(("target", opt(dest.target_id.ok().map(|h| js(&hid(h))))));
                f.push(("label", opt(dest.label.map(|l| js(l.ident.as_str())))));
            }
            _ => {
                self.unsupported += 1;
                f.push(("k", js("Unsupported")));
                f.push(("dbg", js(&format!("{:?}", std::mem::discriminant(&e.kind)))));
            }
        }
        // auto-borrowed mutably (method receivers, overloaded index/assign operands)?
        for adj in self.tr.expr_adjustments(e) {
            let d = format!("{:?}", adj.kind);
            if d.starts_with("Borrow(") && d.contains("Mut") {
                f.push(("mutborrow", "true".to_string()));
                break;
            }
        }
        f.push(("ty", self.ty_of(e)));
        f.push(("sp", self.sp(e.span)));
        obj(f)
    }
}

fn peel<'a, 'tcx>(mut e: &'a hir::Expr<'tcx>) -> &'a hir::Expr<'tcx> {
    loop {
        match e.kind {
            hir::ExprKind::DropTemps(x) | hir::ExprKind::Type(x, _) | hir::ExprKind::Use(x, _) => e = x,
            _ => return e,
        }
    }
}

struct Cb;

impl rustc_driver::Callbacks for Cb {
    fn after_analysis<'tcx>(&mut self, _c: &rustc_interface::interface::Compiler, tcx: TyCtxt<'tcx>) -> Compilation {
        let want = std::env::var("QXFACTS_CRATE").unwrap_or_else(|_| "quizx".into());
        let krate = tcx.crate_name(rustc_span::def_id::LOCAL_CRATE);
        if krate.as_str() != want {
            return Compilation::Continue;
        }
        // only the library target (the bin target of the same name has nothing but `main`)
        let is_lib = tcx.crate_types().iter().any(|t| {
            matches!(t, rustc_session_config_crate_type::Rlib | rustc_session_config_crate_type::Dylib | rustc_session_config_crate_type::ProcMacro)
        }) || std::env::var("QXFACTS_ANY_TARGET").is_ok();
        if !is_lib {
            return Compilation::Continue;
        }
        let t0 = std::time::Instant::now();
        let mut fns: Vec<String> = vec![];
        let mut consts: Vec<String> = vec![];
        let mut unsupported = 0;
        let mut nodes = 0;
        let sm = tcx.sess.source_map();
        let mut seen: HashMap<String, usize> = HashMap::new();
        let mut key_of: HashMap<rustc_span::def_id::DefId, String> = HashMap::new();
        let mut owners: Vec<_> = tcx.hir_body_owners().collect();
        owners.sort_by_key(|l| {
            let sp = tcx.def_span(l.to_def_id());
            (format!("{}", sm.lookup_char_pos(sp.lo()).file.name.prefer_local_unconditionally()), sp.lo())
        });
        for ldid in owners {
            let did = ldid.to_def_id();
            let dk = tcx.def_kind(did);
            let is_fn = matches!(dk, DefKind::Fn | DefKind::AssocFn);
            let is_const = matches!(dk, DefKind::Const { .. } | DefKind::Static { .. } | DefKind::AssocConst { .. });
            if !is_fn && !is_const {
                continue;
            }
            let mut name = tcx.def_path_str(did);
            let n = seen.entry(name.clone()).or_insert(0);
            *n += 1;
            if *n > 1 {
                name = format!("{}#{}", name, *n);
            }
            key_of.insert(did, name.clone());
            let body = tcx.hir_body_owned_by(ldid);
            let tr = tcx.typeck(ldid);
            let mut ex = Ex { tcx, tr, unsupported: 0, nodes: 0 };
            let params: Vec<String> = body.params.iter().map(|p| ex.pat(p.pat)).collect();
            let h = ex.expr(body.value);
            unsupported += ex.unsupported;
            nodes += ex.nodes;
            let span = tcx.def_span(did);
            let lo = sm.lookup_char_pos(span.lo());
            let file = format!("{}", lo.file.name.prefer_local_unconditionally());
            let mac = if span.from_expansion() {
                format!("{:?}", span.ctxt().outer_expn_data().kind)
            } else {
                String::new()
            };
            if is_const {
                consts.push(format!(
                    "{}:{}",
                    js(&name),
                    obj(vec![("file", js(&file)), ("line", lo.line.to_string()), ("hir", h)])
                ));
                continue;
            }
            let whole = tcx.hir_span(tcx.local_def_id_to_hir_id(ldid));
            let hi = sm.lookup_char_pos(whole.hi());
            let sig = tcx.fn_sig(did).instantiate_identity().skip_norm_wip().skip_binder();
            let vis = format!("{:?}", tcx.visibility(did));
            let impl_of = tcx.impl_of_assoc(did).map(|i| {
                let self_ty = format!("{}", tcx.type_of(i).instantiate_identity().skip_norm_wip());
                let tr = tcx
                    .impl_opt_trait_ref(i)
                    .map(|t| format!("{}", t.instantiate_identity().skip_norm_wip().print_only_trait_path()));
                obj(vec![("self", js(&self_ty)), ("trait", opt(tr.map(|t| js(&t))))])
            });
            let trait_of = tcx.trait_of_assoc(did).map(|t| js(&tcx.def_path_str(t)));
            // light MIR
            let mirb = tcx.optimized_mir(did);
            let mut calls = vec![];
            let mut casts = vec![];
            let mut aggs = vec![];
            for (_bb, data) in mirb.basic_blocks.iter_enumerated() {
                if let Some(term) = &data.terminator {
                    if let mir::TerminatorKind::Call { func, .. } = &term.kind {
                        if let Some((cd, _)) = func.const_fn_def() {
                            let l = sm.lookup_char_pos(term.source_info.span.lo());
                            calls.push(arr(vec![js(&tcx.def_path_str(cd)), l.line.to_string()]));
                        }
                    }
                }
                for st in &data.statements {
                    if let mir::StatementKind::Assign(b) = &st.kind {
                        match &b.1 {
                            mir::Rvalue::Aggregate(k, _) => {
                                if let mir::AggregateKind::Adt(d, ..) = **k {
                                    let l = sm.lookup_char_pos(st.source_info.span.lo());
                                    aggs.push(arr(vec![js(&tcx.def_path_str(d)), l.line.to_string()]));
                                }
                            }
                            mir::Rvalue::Cast(kind, op, to) => {
                                if matches!(kind, mir::CastKind::IntToInt) {
                                    let from = op.ty(&mirb.local_decls, tcx);
                                    let l = sm.lookup_char_pos(st.source_info.span.lo());
                                    casts.push(arr(vec![
                                        js(&format!("{}", from)),
                                        js(&format!("{}", to)),
                                        l.line.to_string(),
                                        (st.source_info.span.from_expansion()).to_string(),
                                    ]));
                                }
                            }
                            _ => {}
                        }
                    }
                }
            }
            fns.push(format!(
                "{}:{}",
                js(&name),
                obj(vec![
                    ("file", js(&file)),
                    ("line", lo.line.to_string()),
                    ("hi", hi.line.to_string()),
                    ("vis", js(&vis)),
                    ("macro", js(&mac)),
                    ("inputs", arr(sig.inputs().iter().map(|t| js(&format!("{}", t))).collect())),
                    ("output", js(&format!("{}", sig.output()))),
                    ("impl_of", opt(impl_of)),
                    ("trait_of", opt(trait_of)),
                    ("params", arr(params)),
                    ("hir", h),
                    (
                        "mir",
                        obj(vec![("calls", arr(calls)), ("casts", arr(casts)), ("aggregates", arr(aggs))]),
                    ),
                ])
            ));
        }
        // ADTs and impl blocks
        let mut adts = vec![];
        let mut impls = vec![];
        for id in tcx.hir_free_items() {
            let item = tcx.hir_item(id);
            match item.kind {
                hir::ItemKind::Struct(..) | hir::ItemKind::Enum(..) => {
                    let did = item.owner_id.to_def_id();
                    let adt = tcx.adt_def(did);
                    let mut vs = vec![];
                    for v in adt.variants() {
                        let fs: Vec<String> = v
                            .fields
                            .iter()
                            .map(|fd| {
                                arr(vec![
                                    js(fd.name.as_str()),
                                    js(&format!("{}", tcx.type_of(fd.did).instantiate_identity().skip_norm_wip())),
                                    js(&format!("{:?}", fd.vis)),
                                ])
                            })
                            .collect();
                        vs.push(obj(vec![("name", js(v.name.as_str())), ("fields", arr(fs))]));
                    }
                    let lo = sm.lookup_char_pos(item.span.lo());
                    adts.push(format!(
                        "{}:{}",
                        js(&tcx.def_path_str(did)),
                        obj(vec![
                            ("kind", js(if adt.is_enum() { "enum" } else { "struct" })),
                            ("file", js(&format!("{}", lo.file.name.prefer_local_unconditionally()))),
                            ("line", lo.line.to_string()),
                            ("vis", js(&format!("{:?}", tcx.visibility(did)))),
                            ("variants", arr(vs)),
                        ])
                    ));
                }
                hir::ItemKind::Impl(imp) => {
                    let did = item.owner_id.to_def_id();
                    let self_ty = format!("{}", tcx.type_of(did).instantiate_identity().skip_norm_wip());
                    let tr = tcx
                        .impl_opt_trait_ref(did)
                        .map(|t| format!("{}", t.instantiate_identity().skip_norm_wip().print_only_trait_path()));
                    let derived = item.span.from_expansion();
                    let mut methods = vec![];
                    for it in imp.items {
                        let d = it.owner_id.to_def_id();
                        if let Some(k) = key_of.get(&d) {
                            methods.push(arr(vec![js(tcx.item_name(d).as_str()), js(k)]));
                        }
                    }
                    let lo = sm.lookup_char_pos(item.span.lo());
                    impls.push(obj(vec![
                        ("self", js(&self_ty)),
                        ("trait", opt(tr.map(|t| js(&t)))),
                        ("derived", derived.to_string()),
                        ("file", js(&format!("{}", lo.file.name.prefer_local_unconditionally()))),
                        ("line", lo.line.to_string()),
                        ("methods", arr(methods)),
                    ]));
                }
                _ => {}
            }
        }
        let nonce = std::env::var("QXFACTS_NONCE").unwrap_or_default();
        let out = format!(
            "{{\"nonce\":{},\"crate\":{},\"fns\":{{{}}},\"consts\":{{{}}},\"adts\":{{{}}},\"impls\":{},\"unsupported\":{},\"nodes\":{}}}",
            js(&nonce),
            js(krate.as_str()),
            fns.join(","),
            consts.join(","),
            adts.join(","),
            arr(impls),
            unsupported,
            nodes
        );
        let path = std::env::var("QXFACTS_OUT").expect("QXFACTS_OUT not set");
        std::fs::write(&path, &out).unwrap();
        eprintln!(
            "qxfacts: {} fns, {} consts, {} adts, {} unsupported nodes, {} nodes, {} bytes, {:?}",
            fns.len(),
            consts.len(),
            adts.len(),
            unsupported,
            nodes,
            out.len(),
            t0.elapsed()
        );
        Compilation::Continue
    }
}

#[allow(non_camel_case_types)]
use rustc_session_shim::CrateType as rustc_session_config_crate_type;
mod rustc_session_shim {
    extern crate rustc_session;
    pub use rustc_session::config::CrateType;
}

fn main() {
    let mut args: Vec<String> = std::env::args().collect();
    // RUSTC_WORKSPACE_WRAPPER passes the real rustc path as argv[1]
    args.remove(1);
    rustc_driver::run_compiler(&args, &mut Cb);
}
