"""Reference effect schemas of the rewrite rules (DESIGN Appendix A.1) — trusted base, derived from the ZX-calculus.

Written in the canonical language of qxlib/reffect.py, parameter-free semantics (no spider carries boolean
parameters; the parity column of A.1 is decided by C10).  n = |N(v)|, x = |N(v0)|, y = |N(v1)|, d = deg.
Each entry was reviewed against Appendix A.1:
  local complementation  sqrt2^((n-1)(n-2)/2) = 1/2 n^2 - 3/2 n + 1 ; e(p/2); every neighbour gets -p; all neighbour pairs complemented with smart H edges
  pivot                  sqrt2^((x-2)(y-2)) = xy - 2x - 2y + 4 ; -1 iff both phases are pi; N(v0) x N(v1) complemented (excluding the pivot vertices themselves)
  gadget fusion          sqrt2^(2-d) ; fuse_gadgets: sqrt2^(-(k-1)(t-1)) = -kt + k + t - 1
  remove pair            same colour via N / different via H: 1+e(p0+p1); otherwise sqrt2^-1 (1 + e(p0) + e(p1) - e(p0+p1))
  add_edge_smart         fuse along plain edges between like colours, Hopf law between unlike colours, H self-loop = pi and sqrt2^-1
"""

C01_SCHEMAS = {
    'basic_rules::boundary_local_comp_unchecked': [
        'call local_comp_unchecked(v0)',
        'call local_comp_unchecked(v1)',
        'each b in N(v0) : call unfuse_boundary(v0, b)',
    ],
    'basic_rules::color_change_unchecked': [
        'each w in N(v) : toggle_edge_type(v, w)',
        'set_vertex_type(v, (Z if X == ty(v) else X))',
    ],
    'basic_rules::gadget_fusion_unchecked': [
        'add_to_phase(the x in N(v0) with 1 == deg(x), phase(the x in N(v1) with 1 == deg(x)))',
        'remove_vertex(the x in N(v1) with 1 == deg(x))',
        'remove_vertex(v1)',
        "scalar *= sqrt2^(-deg(v0)' + 2)",
    ],
    'basic_rules::gen_pivot_unchecked': [
        'call pivot_unchecked(v0, v1)',
        'call unfuse_gadget(v0)',
        'call unfuse_gadget(v1)',
        "each n in N'(v1) : call unfuse_boundary(v1, n)",
        'each n in N(v0) : call unfuse_boundary(v0, n)',
    ],
    'basic_rules::local_comp_unchecked': [
        'for i in 0..|N(v)| : add_to_phase(N(v)[i], -phase(v))',
        'for i in 0..|N(v)| | for j in i+1..|N(v)| : add_edge_smart(N(v)[i], N(v)[j], H)',
        'remove_vertex(v)',
        'scalar *= e(1/2*phase(v))',
        'scalar *= sqrt2^(1/2*|N(v)|*|N(v)| - 3/2*|N(v)| + 1)',
    ],
    'basic_rules::pi_copy_unchecked': [
        'each neighbor in N(v) : add_to_phase(neighbor, 1)',
        'scalar *= e(phase(v))',
        'set_phase(v, -phase(v))',
    ],
    'basic_rules::pivot_unchecked': [
        'each n0 in N(v0) : add_to_phase(n0, phase(v1))',
        'each n0 in N(v0) | each n1 in N(v1) | if (n0 != v1 and n1 != v0) : add_edge_smart(n0, n1, H)',
        'each n1 in N(v1) : add_to_phase(n1, phase(v0))',
        'if (not phase(v0).is_zero and not phase(v1).is_zero) : scalar *= -1',
        'remove_vertex(v0)',
        'remove_vertex(v1)',
        'scalar *= sqrt2^(|N(v0)|*|N(v1)| - 2*|N(v0)| - 2*|N(v1)| + 4)',
    ],
    'basic_rules::remove_duplicate_unchecked': [
        'add_to_phase(v0, phase(v1))',
        'call remove_single_unchecked(v0)',
        'scalar *= sqrt2^(-deg(v0))',
    ],
    'basic_rules::remove_id_unchecked': [
        'add_edge_smart(inc(v)[0].v, inc(v)[1].v, match (inc(v)[0].et, inc(v)[1].et) {(N, N) => N; (N, H) => H; (N, Wio) => !; (H, N) => H; (H, H) => N; (H, Wio) => !; (Wio, N) => !; (Wio, H) => !; (Wio, Wio) => !})',
        'remove_vertex(v)',
    ],
    'basic_rules::remove_pair_unchecked': [
        'if ((H == etype(v0,v1) and ty(v0) != ty(v1)) or (N == etype(v0,v1) and ty(v0) == ty(v1))) : scalar *= 1+e(phase(v0) + phase(v1))',
        'if not ((H == etype(v0,v1) and ty(v0) != ty(v1)) or (N == etype(v0,v1) and ty(v0) == ty(v1))) : scalar *= [1 - e(phase(v0) + phase(v1)) + e(phase(v0)) + e(phase(v1))]',
        'if not ((H == etype(v0,v1) and ty(v0) != ty(v1)) or (N == etype(v0,v1) and ty(v0) == ty(v1))) : scalar *= sqrt2^(-1)',
        'remove_vertex(v0)',
        'remove_vertex(v1)',
    ],
    'basic_rules::remove_single_unchecked': [
        'remove_vertex(v)',
        'scalar *= 1+e(phase(v))',
    ],
    'basic_rules::spider_fusion_unchecked': [
        'add_to_phase(v0, phase(v1))',
        'each (v, et_v) in inc(v1) | if v != v0 : add_edge_smart(v, v0, et_v)',
        'remove_vertex(v1)',
    ],
    'basic_rules::unfuse_boundary': [
        'if B == ty(b) : add_edge_with_type(b, fresh#1, opposite(etype(b,v)))',
        'if B == ty(b) : add_edge_with_type(fresh#1, v, H)',
        'if B == ty(b) : fresh#1 = add_vertex(ty=Z)',
        'if B == ty(b) : remove_edge(b, v)',
    ],
    'basic_rules::unfuse_gadget': [
        'if not phase(v).is_pauli : add_edge_with_type(fresh#1, fresh#2, H)',
        'if not phase(v).is_pauli : add_edge_with_type(fresh#1, v, H)',
        'if not phase(v).is_pauli : fresh#1 = add_vertex(ty=Z)',
        'if not phase(v).is_pauli : fresh#2 = add_vertex(phase=phase(v), ty=Z)',
        'if not phase(v).is_pauli : set_phase(v, 0)',
    ],
    'simplify::fuse_gadgets': [
        'each (vs, gs) in gadgets | if |gs| > 1 : add_to_phase(gs[0].1, sum[each (vs, gs) in gadgets; each (u, v) in skip1:gs](phase(v)))',
        'each (vs, gs) in gadgets | if |gs| > 1 : scalar *= sqrt2^(-|gs|*|vs| + |gs| + |vs| - 1)',
        'each (vs, gs) in gadgets | if |gs| > 1 | each (u, v) in skip1:gs : remove_vertex(u)',
        'each (vs, gs) in gadgets | if |gs| > 1 | each (u, v) in skip1:gs : remove_vertex(v)',
    ],
    'simplify::remove_gadget_pi': [
        'each v in gadgets : call pi_copy_unchecked(v)',
    ],
    'graph::GraphLike::add_edge_smart': [
        'if s != t | if edge_type_opt(s, t) ~ Some(ety0) | case (ty(s), ty(t)) ~ (Z, X) | (X, Z) | case (ety0, ety) ~ (H, N) : add_to_phase(s, 1)',
        'if s != t | if edge_type_opt(s, t) ~ Some(ety0) | case (ty(s), ty(t)) ~ (Z, X) | (X, Z) | case (ety0, ety) ~ (H, N) : scalar *= sqrt2^(-1)',
        'if s != t | if edge_type_opt(s, t) ~ Some(ety0) | case (ty(s), ty(t)) ~ (Z, X) | (X, Z) | case (ety0, ety) ~ (N, H) : add_to_phase(s, 1)',
        'if s != t | if edge_type_opt(s, t) ~ Some(ety0) | case (ty(s), ty(t)) ~ (Z, X) | (X, Z) | case (ety0, ety) ~ (N, H) : scalar *= sqrt2^(-1)',
        'if s != t | if edge_type_opt(s, t) ~ Some(ety0) | case (ty(s), ty(t)) ~ (Z, X) | (X, Z) | case (ety0, ety) ~ (N, H) : set_edge_type(s, t, H)',
        'if s != t | if edge_type_opt(s, t) ~ Some(ety0) | case (ty(s), ty(t)) ~ (Z, X) | (X, Z) | case (ety0, ety) ~ (N, N) : remove_edge(s, t)',
        'if s != t | if edge_type_opt(s, t) ~ Some(ety0) | case (ty(s), ty(t)) ~ (Z, X) | (X, Z) | case (ety0, ety) ~ (N, N) : scalar *= sqrt2^(-2)',
        'if s != t | if edge_type_opt(s, t) ~ Some(ety0) | case (ty(s), ty(t)) ~ (Z, X) | (X, Z) | case (ety0, ety) ~ (Wio, _) | (_, Wio) : panic',
        'if s != t | if edge_type_opt(s, t) ~ Some(ety0) | case (ty(s), ty(t)) ~ (Z, Z) | (X, X) | case (ety0, ety) ~ (H, H) : remove_edge(s, t)',
        'if s != t | if edge_type_opt(s, t) ~ Some(ety0) | case (ty(s), ty(t)) ~ (Z, Z) | (X, X) | case (ety0, ety) ~ (H, H) : scalar *= sqrt2^(-2)',
        'if s != t | if edge_type_opt(s, t) ~ Some(ety0) | case (ty(s), ty(t)) ~ (Z, Z) | (X, X) | case (ety0, ety) ~ (H, N) : add_to_phase(s, 1)',
        'if s != t | if edge_type_opt(s, t) ~ Some(ety0) | case (ty(s), ty(t)) ~ (Z, Z) | (X, X) | case (ety0, ety) ~ (H, N) : scalar *= sqrt2^(-1)',
        'if s != t | if edge_type_opt(s, t) ~ Some(ety0) | case (ty(s), ty(t)) ~ (Z, Z) | (X, X) | case (ety0, ety) ~ (H, N) : set_edge_type(s, t, N)',
        'if s != t | if edge_type_opt(s, t) ~ Some(ety0) | case (ty(s), ty(t)) ~ (Z, Z) | (X, X) | case (ety0, ety) ~ (N, H) : add_to_phase(s, 1)',
        'if s != t | if edge_type_opt(s, t) ~ Some(ety0) | case (ty(s), ty(t)) ~ (Z, Z) | (X, X) | case (ety0, ety) ~ (N, H) : scalar *= sqrt2^(-1)',
        'if s != t | if edge_type_opt(s, t) ~ Some(ety0) | case (ty(s), ty(t)) ~ (Z, Z) | (X, X) | case (ety0, ety) ~ (Wio, _) | (_, Wio) : panic',
        'if s != t | if edge_type_opt(s, t) ~ Some(ety0) | case (ty(s), ty(t)) ~ _ : panic',
        'if s != t | if not edge_type_opt(s, t) ~ Some(ety0) : add_edge_with_type(s, t, ety)',
        'if s == t | if (X == ty(s) or Z == ty(s)) | if H == ety : add_to_phase(s, 1)',
        'if s == t | if (X == ty(s) or Z == ty(s)) | if H == ety : scalar *= sqrt2^(-1)',
        'if s == t | if not (X == ty(s) or Z == ty(s)) : panic',
    ],
}


# C11 — composition, adjoint, basis plugging (DESIGN 5/C11 D2-D5): sqrt2^-1 per plugged element (count of non-SKIP entries in range),
# adjoint = negate every phase, exchange inputs/outputs (old values), conjugate the scalar; plug = append, merge seam edge types, smart insertion,
# remove BOTH boundary vertices of every seam, outputs replaced by the other graph's outputs through the vertex map; arity mismatch panics.
C11_SCHEMAS = {
    'graph::GraphLike::plug_vertex': [
        'if SKIP != b : set_phase(v, b.phase)',
        'if SKIP != b : set_vertex_type(v, Z)',
        'if SKIP != b | if b.is_z : toggle_edge_type(first(N(v)), v)',
    ],
    'graph::GraphLike::plug_input': [
        'inputs.remove(i)',
        'plug_vertex(inputs[i], b)',
        'scalar *= sqrt2^(-1)',
    ],
    'graph::GraphLike::plug_output': [
        'outputs.remove(i)',
        'plug_vertex(outputs[i], b)',
        'scalar *= sqrt2^(-1)',
    ],
    'graph::GraphLike::plug_inputs': [
        'each (i, v) in enumerate inputs | if (SKIP != plug[i] and i < |plug|) : plug_vertex(v, plug[i])',
        'scalar *= sqrt2^(-count[each (i, v) in enumerate inputs | if (SKIP != plug[i] and i < |plug|)])',
        'set_inputs(vec{each (i, v) in enumerate inputs | if not (SKIP != plug[i] and i < |plug|) : v})',
    ],
    'graph::GraphLike::plug_outputs': [
        'each (i, v) in enumerate outputs | if (SKIP != plug[i] and i < |plug|) : plug_vertex(v, plug[i])',
        'scalar *= sqrt2^(-count[each (i, v) in enumerate outputs | if (SKIP != plug[i] and i < |plug|)])',
        'set_outputs(vec{each (i, v) in enumerate outputs | if not (SKIP != plug[i] and i < |plug|) : v})',
    ],
    'graph::GraphLike::adjoint': [
        'each v in V(g) : set_phase(v, -phase(v))',
        'scalar = conj(scalar)',
        'set_inputs(outputs)',
        'set_outputs(inputs)',
    ],
    'graph::GraphLike::plug': [
        'append_graph(other)',
        "for k in 0..|outputs| : add_edge_smart(first(inc'(outputs[k])).v, vmap[first(other.inc(other.inputs[k])).v], merge(first(inc'(outputs[k])).et,first(other.inc(other.inputs[k])).et))",
        'for k in 0..|outputs| : remove_vertex(outputs[k])',
        'for k in 0..|outputs| : remove_vertex(vmap[other.inputs[k]])',
        'if |other.inputs| != |outputs| : panic',
        'set_outputs(map[x -> vmap[x]] other.outputs)',
    ],
    'graph::GraphLike::to_adjoint': [
        'adjoint()',
    ],
    'graph::GraphLike::append_graph': [
        'each (v0, v1, et) in other.edges : add_edge_with_type(vmap[v0], vmap[v1], et)',
        'each v in other.vertices : fresh#1 = add_vertex(other.vertex_data(v))',
        'scalar *= other.scalar()',
    ],
    'graph::GraphLike::x_to_z': [
        'each v in V(g) | if X == ty(v) : set_vertex_type(v, Z)',
        'each v in V(g) | if X == ty(v) | each w in N(v) : toggle_edge_type(v, w)',
    ],
}


# C05 — structural parts of the stabiliser decompositions (the Z[omega] coefficients of the replace_* terms are NOT referenced here):
# pi-normalisation of a cat = pi-copy through verts[1] (its other neighbours get pi, the centre goes to 0, scalar e(phase)); odd cats are padded with an
# identity pair; spider cutting: sqrt2^-k, with phase: e(alpha) and pi on every neighbour; reverse pivot: sqrt2^(-(x-1)(y-1)).
C05_SCHEMAS = {
    'decompose::apply_cat_decomp': [
        'if (3 == |verts| - 1 or 5 == |verts| - 1) : add_edge_with_type(fresh#1, fresh#2, H)',
        'if (3 == |verts| - 1 or 5 == |verts| - 1) : add_edge_with_type(fresh#2, verts[0], H)',
        'if (3 == |verts| - 1 or 5 == |verts| - 1) : fresh#1 = add_vertex(Z)',
        'if (3 == |verts| - 1 or 5 == |verts| - 1) : fresh#2 = add_vertex(Z)',
        'if 6 == [if (3 == |verts| - 1 or 5 == |verts| - 1)] + |verts| - 1 : call replace_cat6_0(verts)',
        'if 6 == [if (3 == |verts| - 1 or 5 == |verts| - 1)] + |verts| - 1 : call replace_cat6_1(verts)',
        'if 6 == [if (3 == |verts| - 1 or 5 == |verts| - 1)] + |verts| - 1 : call replace_cat6_2(verts)',
        'if not 6 == [if (3 == |verts| - 1 or 5 == |verts| - 1)] + |verts| - 1 | if 4 == [if (3 == |verts| - 1 or 5 == |verts| - 1)] + |verts| - 1 : call replace_cat4_0(verts)',
        'if not 6 == [if (3 == |verts| - 1 or 5 == |verts| - 1)] + |verts| - 1 | if 4 == [if (3 == |verts| - 1 or 5 == |verts| - 1)] + |verts| - 1 : call replace_cat4_1(verts)',
        'if not 6 == [if (3 == |verts| - 1 or 5 == |verts| - 1)] + |verts| - 1 | if not 4 == [if (3 == |verts| - 1 or 5 == |verts| - 1)] + |verts| - 1 : panic',
        'if phase(verts[0]).is_one : scalar *= e(phase(verts[1]))',
        'if phase(verts[0]).is_one : set_phase(verts[0], 0)',
        'if phase(verts[0]).is_one : set_phase(verts[1], -phase(verts[1]))',
        'if phase(verts[0]).is_one | each v in filter[verts[0] != x] N(verts[1]) : add_to_phase(v, 1)',
    ],
    'decompose::cut_spider': [
        'if with_phase : scalar *= e(phase(verts[0]))',
        'if with_phase | each n in N(verts[0]) : add_to_phase(n, 1)',
        'remove_vertex(verts[0])',
        'scalar *= sqrt2^(-|N(verts[0])|)',
    ],
    'decompose::reverse_pivot': [
        'add_edge_smart(fresh#1, fresh#2, H)',
        'each n0 in vs0 : add_edge_smart(fresh#1, n0, H)',
        'each n0 in vs0 | each n1 in vs1 : remove_edge(n0, n1)',
        'each n1 in vs1 : add_edge_smart(fresh#2, n1, H)',
        'fresh#1 = add_vertex(Z)',
        'fresh#2 = add_vertex(Z)',
        'scalar *= sqrt2^(-|vs0|*|vs1| + |vs0| + |vs1| - 1)',
    ],
    'decompose::apply_spider_cutting_decomp': [
        'call cut_spider(verts, false)',
        'call cut_spider(verts, true)',
    ],
}
