"""Reference gate semantics (DESIGN Appendix A.2) — trusted base, standard gate definitions.

A unitary kind is (arity, H-set, diagonal phase): Hadamards on the positions in `hset` around a
diagonal gate that puts e^{i*pi*phase} on the all-ones basis state of its qubits
(`phase == 'param'`: the gate's own phase parameter).  HAD is the Hadamard itself, SWAP a wire
permutation, ParityPhase the phase on odd parity of any number of qubits.
"""
from fractions import Fraction as Fr

GTYPE = 'gate::GType'

#  kind: arity, hset, phase, qasm name, printed with a parameter, class
GATES = {
    'ZPhase':       dict(arity=1, hset=(), phase='param', qasm='rz', param=True, cls='diag'),
    'Z':            dict(arity=1, hset=(), phase=Fr(1), qasm='z', param=False, cls='diag'),
    'S':            dict(arity=1, hset=(), phase=Fr(1, 2), qasm='s', param=False, cls='diag'),
    'T':            dict(arity=1, hset=(), phase=Fr(1, 4), qasm='t', param=False, cls='diag'),
    'Sdg':          dict(arity=1, hset=(), phase=Fr(-1, 2), qasm='sdg', param=False, cls='diag'),
    'Tdg':          dict(arity=1, hset=(), phase=Fr(-1, 4), qasm='tdg', param=False, cls='diag'),
    'XPhase':       dict(arity=1, hset=(0,), phase='param', qasm='rx', param=True, cls='diag'),
    'NOT':          dict(arity=1, hset=(0,), phase=Fr(1), qasm='x', param=False, cls='diag'),
    'HAD':          dict(arity=1, hset=None, phase=None, qasm='h', param=False, cls='had'),
    'CZ':           dict(arity=2, hset=(), phase=Fr(1), qasm='cz', param=False, cls='diag'),
    'CNOT':         dict(arity=2, hset=(1,), phase=Fr(1), qasm='cx', param=False, cls='diag'),
    'XCX':          dict(arity=2, hset=(0, 1), phase=Fr(1), qasm='xcx', param=False, cls='diag'),
    'CCZ':          dict(arity=3, hset=(), phase=Fr(1), qasm='ccz', param=False, cls='diag'),
    'TOFF':         dict(arity=3, hset=(2,), phase=Fr(1), qasm='ccx', param=False, cls='diag'),
    'SWAP':         dict(arity=2, hset=None, phase=None, qasm='swap', param=False, cls='perm'),
    'ParityPhase':  dict(arity=None, hset=None, phase='param', qasm='pp', param=False, cls='parity'),
    'InitAncilla':  dict(arity=1, hset=None, phase=None, qasm='init_anc', param=False, cls='state'),
    'PostSelect':   dict(arity=1, hset=None, phase=None, qasm='post_sel', param=False, cls='effect'),
    'Measure':      dict(arity=1, hset=None, phase=None, qasm='measure_d', param=False, cls='effect'),
    'MeasureReset': dict(arity=1, hset=None, phase=None, qasm='measure_r', param=False, cls='effect+state'),
    'UnknownGate':  dict(arity=None, hset=None, phase=None, qasm='UNKNOWN', param=False, cls='unknown'),
}

UNITARY = [k for k, g in GATES.items() if g['cls'] in ('diag', 'had', 'perm', 'parity')]
# the gate names of the QASM property (C14): rz rx x z s t sdg tdg h cx cz ccx ccz swap xcx + pyzx ancilla gates
QASM_SET = ['ZPhase', 'XPhase', 'NOT', 'Z', 'S', 'T', 'Sdg', 'Tdg', 'HAD', 'CNOT', 'CZ', 'TOFF', 'CCZ', 'SWAP', 'XCX',
            'InitAncilla', 'PostSelect']
BASIC = [k for k, g in GATES.items() if g['arity'] in (1, 2) and g['cls'] in ('diag', 'had')]
CLIFFORD_FIXED = ['NOT', 'Z', 'S', 'Sdg', 'CNOT', 'CZ', 'SWAP', 'HAD']   # always Clifford
EXTRACT_SET = ['HAD', 'ZPhase', 'CZ', 'CNOT', 'SWAP']                       # C03: gate set of extracted circuits


def norm_phase(p):
    """representative in (-1, 1]"""
    p = Fr(p) % 2
    if p > 1:
        p -= 2
    return p


def adjoint_ref(kind):
    """('negate-phase',) | ('retype', kind') | ('fixed',) for unitary kinds; None for the others"""
    g = GATES[kind]
    if g['cls'] in ('had', 'perm'):
        return ('fixed',)
    if g['cls'] == 'parity':
        return ('negate-phase',)
    if g['cls'] != 'diag':
        return None
    if g['phase'] == 'param':
        return ('negate-phase',)
    want = norm_phase(-g['phase'])
    if want == norm_phase(g['phase']):
        return ('fixed',)
    for k2, g2 in GATES.items():
        if g2['cls'] == 'diag' and g2['arity'] == g['arity'] and g2['hset'] == g['hset'] and g2['phase'] != 'param' and norm_phase(g2['phase']) == want:
            return ('retype', k2)
    return ('no-adjoint-kind',)
