"""Rule preconditions (DESIGN 5/C04-D1) — trusted base, from the ZX-calculus.

Each contract lists the conjuncts that are *necessary* for the rewrite to be sound or not to panic.
Strategy conjuncts (e.g. `is_boundary_pauli`, `deg > 0` for pi-copy) are deliberately absent.
A conjunct is a (name, predicate over the closed atom set of one accepting disjunct).

derivations (one line each):
  spider fusion     (f)  : fuses two spiders of one colour along a plain wire; v0 = v1 would delete the spider
  remove id         (id) : a phase-free, parameter-free arity-2 spider is a wire
  colour change     (h)  : defined for Z/X spiders only
  local comp             : needs a +-pi/2 Z spider whose legs are all Hadamard edges to Z spiders (graph-like neighbourhood)
  pivot                  : two Pauli Z spiders joined by a Hadamard edge, all legs Hadamard edges to Z spiders
  gen/boundary pivots    : as pivot after unfusing: legs may also go to boundaries; phases may be anything (they are unfused)
  boundary local comp    : v0 +-pi/2 with legs (Z,H) or boundary, v1 interior Pauli with legs (Z,H), joined by a Hadamard edge
  gadget fusion          : two phase-free, parameter-free Z hubs, legs Hadamard edges to Z spiders
  remove single          : an isolated Z/X spider is the scalar 1 + e^{i a}
  remove pair            : two degree-1 Z/X spiders joined by an edge are a scalar
  remove duplicate       : v1 Pauli (its parity is transferred by the rule), both Z, same (Z,H) neighbourhood, v0 != v1
"""
import os
import sys

sys.path.insert(0, os.path.dirname(os.path.dirname(os.path.abspath(__file__))))
from qxlib.rmatch import (Z, X, B, H, N, V, has, ty_in, ne, etype, ph, deg_eq, vars_empty, forall_inc, w_zh, w_zh_or_b, w_z)  # noqa: E402


def _pivot_side(v):
    return [('%s: ty=Z' % v, lambda f, v=v: ty_in(f, v, [Z])),
            ('%s: legs (Z,H) or B' % v, lambda f, v=v: forall_inc(f, v, w_zh_or_b))]


GEN_PIVOT = [('v0!=v1', lambda f: ne(f, 'v0', 'v1')), ('etype(v0,v1)=H', lambda f: etype(f, 'v0', 'v1', H))] + _pivot_side('v0') + _pivot_side('v1')

def _pi_copy_leg(fs):
    """one surviving disjunct of the per-neighbour condition of pi-copy:
    (leg is not a plain edge, or the neighbour has the opposite colour) and (leg is not a Hadamard edge, or the neighbour has the same colour)"""
    from qxlib.rmatch import W
    a = b = False
    for (pol, atom) in fs:
        if atom[0] != 'cmp' or atom[1] != 'Eq':
            continue
        x, y = atom[2], atom[3]
        for l, r in ((x, y), (y, x)):
            if l[0] == 'etype' and W in l[1:3] and V('v') in l[1:3]:
                if not pol and r == N:
                    a = True
                if not pol and r == H:
                    b = True
            if l == ('ty', W):
                if pol and r[0] == 'derived':
                    a = True          # neighbour colour equals the derived opposite colour
                if pol and r == ('ty', V('v')):
                    b = True          # neighbour colour equals the spider's own colour
    return a and b


CONTRACTS = {
    'basic_rules::check_spider_fusion': [
        ('v0!=v1', lambda f: ne(f, 'v0', 'v1')),
        ('etype(v0,v1)=N', lambda f: etype(f, 'v0', 'v1', N)),
        ('same colour in {Z,X}', lambda f: (ty_in(f, 'v0', [Z]) and ty_in(f, 'v1', [Z])) or (ty_in(f, 'v0', [X]) and ty_in(f, 'v1', [X])))],
    'basic_rules::check_pi_copy': [
        ('ty in {Z,X}', lambda f: any(a[0] == 'cmp' and a[1] == 'Eq' and ('ty', V('v')) in a[2:4] and (Z in a[2:4] or X in a[2:4]) for (pol, a) in f if pol)),
        ('every leg: (plain and opposite colour) or (Hadamard and same colour)', lambda f: forall_inc(f, 'v', _pi_copy_leg))],
    'basic_rules::check_remove_id': [
        ('ty in {Z,X}', lambda f: ty_in(f, 'v', [Z, X])),
        ('phase zero', lambda f: ph(f, 'v', 'zero')),
        ('deg=2', lambda f: deg_eq(f, 'v', 2)),
        ('vars empty', lambda f: vars_empty(f, 'v'))],
    'basic_rules::check_color_change': [('ty in {Z,X}', lambda f: ty_in(f, 'v', [Z, X]))],
    'basic_rules::check_local_comp': [
        ('ty=Z', lambda f: ty_in(f, 'v', [Z])),
        ('proper Clifford', lambda f: ph(f, 'v', 'proper_clifford')),
        ('all legs (Z,H)', lambda f: forall_inc(f, 'v', w_zh))],
    'basic_rules::check_pivot': [('etype(v0,v1)=H', lambda f: etype(f, 'v0', 'v1', H))] + [
        ('%s: %s' % (v, n), p) for v in ('v0', 'v1') for n, p in [
            ('ty=Z', lambda f, v=v: ty_in(f, v, [Z])),
            ('Pauli', lambda f, v=v: ph(f, v, 'pauli')),
            ('all legs (Z,H)', lambda f, v=v: forall_inc(f, v, w_zh))]],
    'basic_rules::check_gen_pivot': GEN_PIVOT,
    'basic_rules::check_gen_pivot_reduce': GEN_PIVOT,
    'basic_rules::check_boundary_pivot': GEN_PIVOT,
    'basic_rules::check_h_boundary_pivot': GEN_PIVOT,
    'basic_rules::check_boundary_local_comp': [
        ('v0!=v1', lambda f: ne(f, 'v0', 'v1')),
        ('etype(v0,v1)=H', lambda f: etype(f, 'v0', 'v1', H)),
        ('v0: ty=Z', lambda f: ty_in(f, 'v0', [Z])),
        ('v0: proper Clifford', lambda f: ph(f, 'v0', 'proper_clifford')),
        ('v0: legs (Z,H) or B', lambda f: forall_inc(f, 'v0', w_zh_or_b)),
        ('v1: ty=Z', lambda f: ty_in(f, 'v1', [Z])),
        ('v1: Pauli', lambda f: ph(f, 'v1', 'pauli')),
        ('v1: all legs (Z,H)', lambda f: forall_inc(f, 'v1', w_zh))],
    'basic_rules::check_gadget_fusion': [
        ('v0!=v1', lambda f: ne(f, 'v0', 'v1')),
        ('v0: ty=Z', lambda f: ty_in(f, 'v0', [Z])),
        ('v1: ty=Z', lambda f: ty_in(f, 'v1', [Z])),
        ('phases zero', lambda f: ph(f, 'v0', 'zero') and ph(f, 'v1', 'zero')),
        ('vars empty', lambda f: vars_empty(f, 'v0') and vars_empty(f, 'v1')),
        ('v0: all legs (Z,H)', lambda f: forall_inc(f, 'v0', w_zh)),
        ('v1: all legs (Z,H)', lambda f: forall_inc(f, 'v1', w_zh))],
    'basic_rules::check_remove_single': [
        ('deg=0', lambda f: deg_eq(f, 'v', 0)),
        ('ty in {Z,X}', lambda f: ty_in(f, 'v', [Z, X]))],
    'basic_rules::check_remove_pair': [
        ('adjacent', lambda f: has(f, ('adj', V('v0'), V('v1'))) or has(f, ('adj', V('v1'), V('v0')))),
        ('deg=1 both', lambda f: deg_eq(f, 'v0', 1) and deg_eq(f, 'v1', 1)),
        ('ty in {Z,X} both', lambda f: ty_in(f, 'v0', [Z, X]) and ty_in(f, 'v1', [Z, X]))],
    'basic_rules::check_remove_duplicate': [
        ('v0!=v1', lambda f: ne(f, 'v0', 'v1')),
        ('both ty=Z', lambda f: ty_in(f, 'v0', [Z]) and ty_in(f, 'v1', [Z])),
        ('v1: Pauli', lambda f: ph(f, 'v1', 'pauli')),
        ('v0: all legs (Z,H)', lambda f: forall_inc(f, 'v0', w_zh)),
        ('same incidence (neighbours with edge types)', lambda f: _same_incidence(f))],
}


def _same_incidence(fs):
    """equality of the two sorted incident-edge vectors (neighbour AND edge type)"""
    for (pol, a) in fs:
        if pol and a[0] == 'cmp' and a[1] == 'Eq':
            l, r = a[2], a[3]
            if {l, r} == {('inc', V('v0')), ('inc', V('v1'))}:
                return True
    return False


# matcher -> unchecked rule it guards (checked wrappers generated by checked_rule1!/checked_rule2!)
WRAPPERS = {
    'basic_rules::spider_fusion': ('basic_rules::check_spider_fusion', 'basic_rules::spider_fusion_unchecked'),
    'basic_rules::pi_copy': ('basic_rules::check_pi_copy', 'basic_rules::pi_copy_unchecked'),
    'basic_rules::remove_id': ('basic_rules::check_remove_id', 'basic_rules::remove_id_unchecked'),
    'basic_rules::color_change': ('basic_rules::check_color_change', 'basic_rules::color_change_unchecked'),
    'basic_rules::local_comp': ('basic_rules::check_local_comp', 'basic_rules::local_comp_unchecked'),
    'basic_rules::pivot': ('basic_rules::check_pivot', 'basic_rules::pivot_unchecked'),
    'basic_rules::gen_pivot': ('basic_rules::check_gen_pivot', 'basic_rules::gen_pivot_unchecked'),
    'basic_rules::boundary_pivot': ('basic_rules::check_boundary_pivot', 'basic_rules::gen_pivot_unchecked'),
    'basic_rules::h_boundary_pivot': ('basic_rules::check_h_boundary_pivot', 'basic_rules::gen_pivot_unchecked'),
    'basic_rules::boundary_local_comp': ('basic_rules::check_boundary_local_comp', 'basic_rules::boundary_local_comp_unchecked'),
    'basic_rules::gadget_fusion': ('basic_rules::check_gadget_fusion', 'basic_rules::gadget_fusion_unchecked'),
    'basic_rules::remove_single': ('basic_rules::check_remove_single', 'basic_rules::remove_single_unchecked'),
    'basic_rules::remove_pair': ('basic_rules::check_remove_pair', 'basic_rules::remove_pair_unchecked'),
    'basic_rules::remove_duplicate': ('basic_rules::check_remove_duplicate', 'basic_rules::remove_duplicate_unchecked'),
}

# unchecked rule -> contract (the contract of the matcher that is its canonical guard)
RULE_CONTRACT = {
    'basic_rules::spider_fusion_unchecked': 'basic_rules::check_spider_fusion',
    'basic_rules::pi_copy_unchecked': 'basic_rules::check_pi_copy',
    'basic_rules::remove_id_unchecked': 'basic_rules::check_remove_id',
    'basic_rules::color_change_unchecked': 'basic_rules::check_color_change',
    'basic_rules::local_comp_unchecked': 'basic_rules::check_local_comp',
    'basic_rules::pivot_unchecked': 'basic_rules::check_pivot',
    'basic_rules::gen_pivot_unchecked': 'basic_rules::check_gen_pivot',
    'basic_rules::boundary_local_comp_unchecked': 'basic_rules::check_boundary_local_comp',
    'basic_rules::gadget_fusion_unchecked': 'basic_rules::check_gadget_fusion',
    'basic_rules::remove_single_unchecked': 'basic_rules::check_remove_single',
    'basic_rules::remove_pair_unchecked': 'basic_rules::check_remove_pair',
    'basic_rules::remove_duplicate_unchecked': 'basic_rules::check_remove_duplicate',
}
