"""Small-scope evaluation of tensor.rs (C08, DESIGN 10.9).

`tensor.rs` is interpreted from its HIR (minirust): the graph evaluator `<G as ToTensor>::to_tensor` (vertex-by-vertex contraction with its
seen-degree bookkeeping and index positions), the circuit evaluator, the `QubitOps` primitives (ident / delta / cphase / hadamard, delta_at /
cphase_at / hadamard_at, plug_n_qubits) and the comparison helpers.  The external crate `ndarray` is a *host model* (`HArr`: a shape and the
elements in logical row-major order; broadcasting, stacking, axis sums, axis swaps, two-way mutable slices and `Zip` as documented by ndarray
0.16), the number type `A` is instantiated with an exact host number (Q(e^{i pi/4}), the model of Scalar4 that zxsem uses) and, for the
floating-point clause, with Python complex numbers.  The graph back ends, phase.rs, circuit.rs and gate.rs are interpreted.  References: the
brute-force contraction `zxsem.tensor` (which shares no code with tensor.rs) for diagrams, the gate-matrix semantics `zxsem.circuit_map`
(refs/gates.py) for circuits, and direct definitions for the primitives.  Nothing of the analysed crate is compiled or run; every family is
enumerated, not sampled."""
import cmath
import itertools
import math
from fractions import Fraction as Fr

from . import minirust, zxsem, ratsem
from .zxsem import Qw, Q0, Q1, HScalar, D, VEC, HASH

INLINE = zxsem.INLINE + ('circuit::', '<circuit::', 'gate::', '<gate::', 'util::', 'tensor::', '<ndarray::ArrayBase', '<G as tensor::')


# ----------------------------------------------------------------------------------------------------------------- number types
class Exact:
    """A = Scalar4, modelled exactly"""
    name = 'exact'

    @staticmethod
    def one():
        return HScalar(Q1)

    @staticmethod
    def zero():
        return HScalar(Q0)

    @staticmethod
    def from_phase(p):
        return HScalar(zxsem.expi(zxsem.phase_value(p)))

    @staticmethod
    def one_over_sqrt2():
        return HScalar(zxsem.INV_SQRT2)

    @staticmethod
    def sqrt2():
        return HScalar(zxsem.SQRT2)

    @staticmethod
    def sqrt2_pow(k):
        return HScalar(zxsem.sqrt2_pow(k))

    @staticmethod
    def from_scalar(s):
        if not isinstance(s, HScalar):
            raise minirust.NoEval('diagram scalar %r' % (s,))
        return HScalar(s.v)

    @staticmethod
    def value(x):
        if isinstance(x, HScalar):
            return x.v
        raise minirust.NoEval('tensor element %r' % (x,))

    @staticmethod
    def same(x, q):
        return x == q

    @staticmethod
    def ref(q):
        return q


class HC(minirust.Obj):
    """host model of num::Complex<f64>"""

    def __init__(self, z):
        self.z = complex(z)
        minirust.Obj.__init__(self, 'complex', {
            'is_zero': lambda a: self.z == 0, 'is_one': lambda a: self.z == 1, 'clone': lambda a: HC(self.z), 'conj': lambda a: HC(self.z.conjugate()),
            'powf': self._powf, 'powi': self._powi, 'norm': lambda a: abs(self.z), 'norm_sqr': lambda a: abs(self.z) ** 2,
        }, strict=True)

    def _powf(self, a):
        # num-complex: zero exponent -> one; otherwise through the polar form
        x = float(a[0])
        if x == 0.0:
            return HC(1.0)
        r, th = abs(self.z), cmath.phase(self.z)
        return HC(cmath.rect(r ** x, th * x))

    def _powi(self, a):
        n = a[0]
        if not isinstance(n, int) or isinstance(n, bool):
            raise minirust.NoEval('powi(%r)' % (n,))
        return HC(self.z ** n) if n >= 0 else HC((1 / self.z) ** (-n))

    def mr_clone(self):
        return HC(self.z)

    def _o(self, o):
        if isinstance(o, minirust.Cell):
            o = o.get()
        if isinstance(o, HC):
            return o.z
        if isinstance(o, float):
            return o
        raise minirust.NoEval('complex with %r' % (o,))

    def __mul__(self, o):
        return HC(self.z * self._o(o))

    def __add__(self, o):
        return HC(self.z + self._o(o))

    def __sub__(self, o):
        return HC(self.z - self._o(o))

    def __neg__(self):
        return HC(-self.z)

    def __eq__(self, o):
        return isinstance(o, HC) and o.z == self.z

    def __ne__(self, o):
        return not self == o
    __hash__ = None

    def __repr__(self):
        return 'C(%r)' % (self.z,)


def qw_complex(q):
    w = cmath.exp(1j * math.pi / 4)
    return sum(float(c) * w ** i for i, c in enumerate(q.c))


class Float:
    """A = Complex<f64>; from_phase / sqrt2_pow are the impls of tensor.rs, interpreted (see `interp`)"""
    name = 'float'
    TOL = 1e-9

    @staticmethod
    def one():
        return HC(1.0)

    @staticmethod
    def zero():
        return HC(0.0)

    @staticmethod
    def from_scalar(s):
        if not isinstance(s, HScalar):
            raise minirust.NoEval('diagram scalar %r' % (s,))
        return HC(qw_complex(s.v))

    @staticmethod
    def value(x):
        if isinstance(x, HC):
            return x.z
        raise minirust.NoEval('tensor element %r' % (x,))

    @staticmethod
    def same(x, q):
        return abs(x - q) <= Float.TOL * max(1.0, abs(q))

    @staticmethod
    def ref(q):
        return qw_complex(q)


# ----------------------------------------------------------------------------------------------------------------- ndarray host
def _cp(x):
    return x.mr_clone() if hasattr(x, 'mr_clone') else x


def _strides(shape):
    st, acc = [], 1
    for d in reversed(shape):
        st.append(acc)
        acc *= d
    return list(reversed(st))


def _indices(shape):
    return list(itertools.product(*[range(d) for d in shape]))


def _bcast_shape(s1, s2):
    """co-broadcast of two shapes (numpy rules) or None"""
    n = max(len(s1), len(s2))
    a, b = (1,) * (n - len(s1)) + tuple(s1), (1,) * (n - len(s2)) + tuple(s2)
    out = []
    for x, y in zip(a, b):
        if x == y or y == 1:
            out.append(x)
        elif x == 1:
            out.append(y)
        else:
            return None
    return tuple(out)


def _axis(a):
    if isinstance(a, tuple) and len(a) == 3 and a[0] == 'ctor' and str(a[1]).endswith('Axis') and len(a[2]) == 1 and isinstance(a[2][0], int):
        return a[2][0]
    raise minirust.NoEval('axis %r' % (a,))


def _shape_arg(s):
    if isinstance(s, minirust.Cell):
        s = s.get()
    if isinstance(s, (list, tuple)) and all(isinstance(x, int) and not isinstance(x, bool) and x >= 0 for x in s):
        return tuple(s)
    if isinstance(s, int) and not isinstance(s, bool):
        return (s,)
    raise minirust.NoEval('shape %r' % (s,))


class HArr(minirust.Obj):
    """ndarray::ArrayBase<_, IxDyn> as a value: shape + elements in logical (row-major) order.  `contig` is false after an axis swap: reshaping a
    non-contiguous array is an error in ndarray (into_shape_with_order), everything else is defined on the logical array."""

    def __init__(self, shape, data, contig=True):
        self.shape, self.data, self.contig = tuple(shape), list(data), contig
        n = 1
        for d in self.shape:
            n *= d
        if n != len(self.data):
            raise minirust.NoEval('array of shape %s with %d elements' % (self.shape, len(self.data)))
        minirust.Obj.__init__(self, 'ndarray', {
            'ndim': lambda a: len(self.shape), 'shape': lambda a: list(self.shape), 'dim': lambda a: list(self.shape), 'raw_dim': lambda a: list(self.shape),
            'len': lambda a: len(self.data), 'is_empty': lambda a: not self.data, 'iter': lambda a: list(self.data),
            'clone': lambda a: self.mr_clone(), 'to_owned': lambda a: self.mr_clone(), 'view': lambda a: self, 'into_shared': lambda a: self, 'into_dyn': lambda a: self,
            'into_owned': lambda a: self, 'to_shared': lambda a: self.mr_clone(), 'view_mut': lambda a: self,
            'into_shape_with_order': self._reshape, 'broadcast': self._broadcast, 'sum_axis': self._sum_axis, 'swap_axes': self._swap_axes,
            'multi_slice_mut': self._multi_slice, 'sum': lambda a: self._sum(), 'is_standard_layout': lambda a: self.contig,
        }, strict=True)

    def mr_clone(self):
        return HArr(self.shape, [_cp(x) for x in self.data], self.contig)

    def mr_assign(self, o):
        if not isinstance(o, HArr):
            raise minirust.NoEval('array assigned %r' % (o,))
        if getattr(o, 'from_op', False) and o.shape != self.shape:
            # `*self *= &rhs` broadcasts only the right operand (ndarray panics otherwise); a plain `*self = a * b` may change the shape: not told apart here
            raise minirust.NoEval('an array of shape %s assigned through a reference to one of shape %s' % (list(o.shape), list(self.shape)))
        self.shape, self.data, self.contig = o.shape, [_cp(x) for x in o.data], o.contig

    def at(self, ix):
        st = _strides(self.shape)
        return self.data[sum(i * s for i, s in zip(ix, st))]

    def getitem(self, i):
        if isinstance(i, int) and len(self.shape) == 1:
            i = (i,)
        if isinstance(i, (list, tuple)) and len(i) == len(self.shape) and all(isinstance(x, int) and 0 <= x < d for x, d in zip(i, self.shape)):
            return self.at(i)
        raise minirust.Panics('ndarray: index %r out of bounds for shape %s' % (i, list(self.shape)))

    def _sum(self):
        if not self.data:
            raise minirust.NoEval('sum of an empty array')
        t = self.data[0]
        for x in self.data[1:]:
            t = t + x
        return t

    def _reshape(self, a):
        sh = _shape_arg(a[0])
        n = 1
        for d in sh:
            n *= d
        if n != len(self.data):
            return ('Err', 'ShapeError/IncompatibleShape')
        if not self.contig:
            return ('Err', 'ShapeError/IncompatibleLayout')
        return ('Ok', HArr(sh, self.data))

    def broadcast_to(self, sh):
        sh = tuple(sh)
        if len(sh) < len(self.shape):
            return None
        own = (1,) * (len(sh) - len(self.shape)) + self.shape
        for x, y in zip(own, sh):
            if x != y and x != 1:
                return None
        st = _strides(own)
        out = []
        for ix in _indices(sh):
            out.append(self.data[sum((0 if d == 1 else i) * s for i, s, d in zip(ix, st, own))])
        return HArr(sh, out, self.contig)

    def _broadcast(self, a):
        r = self.broadcast_to(_shape_arg(a[0]))
        return minirust.NONE if r is None else minirust.some(r)

    def _sum_axis(self, a):
        ax = _axis(a[0])
        if not 0 <= ax < len(self.shape):
            raise minirust.Panics('ndarray: axis %d out of bounds for an array of %d dimensions' % (ax, len(self.shape)))
        sh = self.shape[:ax] + self.shape[ax + 1:]
        st = _strides(self.shape)
        out = []
        for ix in _indices(sh):
            base = sum(i * s for i, s in zip(ix[:ax], st[:ax])) + sum(i * s for i, s in zip(ix[ax:], st[ax + 1:]))
            if self.shape[ax] == 0:
                raise minirust.NoEval('sum over an empty axis')
            t = self.data[base]
            for k in range(1, self.shape[ax]):
                t = t + self.data[base + k * st[ax]]
            out.append(t)
        return HArr(sh, out)

    def _swap_axes(self, a):
        i, j = a
        n = len(self.shape)
        if not (isinstance(i, int) and isinstance(j, int) and 0 <= i < n and 0 <= j < n):
            raise minirust.Panics('ndarray: swap_axes(%r, %r) on an array of %d dimensions' % (i, j, n))
        if i == j:
            return ()
        sh = list(self.shape)
        sh[i], sh[j] = sh[j], sh[i]
        st = _strides(self.shape)
        out = []
        for ix in _indices(sh):
            src = list(ix)
            src[i], src[j] = src[j], src[i]
            out.append(self.data[sum(x * s for x, s in zip(src, st))])
        self.shape, self.data, self.contig = tuple(sh), out, False
        return ()

    def _slice(self, info):
        if isinstance(info, minirust.Cell):
            info = info.get()
        if not (isinstance(info, list) and len(info) == len(self.shape)):
            raise minirust.Panics('ndarray: slice info %r for an array of %d dimensions' % (info, len(self.shape)))
        st = _strides(self.shape)
        base, axes = 0, []
        for k, (el, d) in enumerate(zip(info, self.shape)):
            if el == ('all',):
                axes.append(k)
            elif isinstance(el, tuple) and el[0] == 'idx':
                i = el[1] + d if el[1] < 0 else el[1]
                if not 0 <= i < d:
                    raise minirust.Panics('ndarray: slice index %d out of bounds for axis %d of length %d' % (el[1], k, d))
                base += i * st[k]
            else:
                raise minirust.NoEval('slice element %r' % (el,))
        sh = tuple(self.shape[k] for k in axes)
        idx = [base + sum(i * st[k] for i, k in zip(ix, axes)) for ix in _indices(sh)]
        return HView(self, sh, idx)

    def _multi_slice(self, a):
        infos = a[0]
        if not (isinstance(infos, tuple) and len(infos) == 2):
            raise minirust.NoEval('multi_slice_mut(%r)' % (infos,))
        v0, v1 = self._slice(infos[0]), self._slice(infos[1])
        if set(v0.idx) & set(v1.idx):
            raise minirust.Panics('ndarray: multi_slice_mut with overlapping slices')
        return (v0, v1)

    def _elementwise(self, o, f):
        if isinstance(o, minirust.Cell):
            o = o.get()
        if isinstance(o, HView):
            o = o.to_arr()
        if isinstance(o, HArr):
            sh = _bcast_shape(self.shape, o.shape)
            if sh is None:
                raise minirust.Panics('ndarray: could not broadcast array from shape: %s to: %s' % (list(o.shape), list(self.shape)))
            a, b = self.broadcast_to(sh), o.broadcast_to(sh)
            r = HArr(sh, [f(x, y) for x, y in zip(a.data, b.data)])
            r.from_op = True
            return r
        return HArr(self.shape, [f(x, o) for x in self.data], self.contig)

    def __mul__(self, o):
        return self._elementwise(o, lambda x, y: x * y)

    def __add__(self, o):
        return self._elementwise(o, lambda x, y: x + y)

    def __sub__(self, o):
        return self._elementwise(o, lambda x, y: x - y)

    def __eq__(self, o):
        # ndarray's PartialEq: same shape and the same elements at every index (memory layout does not take part)
        return isinstance(o, HArr) and o.shape == self.shape and all(x == y for x, y in zip(self.data, o.data))

    def __ne__(self, o):
        return not self == o
    __hash__ = None

    def __repr__(self):
        return 'Arr%s%s' % (list(self.shape), self.data)


class HView(minirust.Obj):
    """a mutable view into a parent array: the flat positions of its elements in the parent's data"""

    def __init__(self, parent, shape, idx):
        self.parent, self.shape, self.idx = parent, tuple(shape), list(idx)
        minirust.Obj.__init__(self, 'ndarray-view', {
            'ndim': lambda a: len(self.shape), 'shape': lambda a: list(self.shape), 'dim': lambda a: list(self.shape), 'len': lambda a: len(self.idx),
            'iter': lambda a: [self.parent.data[i] for i in self.idx], 'iter_mut': lambda a: [minirust.Cell(self.parent.data, i) for i in self.idx],
            'to_owned': lambda a: self.to_arr(), 'view': lambda a: self, 'view_mut': lambda a: self, 'reborrow': lambda a: self,
        }, strict=True)

    def to_arr(self):
        return HArr(self.shape, [_cp(self.parent.data[i]) for i in self.idx])


class HZip(minirust.Obj):
    def __init__(self, parts):
        self.parts = list(parts)
        minirust.Obj.__init__(self, 'ndarray-zip', {'and': self._and, 'par_for_each': self._for_each, 'for_each': self._for_each, 'par_apply': self._for_each, 'apply': self._for_each}, strict=True)

    def _and(self, a):
        p = a[0]
        if not isinstance(p, (HView, HArr)):
            raise minirust.NoEval('Zip::and(%r)' % (p,))
        if tuple(p.shape) != tuple(self.parts[0].shape):
            raise minirust.Panics('ndarray: Zip of producers of different shapes %s and %s' % (list(self.parts[0].shape), list(p.shape)))
        return HZip(self.parts + [p])

    def _cells(self, p):
        if isinstance(p, HView):
            return [minirust.Cell(p.parent.data, i) for i in p.idx]
        return [minirust.Cell(p.data, i) for i in range(len(p.data))]

    def _for_each(self, a):
        f = a[0]
        if not callable(f):
            raise minirust.NoEval('Zip::for_each(%r)' % (f,))
        for cs in zip(*[self._cells(p) for p in self.parts]):
            f(*cs)
        return ()


# ----------------------------------------------------------------------------------------------------------------- interpreter
def _impl_key(facts, trait, name, self_prefix=None):
    ks = [k for k in facts['fns'] if k.endswith(' as %s>::%s' % (trait, name)) or (' as %s<' % trait in k and k.endswith('>::' + name))]
    if self_prefix is not None:
        ks = [k for k in ks if k.startswith(self_prefix)]
    if len(ks) != 1:
        raise minirust.NoEval('impl of %s::%s: %d candidates' % (trait, name, len(ks)))
    return ks[0]


def interp(facts, num=Exact, fuel=3000000):
    it = zxsem.interp(facts, fuel)
    it.inline = lambda c: c.startswith(INLINE)
    base_hc, base_into = it.host_call, it.host_into

    def trait_fn(name):
        return _impl_key(facts, 'tensor::QubitOps', name)

    def float_impl(trait, name):
        ks = [k for k in facts['fns'] if k.startswith('tensor::<impl scalar_traits::%s for num::Complex<f64>>::%s' % (trait, name))]
        if len(ks) != 1:
            raise minirust.NoEval('no impl of %s::%s for Complex<f64> in tensor.rs' % (trait, name))
        return ks[0]

    def hc(c, e, args):
        t = (e.get('ty') or '').strip()
        last = c.rsplit('::', 1)[-1]
        if t == 'A':
            if c in ('num::One::one', 'num_traits::One::one') and not e['args']:
                return num.one()
            if c in ('num::Zero::zero', 'num_traits::Zero::zero') and not e['args']:
                return num.zero()
            if c.startswith('scalar_traits::FromPhase::') or c.startswith('scalar_traits::Sqrt2::'):
                if num is Exact:
                    a = args()
                    if last == 'from_phase' and len(a) == 1:
                        return Exact.from_phase(a[0])
                    if last == 'minus_one' and not a:
                        return HScalar(-Q1)
                    if last == 'one_over_sqrt2' and not a:
                        return Exact.one_over_sqrt2()
                    if last == 'sqrt2' and not a:
                        return Exact.sqrt2()
                    if last == 'sqrt2_pow' and len(a) == 1 and isinstance(a[0], int):
                        return Exact.sqrt2_pow(a[0])
                    raise minirust.NoEval('number constructor %s' % c)
                # the float number type: the impls of tensor.rs themselves; the provided methods of the traits through them
                a = args()
                if last in ('from_phase', 'minus_one'):
                    return it.local_call(float_impl('FromPhase', last), a)
                if last == 'sqrt2_pow':
                    return it.local_call(float_impl('Sqrt2', 'sqrt2_pow'), a)
                if last == 'sqrt2' and not a:
                    return it.local_call(float_impl('Sqrt2', 'sqrt2_pow'), [1])
                if last == 'one_over_sqrt2' and not a:
                    return it.local_call(float_impl('Sqrt2', 'sqrt2_pow'), [-1])
                raise minirust.NoEval('number constructor %s' % c)
            raise minirust.NoEval('call %s producing the number type' % c)
        if last == 'try_from' and t.startswith('std::result::Result<A,') and len(e['args']) == 1:
            a = args()[0]
            a = a.get() if isinstance(a, minirust.Cell) else a
            return ('Ok', num.from_scalar(a))
        if t == 'num::Complex<f64>':
            if c == 'num::Complex::<T>::new' and len(e['args']) == 2:
                re_, im_ = args()
                return HC(complex(float(re_), float(im_)))
            if c.startswith('scalar_traits::FromPhase::') and last in ('from_phase', 'minus_one'):
                return it.local_call(float_impl('FromPhase', last), args())
        if c == 'ndarray::stack' and len(e['args']) == 2:
            ax, parts = args()
            ax = _axis(ax)
            parts = [p.to_arr() if isinstance(p, HView) else p for p in parts]
            if not parts or not all(isinstance(p, HArr) for p in parts):
                raise minirust.NoEval('stack of %r' % (parts,))
            sh = parts[0].shape
            if any(p.shape != sh for p in parts):
                return ('Err', 'ShapeError/IncompatibleShape')
            if not 0 <= ax <= len(sh):
                return ('Err', 'ShapeError/OutOfBounds')
            nsh = sh[:ax] + (len(parts),) + sh[ax:]
            out = []
            for ix in _indices(nsh):
                out.append(_cp(parts[ix[ax]].at(ix[:ax] + ix[ax + 1:])))
            return ('Ok', HArr(nsh, out))
        if last == 'from_shape_fn' and 'ndarray::' in c and len(e['args']) == 2:
            sh, f = args()
            sh = _shape_arg(sh)
            return HArr(sh, [f(list(ix)) for ix in _indices(sh)])
        if last == 'from_shape_vec' and 'ndarray::' in c and len(e['args']) == 2:
            sh, v = args()
            sh = _shape_arg(sh)
            n = 1
            for d in sh:
                n *= d
            if not isinstance(v, list):
                raise minirust.NoEval('from_shape_vec(%r)' % (v,))
            return ('Ok', HArr(sh, [_cp(x) for x in v])) if n == len(v) else ('Err', 'ShapeError/OutOfBounds')
        if last == 'from_elem' and 'ndarray::' in c and len(e['args']) == 2:
            sh, x = args()
            sh = _shape_arg(sh)
            n = 1
            for d in sh:
                n *= d
            return HArr(sh, [_cp(x) for _ in range(n)])
        if c.endswith('convert::From::from') and len(e['args']) == 1 and t.startswith('ndarray::ArrayBase<ndarray::ViewRepr<'):
            a = args()[0]
            if isinstance(a, (HArr, HView)):
                return a
            raise minirust.NoEval('view of %r' % (a,))
        if c.endswith('convert::From::from') and len(e['args']) == 1 and t.startswith('ndarray::ArrayBase<ndarray::OwnedRepr<'):
            a = args()[0]            # array![[..], [..]]: a vector of rows
            if isinstance(a, list) and a and all(isinstance(r, list) and len(r) == len(a[0]) for r in a):
                return HArr((len(a), len(a[0])), [_cp(x) for r in a for x in r])
            if isinstance(a, list) and not any(isinstance(r, list) for r in a):
                return HArr((len(a),), [_cp(x) for x in a])
            raise minirust.NoEval('array from %r' % (a,))
        if c.endswith('convert::From::from') and t == 'ndarray::SliceInfoElem' and len(e['args']) == 1:
            a = args()[0]
            if isinstance(a, int) and not isinstance(a, bool):
                return ('idx', a)
            if a == ('const', 'std::ops::RangeFull') or (isinstance(a, dict) and str(a.get('__struct__', '')).endswith('RangeFull')):
                return ('all',)
            raise minirust.NoEval('slice element from %r' % (a,))
        if last == 'try_from' and 'ndarray::SliceInfo<' in t and len(e['args']) == 1:
            a = args()[0]
            if isinstance(a, list) and all(x == ('all',) or (isinstance(x, tuple) and x[0] == 'idx') for x in a):
                return ('Ok', a)
            raise minirust.NoEval('slice info from %r' % (a,))
        if c.startswith('ndarray::Zip::') and last == 'from' and len(e['args']) == 1:
            a = args()[0]
            if isinstance(a, (HView, HArr)):
                return HZip([a])
            raise minirust.NoEval('Zip::from(%r)' % (a,))
        if c.startswith('tensor::QubitOps::'):
            return it.local_call(trait_fn(last), args())
        if c.startswith('tensor::CompareTensors::'):
            return it.local_call(_impl_key(facts, 'tensor::CompareTensors', last), args())
        if c.startswith('ndarray::'):
            raise minirust.NoEval('ndarray function %s is not modelled' % c)
        return base_hc(c, e, args)
    it.host_call = hc

    def hm(callee, nm, recv, args):
        if callee.startswith('tensor::QubitOps::') and isinstance(recv, (HArr, HView)):
            return it.local_call(trait_fn(nm), [recv] + args())
        if callee == 'tensor::ToTensor::to_tensor' and not isinstance(recv, minirust.Obj):
            if isinstance(recv, dict) and recv.get('__struct__') in (VEC, HASH):
                it.self_ty.append(recv['__struct__'])
                try:
                    return it.local_call('<G as tensor::ToTensor>::to_tensor', [recv])
                finally:
                    it.self_ty.pop()
            if isinstance(recv, dict) and recv.get('__struct__') == 'circuit::Circuit':
                return it.local_call('<circuit::Circuit as tensor::ToTensor>::to_tensor', [recv])
            raise minirust.NoEval('to_tensor of %r' % (type(recv),))
        if isinstance(recv, float) and nm in ('powi', 'powf', 'sqrt') and callee.startswith('std::f64::'):
            a = args()
            return math.sqrt(recv) if nm == 'sqrt' else recv ** a[0]
        return NotImplemented
    it.host_method = hm
    it.host_into = base_into
    return it


# ----------------------------------------------------------------------------------------------------------------- evaluation of diagrams
def build_ordered(facts, ty, d, order):
    """like zxsem.build, with the vertices created in the given order (the contraction order of to_tensor follows the vertex numbering)"""
    be = zxsem.Backend(facts, ty)
    be.g['scalar'] = HScalar(d.scalar)
    m = {}
    for name in order:
        t, p, vs = d.v[name]
        vd = {'__struct__': 'graph::VData', 'ty': zxsem.vt(t), 'phase': zxsem.phase(p), 'vars': zxsem.par(vs), 'qubit': 0.0, 'row': 0.0}
        m[name] = be.call('add_vertex_with_data', vd)
    for k, t in sorted(d.e.items(), key=lambda z: sorted(map(str, z[0]))):
        a, b = sorted(k, key=str)
        be.call('add_edge_with_type', m[a], m[b], zxsem.et(t))
    be.call('set_inputs', [m[x] for x in d.inputs])
    be.call('set_outputs', [m[x] for x in d.outputs])
    return be, m


def graph_tensor(facts, ty, d, order, num=Exact):
    be, _m = build_ordered(facts, ty, d, order)
    it = interp(facts, num)
    it.self_ty.append(ty)
    before = zxsem.state_key(be)
    r = it.local_call('<G as tensor::ToTensor>::to_tensor', [be.g])
    if zxsem.state_key(be) != before:
        raise minirust.NoEval('to_tensor changed its argument')
    return r


def compare_with(arr, want, nb, num):
    """-> '' or the first difference; `want` maps index tuples to Qw (zero entries omitted)"""
    if not isinstance(arr, HArr):
        return 'the result is %r, not a tensor' % (arr,)
    if arr.shape != (2,) * nb:
        return 'the tensor has the shape %s, expected %s (one axis of size 2 per input then per output)' % (list(arr.shape), [2] * nb)
    for ix, x in zip(_indices(arr.shape), arr.data):
        w = want.get(ix, Q0)
        if not num.same(num.value(x), num.ref(w)):
            return 'entry %s is %s, the standard interpretation gives %s' % (''.join(map(str, ix)) or '()', _shown(num.value(x)), _shown(num.ref(w)))
    return ''


def _shown(v):
    if isinstance(v, Qw):
        ts = ['%s%s' % (c, ('' if i == 0 else '*w' if i == 1 else '*w^%d' % i)) for i, c in enumerate(v.c) if c]
        return (' + '.join(ts) if ts else '0') + (' (w = e^{i pi/4})' if any(v.c[1:]) else '')
    return '%.6g%+.6gi' % (v.real, v.imag)


def orders(d, which):
    """vertex creation orders tried for a diagram: sorted names, reversed, boundaries last, and an interleaving"""
    names = sorted(d.v, key=str)
    out = [names]
    if which >= 2:
        out.append(list(reversed(names)))
    if which >= 3:
        out.append([n for n in names if d.v[n][0] != 'B'] + [n for n in names if d.v[n][0] == 'B'])
        out.append(names[1::2] + names[0::2])
    seen, res = set(), []
    for o in out:
        if tuple(o) not in seen:
            seen.add(tuple(o))
            res.append(o)
    return res


P3 = (0, Fr(1, 4), 1)


def family_graphs():
    """well-formed diagrams for the tensor evaluator: 0..3 spiders (Z / X, phases 0, pi/4, pi / a second set), every pattern of edges between them, 0..3
    boundaries attached to spiders by plain or Hadamard edges as inputs or outputs, several boundaries on one spider, isolated spiders, closed diagrams,
    disconnected diagrams, boundaries wired straight to boundaries (plain and Hadamard; input-output, input-input, output-output) next to spiders"""
    # (a) bare wires only
    for t in ('N', 'H'):
        yield D({'a': ('B', 0, ()), 'b': ('B', 0, ())}, {('a', 'b'): t}, ['a'], ['b'])
        yield D({'a': ('B', 0, ()), 'b': ('B', 0, ())}, {('a', 'b'): t}, ['a', 'b'], [])
        yield D({'a': ('B', 0, ()), 'b': ('B', 0, ())}, {('a', 'b'): t}, [], ['b', 'a'])
        for t2 in ('N', 'H'):
            v = {'a': ('B', 0, ()), 'b': ('B', 0, ()), 'c': ('B', 0, ()), 'd': ('B', 0, ())}
            yield D(v, {('a', 'b'): t, ('c', 'd'): t2}, ['a', 'c'], ['b', 'd'])
            yield D(v, {('a', 'd'): t, ('c', 'b'): t2}, ['a', 'c'], ['b', 'd'])       # a crossing
            yield D(v, {('a', 'c'): t, ('b', 'd'): t2}, ['a', 'c'], ['b', 'd'])       # cup and cap
    yield D({}, {}, [], [])
    yield D({}, {}, [], [], scalar=zxsem.SQRT2 * zxsem.expi(Fr(1, 4)))
    # (b) one spider: type, phase, 0..3 boundaries (each plain / Hadamard, input / output)
    for ct in ('Z', 'X'):
        for cp in (0, Fr(1, 4), 1, Fr(3, 2)):
            for nb in range(0, 4):
                for ets in itertools.product(('N', 'H'), repeat=nb):
                    for io in itertools.product('io', repeat=nb):
                        if list(io) != sorted(io):
                            continue
                        v = {'s': (ct, cp, ())}
                        e = {}
                        ins, outs = [], []
                        for k, (t, x) in enumerate(zip(ets, io)):
                            v['b%d' % k] = ('B', 0, ())
                            e[('s', 'b%d' % k)] = t
                            (ins if x == 'i' else outs).append('b%d' % k)
                        yield D(v, e, ins, outs)
                        if nb == 2:
                            yield D(v, e, list(reversed(ins)), list(reversed(outs)))
    # (c) two spiders: types, phases, edge between them, boundary attachment patterns, optional bare wire / isolated spider alongside
    att2 = [((), ()), (('i',), ()), ((), ('o',)), (('i',), ('o',)), (('o',), ('i',)), (('i', 'o'), ()), (('i',), ('o', 'o')), (('i', 'i'), ('o',)), (('o', 'i'), ('i', 'o'))]
    for t0, t1 in (('Z', 'Z'), ('Z', 'X'), ('X', 'X')):
        for p0 in P3:
            for p1 in (0, Fr(1, 2), Fr(7, 4)):
                for cc in (None, 'N', 'H'):
                    for a0, a1 in att2:
                        for bt in ('N', 'H'):
                            v = {'s0': (t0, p0, ()), 's1': (t1, p1, ())}
                            e = {('s0', 's1'): cc} if cc else {}
                            ins, outs = [], []
                            k = 0
                            for s, att in (('s0', a0), ('s1', a1)):
                                for x in att:
                                    b = 'b%d' % k
                                    k += 1
                                    v[b] = ('B', 0, ())
                                    e[(s, b)] = bt if (k % 2) else 'N'
                                    (ins if x == 'i' else outs).append(b)
                            yield D(v, e, ins, outs)
                            if bt == 'N' and cc == 'H':
                                v2 = dict(v, w0=('B', 0, ()), w1=('B', 0, ()))
                                e2 = dict(e)
                                e2[('w0', 'w1')] = 'H' if p0 else 'N'
                                yield D(v2, e2, ['w0'] + ins, outs + ['w1'])
                                yield D(v2, e2, ins + ['w0'], ['w1'] + outs)
                                v3 = dict(v, z=('X' if p1 else 'Z', Fr(1, 4), ()))
                                yield D(v3, e, ins, outs)
    # (d) three spiders: a path / triangle / star with mixed edges, boundaries on the ends, every spider a different phase
    for ts in (('Z', 'Z', 'Z'), ('Z', 'X', 'Z'), ('X', 'Z', 'X')):
        for e01, e12, e02 in itertools.product((None, 'N', 'H'), repeat=3):
            for ph in ((Fr(1, 4), Fr(1, 2), 1), (0, Fr(3, 4), 0), (1, 0, Fr(1, 4))):
                for att in ((('i',), (), ('o',)), (('i', 'i'), ('o',), ('o',)), ((), ('i', 'o'), ()), (('o',), ('o',), ('i',)), ((), (), ())):
                    v = {'s0': (ts[0], ph[0], ()), 's1': (ts[1], ph[1], ()), 's2': (ts[2], ph[2], ())}
                    e = {}
                    for k_, t in ((('s0', 's1'), e01), (('s1', 's2'), e12), (('s0', 's2'), e02)):
                        if t:
                            e[k_] = t
                    ins, outs = [], []
                    k = 0
                    for s, a in zip(('s0', 's1', 's2'), att):
                        for x in a:
                            b = 'b%d' % k
                            k += 1
                            v[b] = ('B', 0, ())
                            e[(s, b)] = 'H' if (k == 2) else 'N'
                            (ins if x == 'i' else outs).append(b)
                    yield D(v, e, ins, outs, scalar=Q1 if e01 else zxsem.INV_SQRT2)
    # (e) the circuit-like diagrams of the simplifier family (two wires, four to six spiders, cross edges, a gadget): a slice
    for i, (d, _c, _o) in enumerate(zxsem.family_circuitlike()):
        if i % 37 == 0:
            yield d


def _graph_job(job):
    ty, stride, offset, every, nord, numname = job
    facts = _G['facts']
    num = Exact if numname == 'exact' else Float
    st = {'diagrams': 0, 'evaluations': 0, 'declined': 0}
    bad, declined = [], {}
    for i, d in enumerate(x for j, x in enumerate(family_graphs()) if j % every == 0):
        if i % stride != offset:
            continue
        st['diagrams'] += 1
        try:
            want = zxsem.tensor(d, {})
        except minirust.NoEval as ex:
            st['declined'] += 1
            declined.setdefault('oracle: ' + str(ex)[:70], d.show())
            continue
        nb = len(d.inputs) + len(d.outputs)
        for o in orders(d, nord):
            try:
                try:
                    arr = graph_tensor(facts, ty, d, o, num)
                except minirust.Panics as ex:
                    bad.append(('panic', d.show(), o, 'panics: %s' % ex))
                    continue
                st['evaluations'] += 1
                w = compare_with(arr, want, nb, num)
                if w:
                    bad.append(('value', d.show(), o, w))
            except minirust.NoEval as ex:
                st['declined'] += 1
                declined.setdefault(str(ex)[:90], d.show())
    st['declined_reasons'] = declined
    return st, bad[:40]


_G = {}


def _pool_map(fn, jobs, procs):
    pool = None
    if procs > 1:
        try:
            import multiprocessing
            pool = multiprocessing.get_context('fork').Pool(procs)
        except Exception:
            pool = None
    try:
        return pool.map(fn, jobs, chunksize=1) if pool is not None else [fn(j) for j in jobs]
    finally:
        if pool is not None:
            pool.terminate()
            pool.join()


def run_graphs(facts, plan, procs=8):
    """plan: [(back end, every k-th diagram, number of vertex orders 1..3, 'exact' | 'float')] -> totals, findings [(back end, number type, kind, diagram, order, what)], declined"""
    _G['facts'] = facts
    jobs = [(ty, procs, off, every, nord, num) for ty, every, nord, num in plan for off in range(procs)]
    results = _pool_map(_graph_job, jobs, procs)
    tot = {'diagrams': 0, 'evaluations': 0, 'declined': 0}
    bad, declined = [], {}
    for job, (st, b) in zip(jobs, results):
        for k in ('diagrams', 'evaluations', 'declined'):
            tot[k] += st[k]
        bad.extend((job[0], job[5]) + tuple(x) for x in b)
        for k, v in st['declined_reasons'].items():
            declined.setdefault(k, v)
    return tot, bad, declined


# ----------------------------------------------------------------------------------------------------------------- evaluation of circuits
def supported_kinds():
    from refs import gates as R
    return [k for k in R.UNITARY if k != 'ParityPhase']


def family_circuits():
    """every gate kind the circuit evaluator supports on every tuple of distinct qubits of 1..3 wires (five phases for the parametrised kinds), every
    ordered pair of a generating subset on two wires (order of application, non-symmetric gates), triples on three wires around the three-qubit gates"""
    sup = set(supported_kinds())
    for n, gs in zxsem.family_circuits():
        if all(g[0] in sup for g in gs):
            yield n, gs
    # sequences that tell the order of application and the orientation apart
    yield 2, [('HAD', (0,)), ('CNOT', (0, 1)), ('T', (1,)), ('CNOT', (1, 0)), ('S', (0,))]
    yield 3, [('HAD', (2,)), ('TOFF', (2, 0, 1)), ('SWAP', (0, 2)), ('T', (0,)), ('CNOT', (1, 2)), ('XPhase', (1,), Fr(1, 4))]
    yield 3, [('SWAP', (0, 1)), ('SWAP', (1, 2)), ('T', (0,)), ('HAD', (1,)), ('CZ', (0, 2))]
    yield 1, []
    yield 2, []


def circuit_tensor(facts, n, gates, num=Exact):
    it = interp(facts, num)
    return it.local_call('<circuit::Circuit as tensor::ToTensor>::to_tensor', [zxsem.circuit(n, gates)])


def _circ_job(job):
    stride, offset, every, numname = job
    facts = _G['facts']
    num = Exact if numname == 'exact' else Float
    st = {'circuits': 0, 'evaluations': 0, 'declined': 0, 'kinds': set()}
    bad, declined = [], {}
    for i, (n, gs) in enumerate(x for j, x in enumerate(family_circuits()) if j % every == 0):
        if i % stride != offset:
            continue
        st['circuits'] += 1
        try:
            want = zxsem.circuit_map(n, gs)
            try:
                arr = circuit_tensor(facts, n, gs, num)
            except minirust.Panics as ex:
                bad.append(('panic', '%d qubits: %s' % (n, zxsem._showc(gs)), 'panics: %s' % ex))
                continue
            st['evaluations'] += 1
            st['kinds'].update(g[0] for g in gs)
            w = compare_with(arr, want, 2 * n, num)
            if w:
                bad.append(('value', '%d qubits: %s' % (n, zxsem._showc(gs)), w))
        except minirust.NoEval as ex:
            st['declined'] += 1
            declined.setdefault(str(ex)[:90], '%d qubits: %s' % (n, zxsem._showc(gs)))
    st['declined_reasons'] = declined
    st['kinds'] = sorted(st['kinds'])
    return st, bad[:40]


def run_circuits(facts, plan, procs=8):
    """plan: [(every k-th circuit, 'exact' | 'float')]"""
    _G['facts'] = facts
    jobs = [(procs, off, every, num) for every, num in plan for off in range(procs)]
    results = _pool_map(_circ_job, jobs, procs)
    tot = {'circuits': 0, 'evaluations': 0, 'declined': 0, 'kinds': set()}
    bad, declined = [], {}
    for job, (st, b) in zip(jobs, results):
        for k in ('circuits', 'evaluations', 'declined'):
            tot[k] += st[k]
        tot['kinds'].update(st['kinds'])
        bad.extend((job[3],) + tuple(x) for x in b)
        for k, v in st['declined_reasons'].items():
            declined.setdefault(k, v)
    tot['kinds'] = sorted(tot['kinds'])
    return tot, bad, declined


def unsupported_fail_loudly(facts):
    """the kinds the circuit evaluator does not support must panic, never return a tensor -> [(kind, what)] for those that do not"""
    bad = []
    for kind, qs in (('ParityPhase', (0, 1)), ('InitAncilla', (0,)), ('PostSelect', (0,)), ('Measure', (0,)), ('MeasureReset', (0,))):
        try:
            r = circuit_tensor(facts, 2, [(kind, qs, Fr(1, 4))])
            bad.append((kind, 'returns %s' % (type(r).__name__,)))
        except minirust.Panics:
            pass
    return bad


# ----------------------------------------------------------------------------------------------------------------- the primitives
def _gen(shape, salt=0):
    """a tensor with pairwise different, 'generic' exact entries (no entry is zero, no two are proportional by a root of unity)"""
    n = 1
    for d in shape:
        n *= d
    return HArr(shape, [HScalar(Qw((i + 2 + salt, (i * i + 1 + salt) % 7 - 3, (3 * i + salt) % 5, 1 if i % 3 else 0))) for i in range(n)])


def _vals(arr):
    return [Exact.value(x) for x in arr.data]


def primitives(facts):
    """-> (cases, findings [(function, case, what)]): every QubitOps primitive against its definition, on small sizes"""
    bad, cases = [], 0

    def call(name, *args):
        it = interp(facts, Exact)
        return it.local_call(_impl_key(facts, 'tensor::QubitOps', name), list(args))

    def check(fn, case, got, shape, f):
        nonlocal cases
        cases += 1
        if not isinstance(got, HArr):
            bad.append((fn, case, 'returns %r' % (got,)))
            return
        if got.shape != tuple(shape):
            bad.append((fn, case, 'the result has the shape %s, expected %s' % (list(got.shape), list(shape))))
            return
        for ix, x in zip(_indices(got.shape), got.data):
            w = f(ix)
            if Exact.value(x) != w:
                bad.append((fn, case, 'entry %s is %s, expected %s' % (list(ix), _shown(Exact.value(x)), _shown(w))))
                return

    FAILED = object()

    def guarded(fn, case, thunk):
        try:
            r_ = thunk()
            return () if r_ is None else r_
        except minirust.Panics as ex:
            nonlocal cases
            cases += 1
            bad.append((fn, case, 'panics: %s' % ex))
            return FAILED
    for q in range(0, 4):
        r = guarded('ident', 'q=%d' % q, lambda: call('ident', q))
        if r is not FAILED:
            check('ident', 'q=%d' % q, r, (2,) * (2 * q), lambda ix: Q1 if ix[:q] == ix[q:] else Q0)
    for q in range(0, 5):
        r = guarded('delta', 'q=%d' % q, lambda: call('delta', q))
        if r is not FAILED:
            check('delta', 'q=%d' % q, r, (2,) * q, lambda ix: Q1 if len(set(ix)) <= 1 else Q0)
    for q in range(0, 4):
        for p in (Fr(1, 4), 1, Fr(3, 2)):
            r = guarded('cphase', 'q=%d p=%s' % (q, p), lambda: call('cphase', zxsem.phase(p), q))
            if r is not FAILED:
                check('cphase', 'q=%d p=%s' % (q, p), r, (2,) * (2 * q), lambda ix: (zxsem.expi(p) if all(ix[:q]) else Q1) if ix[:q] == ix[q:] else Q0)
    r = guarded('hadamard', '', lambda: call('hadamard'))
    if r is not FAILED:
        check('hadamard', '', r, (2, 2), lambda ix: -zxsem.INV_SQRT2 if ix == (1, 1) else zxsem.INV_SQRT2)
    for nd in (1, 2, 3):
        base = _gen((2,) * nd)
        bv = dict(zip(_indices(base.shape), _vals(base)))
        for k in range(0, nd + 1):
            for qs in itertools.permutations(range(nd), k):
                t = base.mr_clone()
                if guarded('delta_at', 'ndim=%d qs=%s' % (nd, list(qs)), lambda: call('delta_at', t, list(qs))) is not FAILED:
                    check('delta_at', 'ndim=%d qs=%s' % (nd, list(qs)), t, base.shape, lambda ix: bv[ix] if len(set(ix[q] for q in qs)) <= 1 else Q0)
                for p in (Fr(1, 4), 1):
                    t = base.mr_clone()
                    if guarded('cphase_at', 'ndim=%d qs=%s p=%s' % (nd, list(qs), p), lambda: call('cphase_at', t, zxsem.phase(p), list(qs))) is not FAILED:
                        check('cphase_at', 'ndim=%d qs=%s p=%s' % (nd, list(qs), p), t, base.shape, lambda ix: bv[ix] * zxsem.expi(p) if all(ix[q] for q in qs) else bv[ix])
        for q in range(nd):
            t = base.mr_clone()
            if guarded('hadamard_at', 'ndim=%d q=%d' % (nd, q), lambda: call('hadamard_at', t, q)) is not FAILED:
                def had(ix):
                    i0, i1 = ix[:q] + (0,) + ix[q + 1:], ix[:q] + (1,) + ix[q + 1:]
                    return zxsem.INV_SQRT2 * (bv[i0] + bv[i1]) if ix[q] == 0 else zxsem.INV_SQRT2 * (bv[i0] - bv[i1])
                check('hadamard_at', 'ndim=%d q=%d' % (nd, q), t, base.shape, had)
    # plug_n_qubits(self, n, other): `other` is an n-qubit map (2n axes: its only uses, and what "the first n qubits of other" means); for other
    # ranks the function panics (2n < rank) or returns a tensor of the wrong shape (2n > rank) — outside the statement of C08, see DESIGN 10.9
    for d1 in range(0, 4):
        for n in range(0, d1 + 1):
            for d2 in (2 * n,):
                a, b = _gen((2,) * d1), _gen((2,) * d2, salt=5)
                av, bvv = dict(zip(_indices(a.shape), _vals(a))), dict(zip(_indices(b.shape), _vals(b)))
                case = 'ranks %d, %d contracting %d' % (d1, d2, n)
                r = guarded('plug_n_qubits', case, lambda: call('plug_n_qubits', a.mr_clone(), n, b))

                def plug(ix):
                    tot = Q0
                    for mid in itertools.product((0, 1), repeat=n):
                        tot = tot + av[ix[:d1 - n] + mid] * bvv[mid + ix[d1 - n:]]
                    return tot
                if r is not FAILED:
                    check('plug_n_qubits', case, r, (2,) * (d1 + d2 - 2 * n), plug)
                if _vals(b) != [bvv[ix] for ix in _indices(b.shape)]:
                    bad.append(('plug_n_qubits', case, 'changes its borrowed argument'))
    return cases, bad


# ----------------------------------------------------------------------------------------------------------------- comparison helpers end to end
def comparisons(facts, ty=VEC):
    """compare / scalar_compare on (diagram, circuit) pairs whose relation is known from the references -> (cases, findings)"""
    bad, cases = [], 0
    cz = D({'i0': ('B', 0, ()), 'i1': ('B', 0, ()), 'a': ('Z', 0, ()), 'b': ('Z', 0, ()), 'o0': ('B', 0, ()), 'o1': ('B', 0, ())},
           {('i0', 'a'): 'N', ('a', 'o0'): 'N', ('i1', 'b'): 'N', ('b', 'o1'): 'N', ('a', 'b'): 'H'}, ['i0', 'i1'], ['o0', 'o1'], scalar=zxsem.SQRT2)
    cz_unscaled = D(cz.v, dict((tuple(k), t) for k, t in cz.e.items()), cz.inputs, cz.outputs)
    cz_swapped_outputs = D(cz.v, dict((tuple(k), t) for k, t in cz.e.items()), cz.inputs, list(reversed(cz.outputs)), scalar=zxsem.SQRT2)
    cnot_d = D({'i0': ('B', 0, ()), 'i1': ('B', 0, ()), 'a': ('Z', 0, ()), 'b': ('X', 0, ()), 'o0': ('B', 0, ()), 'o1': ('B', 0, ())},
               {('i0', 'a'): 'N', ('a', 'o0'): 'N', ('i1', 'b'): 'N', ('b', 'o1'): 'N', ('a', 'b'): 'N'}, ['i0', 'i1'], ['o0', 'o1'], scalar=zxsem.SQRT2)
    zero_d = D({'i0': ('B', 0, ()), 'o0': ('B', 0, ()), 'a': ('Z', 1, ())}, {('i0', 'o0'): 'N'}, ['i0'], ['o0'])
    table = [
        ('CZ diagram vs CZ circuit', cz, (2, [('CZ', (0, 1))]), True, True),
        ('CZ diagram without its sqrt2 vs CZ circuit', cz_unscaled, (2, [('CZ', (0, 1))]), False, True),
        ('CZ diagram vs CNOT circuit', cz, (2, [('CNOT', (0, 1))]), False, False),
        ('CNOT diagram vs CNOT circuit', cnot_d, (2, [('CNOT', (0, 1))]), True, True),
        ('CNOT diagram vs the reversed CNOT circuit', cnot_d, (2, [('CNOT', (1, 0))]), False, False),
        ('CNOT diagram vs SWAP; reversed CNOT; SWAP', cnot_d, (2, [('SWAP', (0, 1)), ('CNOT', (1, 0)), ('SWAP', (0, 1))]), True, True),
        ('CZ diagram with swapped outputs vs CZ; SWAP', cz_swapped_outputs, (2, [('CZ', (0, 1)), ('SWAP', (0, 1))]), True, True),
        ('a wire next to a zero scalar (isolated pi spider) vs the identity circuit', zero_d, (1, []), False, False),
        ('CZ diagram vs a circuit on another number of qubits', cz, (1, [('HAD', (0,))]), False, False),
    ]
    for name, d, (n, gs), eq, seq in table:
        for fn, want in (('compare', eq), ('scalar_compare', seq)):
            for flip in (False, True):
                cases += 1
                try:
                    be, _m = zxsem.build(facts, ty, d)
                    it = interp(facts, Exact)
                    it.self_ty.append(ty)
                    args = [be.g, zxsem.circuit(n, gs)]
                    if flip:
                        args.reverse()
                    got = it.local_call(_impl_key(facts, 'tensor::CompareTensors', fn), args)
                except minirust.Panics as ex:
                    bad.append((fn, name, 'panics: %s' % ex))
                    continue
                if got is not want:
                    bad.append((fn, name + (' (arguments exchanged)' if flip else ''), 'answers %r, the reference semantics say %r' % (got, want)))
    return cases, bad


# ----------------------------------------------------------------------------------------------------------------- controls
def host_controls():
    """the ndarray host model on facts that are documented behaviour of ndarray"""
    a = HArr((2, 3), [HScalar(Qw((i, 0, 0, 0))) for i in range(6)])
    ok = a._sum_axis([('ctor', 'ndarray::Axis', (0,))]).shape == (3,) and [x.v.c[0] for x in a._sum_axis([('ctor', 'ndarray::Axis', (1,))]).data] == [3, 12]
    b = a.mr_clone()
    b._swap_axes([0, 1])
    ok = ok and b.shape == (3, 2) and [x.v.c[0] for x in b.data] == [0, 3, 1, 4, 2, 5] and b._reshape([[6]])[0] == 'Err' and a._reshape([[3, 2]])[0] == 'Ok'
    c = HArr((1, 3), [HScalar(Qw((i + 1, 0, 0, 0))) for i in range(3)])
    ok = ok and [x.v.c[0] for x in (a * c).data] == [0, 2, 6, 3, 8, 15] and a.broadcast_to((3, 2)) is None and c.broadcast_to((2, 3)) is not None
    v0, v1 = a._multi_slice([([('idx', 0), ('all',)], [('idx', 1), ('all',)])])
    ok = ok and v0.idx == [0, 1, 2] and v1.idx == [3, 4, 5] and v0.shape == (3,)
    return bool(ok)
