"""R-OPS — operator-impl consistency (DESIGN 4.4).

For `impl <Op> for T` (Add/Sub/Mul/Div and their Assign forms):
  * a *reference* impl computes with the operator of its own name on operands in (self, rhs) order
    (the operator may be applied to fields/derefs of the operands);
  * an `OpAssign` impl is `*self = *self op rhs` (or forwards to the same operator);
  * a by-value/by-ref *forwarder* forwards to the same operator with the operand order kept.
The rule looks at the *outermost* operator applications whose operands are rooted in the two
parameters: each must be the impl's own operator (same trait), with the self-rooted operand on the
left for the non-commutative Sub/Div.
"""
import re

from . import hir

OPS = ('Add', 'Sub', 'Mul', 'Div')
_TR = re.compile(r'^(?:std|core)::ops::(Add|Sub|Mul|Div)(Assign)?(?:<.*>)?$')
METHOD = {'add': 'Add', 'sub': 'Sub', 'mul': 'Mul', 'div': 'Div',
          'add_assign': 'Add', 'sub_assign': 'Sub', 'mul_assign': 'Mul', 'div_assign': 'Div'}


def op_impls(facts, self_pred):
    """[(fn key, op, is_assign, self type)] for local operator impls whose self type satisfies self_pred."""
    out = []
    for key, f in facts['fns'].items():
        imp = f.get('impl_of')
        if not imp or not imp.get('trait'):
            continue
        m = _TR.match(imp['trait'])
        if not m:
            continue
        if not self_pred(imp['self']):
            continue
        out.append((key, m.group(1), bool(m.group(2)), imp['self']))
    return out


def _roots(e, pnames):
    """which parameters an expression is rooted in"""
    out = set()
    for n in hir.nodes(e):
        l = hir.local(n) if n.get('k') == 'Path' else None
        if l and l[1] in pnames:
            out.add(pnames[l[1]])
    return out


def _op_apps(body):
    """operator applications: Binary arithmetic nodes, AssignOp nodes, explicit .add()/.sub() trait-method calls"""
    for n in hir.nodes(body):
        k = n.get('k')
        if k == 'Binary' and n['op'] in OPS:
            yield n, n['op'], n['l'], n['r']
        elif k == 'AssignOp' and n['op'].replace('Assign', '') in OPS:
            yield n, n['op'].replace('Assign', ''), n['l'], n['r']
        elif k == 'MethodCall' and n['name'] in METHOD and (n.get('callee') or '').startswith(('std::ops::', 'core::ops::')):
            yield n, METHOD[n['name']], n['recv'], n['args'][0]


def analyse(f, op, is_assign):
    """Returns (ok, why, summary) for one operator impl body."""
    params = f['params']
    if len(params) != 2 or any(p.get('k') != 'Bind' for p in params):
        return None, 'parameters are not two plain bindings', ''
    pn = {params[0]['id']: 'self', params[1]['id']: 'rhs'}
    # single-assignment locals derived from exactly one parameter keep that root (let rself = &self)
    changed = True
    lets = [n for n in hir.nodes(f['hir']) if n.get('k') == 'Let' and n.get('init') is not None and n['pat'].get('k') == 'Bind']
    while changed:
        changed = False
        for l in lets:
            if l['pat']['id'] in pn:
                continue
            r = _roots(l['init'], pn)
            if len(r) == 1:
                pn[l['pat']['id']] = next(iter(r))
                changed = True
    apps = []
    for n, o, l, r in _op_apps(f['hir']):
        lr, rr = _roots(l, pn), _roots(r, pn)
        if lr and rr and (lr != rr or len(lr) > 1):
            apps.append((n, o, lr, rr))
    summ = ['%s(%s;%s)' % (o, '+'.join(sorted(a)), '+'.join(sorted(b))) for _n, o, a, b in apps]
    if not apps:
        return None, 'no operator application joining self and rhs found', summ
    return apps, '', summ


def check_impl(f, op, is_assign, reference_ok=None, ordered=('Sub', 'Div')):
    """ok/why for the generic rule: every self×rhs operator application uses `op`, self on the left for Sub/Div."""
    apps, why, summ = analyse(f, op, is_assign)
    if apps is None:
        return False, why, summ
    for n, o, lr, rr in apps:
        if o != op:
            return False, 'impl of %s combines self and rhs with %s: %s' % (op, o, hir.pp(n)[:120]), summ
        if op in ordered and not (lr == {'self'} and rr == {'rhs'}):
            return False, 'operand order: %s must be self %s rhs, found %s' % (op, op, hir.pp(n)[:120]), summ
    return True, '', summ
