"""Exhaustive exploration of a seeded generator over every outcome of its random draws (DESIGN 10.1 E3b, C19).

The generator's `rng` field is a host object whose draws (`random_range`, `random_bool`, `random::<f32>()`) are choice points; `explore` runs
the function (interpreted from its HIR by minirust) once per complete sequence of choices, depth first, and hands every result to the caller.
What is decided is therefore a statement about ALL seeds for the explored parameter values: whatever StdRng produces is one of the explored
sequences.  Nothing of the analysed crate is compiled or run."""
from . import minirust


class Exhausted(Exception):
    pass


class Rng(minirust.Obj):
    def __init__(self, floats=(0.5,)):
        self.prefix = []       # choices to replay
        self.trace = []        # (chosen index, number of options) of this run
        self.floats = list(floats)
        minirust.Obj.__init__(self, 'rng', {
            'random_range': self._range, 'gen_range': self._range, 'random_bool': self._bool, 'gen_bool': self._bool,
            'random': self._float, 'gen': self._float,
        }, strict=True)

    def _choose(self, n):
        if n <= 0:
            raise minirust.Panics('empty range in a random draw')
        i = len(self.trace)
        c = self.prefix[i] if i < len(self.prefix) else 0
        self.trace.append((c, n))
        return c

    def _range(self, a):
        r = a[0]
        if not isinstance(r, list):
            raise minirust.NoEval('random_range over %r' % (r,))
        if not r:
            raise minirust.Panics('random_range over an empty range')
        return r[self._choose(len(r))]

    def _bool(self, a):
        p = a[0]
        if not (isinstance(p, (int, float)) and 0 <= p <= 1):
            raise minirust.Panics('random_bool(%r): the probability is outside [0, 1]' % (p,))
        if p == 0:
            return False
        if p == 1:
            return True
        return bool(self._choose(2))

    def _float(self, a):
        return self.floats[self._choose(len(self.floats))]


def explore(run, rng, limit=60000, pin=()):
    """run(): evaluates the generator once with `rng`; yields (result, trace) for every complete choice sequence (that starts with the choices `pin`)"""
    prefix = list(pin)
    n = 0
    while True:
        rng.prefix, rng.trace = list(prefix), []
        res = run()
        n += 1
        if n > limit:
            raise minirust.NoEval('more than %d random outcomes' % limit)
        yield res, list(rng.trace)
        # next sequence: increment the last choice that has options left
        tr = list(rng.trace)
        while tr and tr[-1][0] + 1 >= tr[-1][1]:
            tr.pop()
        if len(tr) <= len(pin):
            return
        prefix = [c for c, _n in tr[:-1]] + [tr[-1][0] + 1]
