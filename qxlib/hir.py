"""Helpers over the HIR-lite trees written by the qxfacts driver."""
import re

GL = 'graph::GraphLike::'


def children(n):
    for k, v in n.items():
        if k in ('sp', 'ty', 'ety', 'res', 'ctor'):
            continue
        if isinstance(v, dict):
            yield v
        elif isinstance(v, list):
            for x in v:
                if isinstance(x, dict):
                    yield x
                elif isinstance(x, list):
                    for y in x:
                        if isinstance(y, dict):
                            yield y


def nodes(n, into_closures=True):
    """Pre-order iteration over all expression/statement nodes (dicts that have 'k')."""
    if n is None:
        return
    stack = [n]
    while stack:
        x = stack.pop()
        if 'k' in x:
            yield x
            if x['k'] == 'Closure' and not into_closures:
                continue
        ch = list(children(x))
        stack.extend(reversed(ch))


def find(n, kind, into_closures=True):
    return [x for x in nodes(n, into_closures) if x.get('k') == kind]


def strip(e):
    """Peel references, derefs, clones and trivial blocks."""
    while e is not None:
        k = e.get('k')
        if k == 'AddrOf':
            e = e['e']
        elif k == 'Unary' and e['op'] == 'Deref':
            e = e['e']
        elif k == 'MethodCall' and e['name'] in ('clone', 'copied', 'cloned', 'to_owned', 'borrow', 'as_ref') and not e['args']:
            e = e['recv']
        elif k == 'Block' and not e['stmts'] and e['expr'] is not None:
            e = e['expr']
        else:
            break
    return e


def callee(e):
    """Resolved callee def path of a Call / MethodCall / overloaded operator node (or None)."""
    k = e.get('k')
    if k in ('MethodCall', 'Binary', 'Unary', 'AssignOp', 'Index'):
        return e.get('callee')
    if k == 'Call':
        if e.get('callee'):
            return e['callee']
        f = strip(e['fun'])
        if f.get('k') == 'Path' and f['res'].get('k') in ('Def', 'SelfCtor'):
            return f['res'].get('path')
    return None


def call_args(e):
    """All arguments including the receiver (receiver first)."""
    if e['k'] == 'MethodCall':
        return [e['recv']] + e['args']
    if e['k'] == 'Call':
        return e['args']
    return []


def calls(n, into_closures=True):
    return [x for x in nodes(n, into_closures) if x.get('k') in ('Call', 'MethodCall')]


def calls_to(n, path_or_pred, into_closures=True):
    if isinstance(path_or_pred, str):
        p = path_or_pred
        pred = lambda c: c == p
    elif isinstance(path_or_pred, (set, frozenset, list, tuple)):
        s = set(path_or_pred)
        pred = lambda c: c in s
    else:
        pred = path_or_pred
    return [x for x in calls(n, into_closures) if callee(x) and pred(callee(x))]


def local(e):
    """(name, id) if e is a path to a local binding."""
    e = strip(e)
    if e and e.get('k') == 'Path' and e['res'].get('k') == 'Local':
        return e['res']['name'], e['res']['id']
    return None


def local_name(e):
    l = local(e)
    return l[0] if l else None


def def_path(e):
    e = strip(e)
    if e and e.get('k') == 'Path' and e['res'].get('k') in ('Def', 'SelfCtor'):
        return e['res'].get('path')
    return None


_INT = re.compile(r'^Int\(Pu128\((\d+)\)')


def lit_int(e):
    e = strip(e)
    if e is None:
        return None
    if e.get('k') == 'Lit':
        m = _INT.match(e['v'])
        if m:
            return int(m.group(1))
    if e.get('k') == 'Unary' and e['op'] == 'Neg':
        v = lit_int(e['e'])
        return -v if v is not None else None
    if e.get('k') == 'Cast':
        return lit_int(e['e'])
    return None


def lit_bool(e):
    e = strip(e)
    if e and e.get('k') == 'Lit' and e['v'].startswith('Bool('):
        return e['v'].startswith('Bool(true')
    return None


def lit_str(e):
    e = strip(e)
    if e and e.get('k') == 'Lit' and e['v'].startswith('Str('):
        m = re.match(r'^Str\("(.*)", (?:\w+|Raw\(\d+\))\)$', e['v'], re.S)
        if m:
            return _unescape(m.group(1))
    return None


def _unescape(s):
    out = []
    i = 0
    while i < len(s):
        c = s[i]
        if c == '\\' and i + 1 < len(s):
            d = s[i + 1]
            if d in 'ntr0':
                out.append({'n': '\n', 't': '\t', 'r': '\r', '0': '\0'}[d])
                i += 2
                continue
            if d in '"\'\\':
                out.append(d)
                i += 2
                continue
            if d == 'u' and i + 2 < len(s) and s[i + 2] == '{':
                j = s.index('}', i)
                out.append(chr(int(s[i + 3:j], 16)))
                i = j + 1
                continue
        out.append(c)
        i += 1
    return ''.join(out)


def line(n):
    sp = n.get('sp')
    if not sp:
        return 0
    return sp[2] if sp[3] else sp[0]


def from_macro(n):
    sp = n.get('sp')
    return bool(sp and sp[3])


def bindings(p):
    """All (name, id) bound by a pattern."""
    out = []
    if p is None:
        return out
    k = p.get('k')
    if k == 'Bind':
        out.append((p['name'], p['id']))
        out += bindings(p.get('sub'))
    elif k in ('TupleStruct', 'Tuple', 'Or'):
        for s in p['sub']:
            out += bindings(s)
    elif k == 'Struct':
        for _n, s in p['fields']:
            out += bindings(s)
    elif k == 'Ref':
        out += bindings(p['sub'])
    elif k == 'Slice':
        for s in p['pre'] + p['post']:
            out += bindings(s)
        out += bindings(p.get('mid'))
    return out


def pat_ctor(p):
    if p and p.get('k') in ('TupleStruct', 'Struct'):
        return p['ctor'].get('path', '')
    if p and p.get('k') == 'Path':
        return p['res'].get('path', '')
    return None


BINOP = {'Add': '+', 'Sub': '-', 'Mul': '*', 'Div': '/', 'Rem': '%', 'And': '&&', 'Or': '||', 'BitXor': '^', 'BitAnd': '&',
         'BitOr': '|', 'Shl': '<<', 'Shr': '>>', 'Eq': '==', 'Lt': '<', 'Le': '<=', 'Ne': '!=', 'Ge': '>=', 'Gt': '>',
         'AddAssign': '+=', 'SubAssign': '-=', 'MulAssign': '*=', 'DivAssign': '/=', 'RemAssign': '%=', 'BitXorAssign': '^=',
         'BitAndAssign': '&=', 'BitOrAssign': '|=', 'ShlAssign': '<<=', 'ShrAssign': '>>='}


def short(path):
    if not path:
        return '?'
    return path.split('::')[-1] if not path.startswith('<') else path


def pp_pat(p):
    if p is None:
        return '_'
    k = p['k']
    if k == 'Bind':
        return p['name'] + ('@' + pp_pat(p['sub']) if p.get('sub') else '')
    if k == 'Wild':
        return '_'
    if k == 'TupleStruct':
        return '%s(%s)' % (short(p['ctor'].get('path')), ', '.join(pp_pat(s) for s in p['sub']))
    if k == 'Struct':
        return '%s{%s}' % (short(p['ctor'].get('path')), ', '.join('%s: %s' % (n, pp_pat(s)) for n, s in p['fields']))
    if k == 'Tuple':
        return '(%s)' % ', '.join(pp_pat(s) for s in p['sub'])
    if k == 'Or':
        return ' | '.join(pp_pat(s) for s in p['sub'])
    if k == 'Ref':
        return '&' + pp_pat(p['sub'])
    if k == 'Path':
        return short(p['res'].get('path'))
    if k == 'Lit':
        return ('-' if p.get('neg') else '') + _lit(p['v'])
    return k


def _lit(v):
    m = _INT.match(v)
    if m:
        return m.group(1)
    if v.startswith('Bool('):
        return 'true' if v.startswith('Bool(true') else 'false'
    m = re.match(r'^Str\("(.*)", \w+\)$', v, re.S)
    if m:
        return '"%s"' % m.group(1)
    m = re.match(r'^Float\("([^"]*)"', v)
    if m:
        return m.group(1)
    return v


def pp(e, depth=0):
    """Compact source-like rendering (for reports and evidence samples)."""
    if e is None:
        return ''
    if depth > 12:
        return '…'
    d = depth + 1
    k = e.get('k')
    if k == 'Lit':
        return _lit(e['v'])
    if k == 'Path':
        r = e['res']
        if r.get('k') == 'Local':
            return r['name']
        return short(r.get('path', '?')) if not r.get('path', '').startswith('<') else r.get('path')
    if k == 'Call':
        c = callee(e)
        name = c if c else pp(e['fun'], d)
        if c and not c.startswith('<'):
            name = '::'.join(c.split('::')[-2:])
        return '%s(%s)' % (name, ', '.join(pp(a, d) for a in e['args']))
    if k == 'MethodCall':
        return '%s.%s(%s)' % (pp(e['recv'], d), e['name'], ', '.join(pp(a, d) for a in e['args']))
    if k in ('Binary', 'AssignOp'):
        return '(%s %s %s)' % (pp(e['l'], d), BINOP.get(e['op'], e['op']), pp(e['r'], d))
    if k == 'Unary':
        return {'Not': '!', 'Neg': '-', 'Deref': '*'}.get(e['op'], e['op']) + pp(e['e'], d)
    if k == 'Assign':
        return '%s = %s' % (pp(e['l'], d), pp(e['r'], d))
    if k == 'Field':
        return '%s.%s' % (pp(e['e'], d), e['name'])
    if k == 'Index':
        return '%s[%s]' % (pp(e['e'], d), pp(e['i'], d))
    if k == 'Tup':
        return '(%s)' % ', '.join(pp(a, d) for a in e['items'])
    if k == 'Array':
        return '[%s]' % ', '.join(pp(a, d) for a in e['items'])
    if k == 'Repeat':
        return '[%s; _]' % pp(e['e'], d)
    if k == 'Struct':
        return '%s{%s}' % (short(e['ctor'].get('path')), ', '.join('%s: %s' % (n, pp(x, d)) for n, x in e['fields']))
    if k == 'Cast':
        return '(%s as %s)' % (pp(e['e'], d), e.get('ty'))
    if k == 'AddrOf':
        return '&' + ('mut ' if e['mut'] else '') + pp(e['e'], d)
    if k == 'LetCond':
        return 'let %s = %s' % (pp_pat(e['pat']), pp(e['init'], d))
    if k == 'If':
        s = 'if %s %s' % (pp(e['cond'], d), pp(e['then'], d))
        if e.get('else'):
            s += ' else ' + pp(e['else'], d)
        return s
    if k == 'Match':
        return 'match %s {%s}' % (pp(e['scrut'], d), ', '.join(
            '%s%s => %s' % (pp_pat(a['pat']), (' if ' + pp(a['guard'], d)) if a.get('guard') else '', pp(a['body'], d)) for a in e['arms']))
    if k == 'Block':
        parts = [pp(s, d) for s in e['stmts']]
        if e['expr'] is not None:
            parts.append(pp(e['expr'], d))
        return '{ %s }' % '; '.join(parts)
    if k == 'Labeled':
        return "'%s: %s" % (e['label'], pp(e['body'], d))
    if k == 'Let':
        s = 'let %s' % pp_pat(e['pat'])
        if e.get('init') is not None:
            s += ' = ' + pp(e['init'], d)
        if e.get('els'):
            s += ' else ' + pp(e['els'], d)
        return s
    if k == 'For':
        return 'for %s in %s %s' % (pp_pat(e['pat']), pp(e['iter'], d), pp(e['body'], d))
    if k == 'While':
        return 'while %s %s' % (pp(e['cond'], d), pp(e['body'], d))
    if k == 'Loop':
        return 'loop %s' % pp(e['body'], d)
    if k == 'Try':
        return pp(e['e'], d) + '?'
    if k == 'Closure':
        return '|%s| %s' % (', '.join(pp_pat(p) for p in e['params']), pp(e['body'], d))
    if k == 'Ret':
        return 'return ' + pp(e.get('e'), d)
    if k == 'Break':
        return 'break' + ((" '" + e['label']) if e.get('label') else '')
    if k == 'Continue':
        return 'continue' + ((" '" + e['label']) if e.get('label') else '')
    if k == 'Item':
        return '<item>'
    return '<%s>' % k


def stmts_of(b):
    """Statement list of a block-like node, the tail expression included."""
    b = b if b.get('k') == 'Block' else strip(b)
    if b.get('k') == 'Block':
        return b['stmts'] + ([b['expr']] if b['expr'] is not None else [])
    return [b]


def diverges(e):
    """Expression of type `!` (panic!, unreachable!, return …)."""
    return e is not None and e.get('ty') == '!'


# ---------------------------------------------------------------- call graph

def impl_index(facts):
    """trait path -> method name -> [fn keys of impls]"""
    idx = {}
    for im in facts['impls']:
        if im['trait']:
            t = im['trait']
            for name, key in im['methods']:
                idx.setdefault(t, {}).setdefault(name, []).append(key)
    return idx


def _norm_ty(t):
    t = (t or '').strip()
    while t.startswith('&'):
        t = t[1:].strip()
        if t.startswith('mut '):
            t = t[4:].strip()
    return t


def _is_generic_ty(t):
    t = _norm_ty(t)
    return t == '' or t.startswith('impl ') or t.startswith('dyn ') or (t.isidentifier() and t[0].isupper() and '::' not in t) or t == 'Self' or t == '_'


def resolve_targets(facts, path, self_ty=None, _cache={}):
    """fn keys a call to `path` may reach: the fn itself (or the trait's default body) plus, for a trait
    method, the local impls of it — only those whose self type matches `self_ty` when that type is
    known and concrete; all of them when it is generic or unknown."""
    st = _norm_ty(self_ty) if self_ty is not None else None
    ck = (id(facts), path, st)
    if ck in _cache:
        return _cache[ck]
    out = []
    fns = facts['fns']
    if path in fns:
        out.append(path)
    if '::' in path and not path.startswith('<'):
        tr, _, m = path.rpartition('::')
        idx = facts.get('_implidx') or impl_index(facts)
        facts['_implidx'] = idx
        for t, ms in idx.items():
            if t.split('<')[0] == tr and m in ms:
                for key in ms[m]:
                    if st is None or _is_generic_ty(st):
                        out.append(key)
                    else:
                        imp = fns[key].get('impl_of') or {}
                        it = _norm_ty(imp.get('self'))
                        if it == st or it.split('<')[0] == st.split('<')[0] or _is_generic_ty(it):
                            out.append(key)
    _cache[ck] = out
    return out


def callgraph(facts):
    """fn key -> set of (callee path, self type or None)"""
    if '_cg' in facts:
        return facts['_cg']
    cg = {}
    for key, f in facts['fns'].items():
        outs = set()
        allnodes = list(nodes(f['hir']))
        called = {id(strip(c['fun'])) for c in allnodes if c.get('k') == 'Call'}
        for c in allnodes:
            k = c.get('k')
            if k == 'Path' and id(c) in called:
                continue
            if k == 'MethodCall':
                p = c.get('callee')
                if p:
                    outs.add((p, _norm_ty(strip(c['recv']).get('ty') or c['recv'].get('ty'))))
            elif k == 'Call':
                p = callee(c)
                if p:
                    # static trait-method call: Self is (for the constructors used here) the type of the expression
                    outs.add((p, _norm_ty(c.get('ty'))))
            elif k in ('Binary', 'AssignOp', 'Index'):
                p = c.get('callee')
                if p:
                    outs.add((p, _norm_ty((c.get('l') or c.get('e') or {}).get('ty'))))
            elif k == 'Unary':
                p = c.get('callee')
                if p:
                    outs.add((p, _norm_ty(c['e'].get('ty'))))
            # address-taken fns (passed as values)
            if k == 'Path' and c['res'].get('k') == 'Def' and c['res'].get('dk', '').startswith(('Fn', 'AssocFn')):
                outs.add((c['res']['path'], None))
        cg[key] = outs
    facts['_cg'] = cg
    return cg


def reachable(facts, roots):
    """fn keys reachable from roots through resolved callees (trait methods fan out to the impls
    matching the receiver type; to all impls for generic receivers)."""
    cg = callgraph(facts)
    seen = set()
    work = list(roots)
    while work:
        k = work.pop()
        if k in seen:
            continue
        seen.add(k)
        for p, ty in cg.get(k, ()):
            for t in resolve_targets(facts, p, ty):
                if t not in seen:
                    work.append(t)
    return seen


# ---------------------------------------------------------------- places and mutation

def place(e):
    """(root local id, root name, projection list) of a place expression, or None.
    Projections: ('f', name) field, ('i', index expr) index, ('m', method) method-call result (e.g. get_mut)."""
    proj = []
    while e is not None:
        k = e.get('k')
        if k == 'AddrOf':
            e = e['e']
        elif k == 'Unary' and e['op'] == 'Deref':
            e = e['e']
        elif k == 'Field':
            proj.append(('f', e['name']))
            e = e['e']
        elif k == 'Index':
            proj.append(('i', e['i']))
            e = e['e']
        elif k == 'Block' and not e['stmts'] and e['expr'] is not None:
            e = e['expr']
        elif k == 'Path' and e['res'].get('k') == 'Local':
            return e['res']['id'], e['res']['name'], list(reversed(proj))
        else:
            return None
    return None


def mutations(body, into_closures=True):
    """Syntactic mutation sites: [(kind, place-expr, node)] with kind in assign / assignop / addr-mut / autoref-mut."""
    out = []
    for n in nodes(body, into_closures):
        k = n.get('k')
        if k == 'Assign':
            out.append(('assign', n['l'], n))
        elif k == 'AssignOp':
            out.append(('assignop', n['l'], n))
        elif k == 'AddrOf' and n.get('mut'):
            out.append(('addr-mut', n['e'], n))
        if n.get('mutborrow'):
            out.append(('autoref-mut', n, n))
    return out


def same_expr(a, b):
    """Structural equality of two expressions modulo references/clones (locals compared by binding id)."""
    a, b = strip(a), strip(b)
    if a is None or b is None:
        return a is b
    if a.get('k') != b.get('k'):
        return False
    k = a['k']
    if k == 'Path':
        ra, rb = a['res'], b['res']
        if ra.get('k') == 'Local' and rb.get('k') == 'Local':
            return ra['id'] == rb['id']
        return ra.get('path') == rb.get('path') and ra.get('k') == rb.get('k')
    if k == 'Lit':
        return a['v'] == b['v']
    if k == 'Field':
        return a['name'] == b['name'] and same_expr(a['e'], b['e'])
    if k == 'Index':
        return same_expr(a['e'], b['e']) and same_expr(a['i'], b['i'])
    if k == 'MethodCall':
        return a['name'] == b['name'] and a.get('callee') == b.get('callee') and same_expr(a['recv'], b['recv']) and \
            len(a['args']) == len(b['args']) and all(same_expr(x, y) for x, y in zip(a['args'], b['args']))
    if k == 'Call':
        return callee(a) == callee(b) and callee(a) is not None and len(a['args']) == len(b['args']) and \
            all(same_expr(x, y) for x, y in zip(a['args'], b['args']))
    if k == 'Binary':
        return a['op'] == b['op'] and same_expr(a['l'], b['l']) and same_expr(a['r'], b['r'])
    if k == 'Unary':
        return a['op'] == b['op'] and same_expr(a['e'], b['e'])
    if k in ('Tup', 'Array'):
        return len(a['items']) == len(b['items']) and all(same_expr(x, y) for x, y in zip(a['items'], b['items']))
    if k == 'Cast':
        return a.get('ty') == b.get('ty') and same_expr(a['e'], b['e'])
    return False


def blocks(body):
    """All statement lists (block bodies) in a function body, closures included."""
    for n in nodes(body):
        if n.get('k') == 'Block':
            yield n, n['stmts'] + ([n['expr']] if n['expr'] is not None else [])


def parent_map(body):
    """id(node) -> (parent node, slot name) for every node under body."""
    pm = {}
    stack = [body]
    while stack:
        x = stack.pop()
        for k, v in x.items():
            if k in ('sp', 'ty', 'ety', 'res', 'ctor'):
                continue
            if isinstance(v, dict):
                pm[id(v)] = (x, k)
                stack.append(v)
            elif isinstance(v, list):
                for y in v:
                    if isinstance(y, dict):
                        pm[id(y)] = (x, k)
                        stack.append(y)
                    elif isinstance(y, list):
                        for z in y:
                            if isinstance(z, dict):
                                pm[id(z)] = (x, k)
                                stack.append(z)
    return pm


def ancestors(n, pm):
    """[(ancestor, slot through which we descend)] from the nearest outwards."""
    out = []
    while id(n) in pm:
        p, slot = pm[id(n)]
        out.append((p, slot))
        n = p
    return out


def range_bounds(e):
    """(lo, hi, inclusive) of a range expression `lo..hi` / `lo..=hi` (Struct Range / RangeInclusive::new call)."""
    e = strip(e)
    if e.get('k') == 'Struct' and (e['ctor'].get('path') or '').endswith(('ops::Range', 'range::Range')):
        d = dict((n, x) for n, x in e['fields'])
        return d.get('start'), d.get('end'), False
    if e.get('k') == 'Call' and (callee(e) or '').endswith('RangeInclusive::<Idx>::new'):
        return e['args'][0], e['args'][1], True
    if e.get('k') == 'Struct' and (e['ctor'].get('path') or '').endswith('RangeFrom'):
        d = dict((n, x) for n, x in e['fields'])
        return d.get('start'), None, False
    return None


def ctor_call(e, name):
    """e is `Name(args)` for a std enum constructor (Some / Ok / Err): returns args or None."""
    e = strip(e)
    if e is not None and e.get('k') == 'Call':
        c = callee(e) or ''
        if c == name or c.endswith('::' + name):
            return e['args']
    return None


def is_ctor_path(e, name):
    e = strip(e)
    p = def_path(e) if e is not None else None
    return bool(p and (p == name or p.endswith('::' + name)))


def vec_literal(e):
    """items of a `vec![a, b, ..]` literal (macro-expanded into a boxed array call), or of an array literal"""
    e = strip(e)
    if e is None:
        return None
    if e.get('k') == 'Array':
        return e['items']
    if e.get('k') == 'Call' and from_macro(e):
        c = callee(e) or ''
        if 'into_vec' in c or 'box_assume_init' in c or c.endswith('Vec::<T>::new') or 'from_elem' in c:
            if c.endswith('Vec::<T>::new'):
                return []
            arrs = [n for n in nodes(e) if n.get('k') == 'Array']
            if len(arrs) >= 1:
                return arrs[0]['items']
    if e.get('k') == 'MethodCall' and e['name'] in ('to_vec', 'into_vec') and strip(e['recv']).get('k') == 'Array':
        return strip(e['recv'])['items']
    return None


def decode_fmt_template(v):
    """`format_args!` template as lowered by this nightly: ByteStr([len, bytes.., 192(arg), .., 0]) -> 'text{}text'"""
    m = re.match(r'^ByteStr\(\[([0-9, ]*)\]', v)
    if not m:
        return None
    bs = [int(x) for x in m.group(1).split(',') if x.strip()]
    out = []
    i = 0
    while i < len(bs):
        b = bs[i]
        if b == 0:
            break
        if b >= 128:
            out.append('{}')
            i += 1
            # 0xC0 = plain next argument; other opcodes carry operands we do not interpret
            continue
        out.append(bytes(bs[i + 1:i + 1 + b]).decode('utf-8', 'replace'))
        i += 1 + b
    return ''.join(out)


def format_calls(body):
    """[(template, [argument exprs], node)] for every format_args! expansion under body"""
    out = []
    for b in nodes(body):
        if b.get('k') != 'Block' or not b['stmts']:
            continue
        lit = None
        for n in nodes(b['expr']) if b['expr'] is not None else []:
            if n.get('k') == 'Lit' and n['v'].startswith('ByteStr('):
                lit = n
                break
        if lit is None:
            continue
        first = b['stmts'][0]
        if first.get('k') != 'Let' or first.get('init') is None:
            continue
        tup = strip(first['init'])
        args = tup['items'] if tup.get('k') == 'Tup' else [tup]
        # only the innermost block that directly holds the literal
        inner_blocks = [x for x in nodes(b['expr']) if x.get('k') == 'Block' and x is not b and x['stmts'] and any(
            y.get('k') == 'Lit' and y['v'].startswith('ByteStr(') for y in nodes(x))]
        if inner_blocks:
            continue
        out.append((decode_fmt_template(lit['v']), [strip(a) for a in args], b))
    for n in nodes(body):
        # templates without arguments: Arguments::from_str / new_const("literal")
        if n.get('k') == 'Call' and (callee(n) or '').endswith(('from_str', 'new_const')) and from_macro(n):
            for a in n['args']:
                s = lit_str(a)
                if s is not None:
                    out.append((s, [], n))
    return out


def plain_field_loop(fr, root_name, field):
    """`for x in &root.field` / `root.field.iter()` with no adapter (skip/rev/filter/take/...)"""
    it = strip(fr['iter'])
    while it.get('k') == 'MethodCall' and it['name'] in ('iter', 'iter_mut', 'into_iter') and not it['args']:
        it = strip(it['recv'])
    pl = place(it)
    return pl is not None and pl[1] == root_name and pl[2] == [('f', field)]


def unconditional_calls(stmts, pred):
    """calls satisfying pred that are top-level statements of the list, with no early exit (continue/break/return/if) before them"""
    out = []
    for s in stmts:
        s0 = strip(s)
        if s0.get('k') in ('If', 'Match', 'Continue', 'Break', 'Ret') or (s0.get('k') == 'Let' and s0.get('els')):
            break
        tgt = s0
        if s0.get('k') == 'Let' and s0.get('init') is not None:
            tgt = strip(s0['init'])
        if tgt.get('k') == 'Try':
            tgt = strip(tgt['e'])
        if tgt.get('k') in ('Call', 'MethodCall') and pred(tgt):
            out.append(tgt)
    return out


def impl_method(facts, trait_prefix, self_ty, method):
    """fn key of `method` in the local impl of a trait (matched on its printed path prefix, generic args included when given)
    for the given self type — independent of the module the impl block lives in. None if absent."""
    for im in facts['impls']:
        if im['trait'] and im['trait'].startswith(trait_prefix) and im['self'] == self_ty:
            for n, k in im['methods']:
                if n == method:
                    return k
    return None


def inherent_method(facts, self_ty, method):
    """fn key of an inherent method of a local type, wherever its impl block lives"""
    for im in facts['impls']:
        if im['trait'] is None and im['self'] == self_ty:
            for n, k in im['methods']:
                if n == method:
                    return k
    return None


# ---------------------------------------------------------------- immutable let bindings

def let_env(f_or_node):
    """{local id: init expr} for every immutable `let x = <expr>;` (plain binding, no pattern) in the function: such a local IS its initialiser"""
    root = f_or_node['hir'] if 'hir' in f_or_node else f_or_node
    env = {}
    for n in nodes(root):
        if n.get('k') == 'Let' and n.get('init') is not None and n['pat'].get('k') == 'Bind' and not n['pat'].get('sub') \
                and (n['pat'].get('mode') or '') == 'BindingMode(No, Not)' and not n.get('els'):
            env[n['pat']['id']] = n['init']
    return env


def resolve(e, env, limit=8):
    """follow plain immutable locals to the expression they were bound to (top level only: the result is an expression node)"""
    while limit > 0:
        e0 = strip(e)
        l = local(e0)
        if l and l[1] in env:
            e = env[l[1]]
            limit -= 1
            continue
        return e0
    return strip(e)


def pp_resolved(e, env, depth=0):
    """pretty-print with immutable locals replaced by their initialisers (for rules that recognise a data source by its access path)"""
    e = resolve(e, env)
    if depth > 6:
        return pp(e)
    k = e.get('k')
    if k == 'MethodCall':
        return '%s.%s(%s)' % (pp_resolved(e['recv'], env, depth + 1), e['name'], ', '.join(pp_resolved(a, env, depth + 1) for a in e['args']))
    if k == 'Field':
        return '%s.%s' % (pp_resolved(e['e'], env, depth + 1), e['name'])
    if k == 'Call':
        return '%s(%s)' % (short(callee(e) or '') or pp(e['fun']), ', '.join(pp_resolved(a, env, depth + 1) for a in e['args']))
    if k in ('Cast', 'AddrOf'):
        return pp_resolved(e['e'], env, depth + 1)
    if k == 'Unary':
        return '%s%s' % ({'Not': '!', 'Neg': '-', 'Deref': '*'}.get(e['op'], e['op']), pp_resolved(e['e'], env, depth + 1))
    if k == 'Binary':
        return '%s %s %s' % (pp_resolved(e['l'], env, depth + 1), BINOP.get(e['op'], e['op']), pp_resolved(e['r'], env, depth + 1))
    return pp(e)
