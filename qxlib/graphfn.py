"""Evaluation of the graph-level default methods of `GraphLike` (adjoint, basis plugging, x_to_z, append_graph, copy, sub-graph, plug) on small
concrete diagrams, on BOTH interpreted back ends (graphsem.Backend), against reference semantics computed on a plain model (C11 / C12, DESIGN
10.1 E3b).  The diagram's scalar is a symbolic monomial sqrt2^k * e^(i pi phi) * (opaque atoms) that records what the method multiplies in."""
import itertools
from fractions import Fraction as Fr

from . import minirust, circsem as cs, graphsem
from .graphsem import Backend, VEC, HASH, vt, et, _short, Mismatch


class SymScalar(minirust.Obj):
    """sqrt2^k * e^(i pi phi) * prod(atoms): a mutable host value (scalar_mut() hands out a reference to it)"""

    def __init__(self, k=0, phi=0, atoms=()):
        self.k, self.phi, self.atoms = k, Fr(phi) % 2, tuple(sorted(atoms))
        minirust.Obj.__init__(self, 'scalar', {
            'mul_sqrt2_pow': self._sqrt2, 'mul_phase': self._phase, 'conj': lambda a: SymScalar(self.k, -self.phi, tuple(('conj', x) if not (isinstance(x, tuple) and x[0] == 'conj') else x[1] for x in self.atoms)),
            'clone': lambda a: self.mr_clone(), 'is_zero': lambda a: False,
        }, strict=False)

    def _sqrt2(self, a):
        if not (isinstance(a[0], int) and not isinstance(a[0], bool)):
            raise minirust.NoEval('sqrt2 power %r' % (a[0],))
        self.k += a[0]

    def _phase(self, a):
        p = a[0]
        if not isinstance(p, cs.Ph):
            raise minirust.NoEval('phase %r' % (p,))
        self.phi = (self.phi + p.v) % 2

    def mr_clone(self):
        return SymScalar(self.k, self.phi, self.atoms)

    def mr_assign(self, o):
        if not isinstance(o, SymScalar):
            raise minirust.NoEval('scalar assigned %r' % (o,))
        self.k, self.phi, self.atoms = o.k, o.phi, o.atoms

    def __mul__(self, o):
        if not isinstance(o, SymScalar):
            raise minirust.NoEval('scalar * %r' % (o,))
        return SymScalar(self.k + o.k, self.phi + o.phi, self.atoms + o.atoms)

    def value(self):
        return (self.k, self.phi, self.atoms)

    def __eq__(self, o):
        return isinstance(o, SymScalar) and o.value() == self.value()

    def __ne__(self, o):
        return not self == o
    __hash__ = None

    def __repr__(self):
        return 'sqrt2^%d*e^(i pi %s)%s' % (self.k, self.phi, ''.join('*%s' % (a,) for a in self.atoms))


class G:
    """plain model diagram"""

    def __init__(self, verts, edges, inputs=(), outputs=(), scalar=(0, 0, ())):
        self.v = dict(verts)                  # name -> (type, phase)
        self.e = dict((frozenset(k), t) for k, t in edges.items())
        self.inputs, self.outputs = list(inputs), list(outputs)
        self.scalar = (scalar[0], Fr(scalar[1]) % 2, tuple(sorted(scalar[2])))

    def clone(self):
        return G(self.v, dict((tuple(k), t) for k, t in self.e.items()), self.inputs, self.outputs, self.scalar)

    def nbrs(self, x):
        return sorted(y for k in self.e if x in k for y in k if y != x)

    def toggle(self, a, b):
        k = frozenset((a, b))
        self.e[k] = 'H' if self.e[k] == 'N' else 'N'


def build(facts, ty, g):
    """the model diagram on an interpreted back end: (Backend, model name -> back-end name)"""
    be = Backend(facts, ty)
    be.g['scalar'] = SymScalar(*g.scalar)
    m = {}
    for name in sorted(g.v):
        t, ph = g.v[name]
        d = {'__struct__': 'graph::VData', 'ty': vt(t), 'phase': cs.Ph(ph), 'vars': minirust.Obj('parity', {'is_empty': lambda a: True, 'clone': lambda a: None}, strict=False), 'qubit': 0.0, 'row': 0.0}
        m[name] = be.call('add_vertex_with_data', d)
    for k, t in sorted(g.e.items(), key=lambda z: sorted(z[0])):
        a, b = sorted(k)
        be.call('add_edge_with_type', m[a], m[b], et(t))
    be.call('set_inputs', [m[x] for x in g.inputs])
    be.call('set_outputs', [m[x] for x in g.outputs])
    return be, m


def read(be):
    """observable diagram of a back end, in back-end names"""
    vs = sorted(be.call('vertices'))
    verts = {}
    for v in vs:
        p = be.call('phase', v)
        if not isinstance(p, cs.Ph):
            raise minirust.NoEval('phase %r' % (p,))
        verts[v] = (_short(be.call('vertex_type', v)), p.v)
    edges = {}
    for a, b, t in be.call('edges'):
        if frozenset((a, b)) in edges:
            raise Mismatch('edges() lists the edge %d-%d twice' % (a, b))
        edges[frozenset((a, b))] = _short(t)
    sc = be.g.get('scalar')
    if not isinstance(sc, SymScalar):
        raise minirust.NoEval('scalar %r' % (sc,))
    if be.call('num_vertices') != len(verts) or be.call('num_edges') != len(edges):
        raise Mismatch('counts %s / %s do not match %d vertices / %d edges' % (be.call('num_vertices'), be.call('num_edges'), len(verts), len(edges)))
    return G(verts, dict((tuple(k), t) for k, t in edges.items()), list(be.call('inputs')), list(be.call('outputs')), sc.value())


def same(got, want, m):
    """got (back-end names) equals want (model names) under the bijection m: model -> back end"""
    b = dict((x, m[x]) for x in want.v)
    if sorted(got.v) != sorted(b.values()):
        return 'vertices %s, expected %s' % (sorted(got.v), sorted(b.values()))
    for x, (t, ph) in want.v.items():
        if got.v[b[x]] != (t, Fr(ph) % 2):
            return 'vertex %s is %s, expected %s' % (x, got.v[b[x]], (t, Fr(ph) % 2))
    we = dict((frozenset(b[y] for y in k), t) for k, t in want.e.items())
    if got.e != we:
        return 'edges %s, expected %s' % (sorted((sorted(k), t) for k, t in got.e.items()), sorted((sorted(k), t) for k, t in we.items()))
    if got.inputs != [b[x] for x in want.inputs] or got.outputs != [b[x] for x in want.outputs]:
        return 'inputs / outputs %s / %s, expected %s / %s' % (got.inputs, got.outputs, [b[x] for x in want.inputs], [b[x] for x in want.outputs])
    if got.scalar != want.scalar:
        return 'scalar sqrt2^%s e^(i pi %s) %s, expected sqrt2^%s e^(i pi %s) %s' % (got.scalar + want.scalar)
    return None


def iso(got, want, fixed):
    """some bijection extending `fixed` (model -> back end) under which got equals want; returns the reason of the last failure otherwise"""
    free_m = [x for x in sorted(want.v) if x not in fixed]
    free_b = [x for x in sorted(got.v) if x not in fixed.values()]
    if len(free_m) != len(free_b):
        return 'has %d vertices, expected %d' % (len(got.v), len(want.v))
    why = 'no vertices'
    for perm in itertools.permutations(free_b):
        m = dict(fixed)
        m.update(zip(free_m, perm))
        why = same(got, want, m)
        if why is None:
            return None
    return why


# ---------------------------------------------------------------- test diagrams

def diagrams():
    """small diagrams with boundaries: (name, G)"""
    out = []
    # two wires through a Z and an X spider, one Hadamard edge on a boundary, phases that are not self-inverse
    out.append(('two-wire', G({'i0': ('B', 0), 'i1': ('B', 0), 'z': ('Z', Fr(1, 4)), 'x': ('X', Fr(3, 4)), 'o0': ('B', 0), 'o1': ('B', 0)},
                              {('i0', 'z'): 'N', ('i1', 'x'): 'H', ('z', 'x'): 'N', ('z', 'o0'): 'H', ('x', 'o1'): 'N'}, ['i0', 'i1'], ['o0', 'o1'], (1, Fr(1, 4), ('s',)))))
    # X spiders joined to each other and to a Z spider; a state (no inputs)
    out.append(('x-cluster-state', G({'a': ('X', Fr(1, 2)), 'b': ('X', 1), 'c': ('Z', Fr(1, 4)), 'o0': ('B', 0), 'o1': ('B', 0), 'o2': ('B', 0)},
                                     {('a', 'b'): 'N', ('a', 'c'): 'H', ('b', 'c'): 'N', ('a', 'o0'): 'N', ('b', 'o1'): 'H', ('c', 'o2'): 'N'}, [], ['o0', 'o1', 'o2'], (-2, 1, ()))))
    # a bare wire next to a spider with one input and no output
    out.append(('wire-and-effect', G({'i0': ('B', 0), 'o0': ('B', 0), 'i1': ('B', 0), 'z': ('Z', Fr(7, 4))}, {('i0', 'o0'): 'N', ('i1', 'z'): 'N'}, ['i0', 'i1'], ['o0'], (0, 0, ()))))
    # three inputs into one spider (positions matter: removing from the middle of the list must keep the order of the rest)
    out.append(('three-inputs', G({'i0': ('B', 0), 'i1': ('B', 0), 'i2': ('B', 0), 'z': ('Z', Fr(1, 4)), 'x': ('X', 0), 'o0': ('B', 0)},
                                  {('i0', 'z'): 'N', ('i1', 'x'): 'N', ('i2', 'z'): 'H', ('z', 'x'): 'H', ('x', 'o0'): 'N'}, ['i0', 'i1', 'i2'], ['o0'], (0, 0, ()))))
    # identity-shaped diagrams that still carry a scalar: two plain wires; and the empty diagram with a scalar
    out.append(('identity-with-scalar', G({'i0': ('B', 0), 'o0': ('B', 0), 'i1': ('B', 0), 'o1': ('B', 0)}, {('i0', 'o0'): 'N', ('i1', 'o1'): 'N'}, ['i0', 'i1'], ['o0', 'o1'], (3, Fr(1, 2), ('t',)))))
    out.append(('scalar-only', G({}, {}, [], [], (-1, 1, ('u',)))))
    return out


BASIS = ('Z0', 'Z1', 'X0', 'X1', 'SKIP')
BPH = {'Z0': 0, 'Z1': 1, 'X0': 0, 'X1': 1}


def be_(name):
    return ('const', 'graph::BasisElem::' + name)


def ref_plug_vertex(g, v, b):
    if b == 'SKIP':
        return
    g.v[v] = ('Z', Fr(BPH[b]))
    if b in ('Z0', 'Z1'):
        g.toggle(v, g.nbrs(v)[0])


def run_all(facts, backends=(VEC, HASH)):
    """-> ({function: (ok, counterexample)}, number of evaluations)"""
    res = {}
    n = 0

    def fail(fn, msg):
        if res.setdefault(fn, [True, ''])[0]:
            res[fn] = [False, msg]

    def ok(fn):
        res.setdefault(fn, [True, ''])
    for ty in backends:
        tag = 'vector' if ty == VEC else 'hash'
        for dname, g0 in diagrams():
            # adjoint / to_adjoint
            be, m = build(facts, ty, g0)
            be.call('adjoint')
            n += 1
            want = g0.clone()
            want.v = dict((x, (t, -p)) for x, (t, p) in want.v.items())
            want.inputs, want.outputs = list(g0.outputs), list(g0.inputs)
            want.scalar = (g0.scalar[0], (-g0.scalar[1]) % 2, tuple(sorted(('conj', a) for a in g0.scalar[2])))
            why = same(read(be), want, m)
            ok('adjoint')
            if why:
                fail('adjoint', 'adjoint of the %s diagram on the %s back end: %s' % (dname, tag, why))
            be, m = build(facts, ty, g0)
            r = be.call('to_adjoint')
            n += 1
            ok('to_adjoint')
            why = same(read(Backend(facts, ty, r)), want, m) or same(read(be), g0, m)
            if why:
                fail('to_adjoint', 'to_adjoint of the %s diagram on the %s back end (result, then the untouched original): %s' % (dname, tag, why))
            # x_to_z
            be, m = build(facts, ty, g0)
            be.call('x_to_z')
            n += 1
            want = g0.clone()
            for x, (t, p) in g0.v.items():
                if t == 'X':
                    want.v[x] = ('Z', p)
                    for y in g0.nbrs(x):
                        want.toggle(x, y)
            ok('x_to_z')
            why = same(read(be), want, m)
            if why:
                fail('x_to_z', 'x_to_z of the %s diagram on the %s back end: %s' % (dname, tag, why))
            # plug_vertex / plug_input / plug_output for every basis element and position
            for side, fn in (('inputs', 'plug_input'), ('outputs', 'plug_output')):
                lst = getattr(g0, side)
                for i, b in itertools.product(range(len(lst)), BASIS):
                    be, m = build(facts, ty, g0)
                    be.call(fn, i, be_(b))
                    n += 1
                    want = g0.clone()
                    ref_plug_vertex(want, lst[i], b)
                    getattr(want, side).pop(i)
                    want.scalar = (g0.scalar[0] - 1, g0.scalar[1], g0.scalar[2])
                    ok(fn)
                    why = same(read(be), want, m)
                    if why:
                        fail(fn, '%s(%d, %s) on the %s diagram (%s back end): %s' % (fn, i, b, dname, tag, why))
            # plug_inputs / plug_outputs for every list of basis elements of every admissible length
            for side, fn in (('inputs', 'plug_inputs'), ('outputs', 'plug_outputs')):
                lst = getattr(g0, side)
                for k in range(0, len(lst) + 1):
                    for bs in itertools.product(BASIS, repeat=k):
                        if len(lst) == 3 and k == 3 and bs[0] not in ('Z1', 'SKIP'):
                            continue          # (thin out the largest family)
                        be, m = build(facts, ty, g0)
                        be.call(fn, [be_(b) for b in bs])
                        n += 1
                        want = g0.clone()
                        keep = []
                        plugged = 0
                        for i, v in enumerate(lst):
                            if i < k and bs[i] != 'SKIP':
                                ref_plug_vertex(want, v, bs[i])
                                plugged += 1
                            else:
                                keep.append(v)
                        setattr(want, side, keep)
                        want.scalar = (g0.scalar[0] - plugged, g0.scalar[1], g0.scalar[2])
                        ok(fn)
                        why = same(read(be), want, m)
                        if why:
                            fail(fn, '%s(%s) on the %s diagram (%s back end): %s' % (fn, list(bs), dname, tag, why))
            # copy / subgraph_from_vertices: vertex data and edges carried over through one vertex map
            be, m = build(facts, ty, g0)
            r = be.call('copy', False)
            n += 1
            want = g0.clone()
            want.inputs, want.outputs, want.scalar = [], [], (0, 0, ())
            got = read(_with_scalar(Backend(facts, ty, r)))
            got.inputs, got.outputs, got.scalar = [], [], (0, 0, ())
            ok('copy')
            why = iso(got, want, {})
            if why:
                fail('copy', 'copy(false) of the %s diagram on the %s back end: %s' % (dname, tag, why))
            keepv = sorted(g0.v)[1:-1]
            be, m = build(facts, ty, g0)
            r = be.call('subgraph_from_vertices', [m[x] for x in keepv])
            n += 1
            want = G(dict((x, g0.v[x]) for x in keepv), dict((tuple(k), t) for k, t in g0.e.items() if set(k) <= set(keepv)))
            got = read(_with_scalar(Backend(facts, ty, r)))
            got.inputs, got.outputs, got.scalar = [], [], (0, 0, ())
            ok('subgraph_from_vertices')
            why = iso(got, want, {})
            if why:
                fail('subgraph_from_vertices', 'the sub-graph on %s of the %s diagram (%s back end): %s' % (keepv, dname, tag, why))
        # append_graph and plug: every ordered pair of diagrams whose boundaries fit
        ds = diagrams()
        for (n1, g1), (n2, g2) in itertools.product(ds, ds):
            be1, m1 = build(facts, ty, g1)
            be2, m2 = build(facts, ty, g2)
            vmap = be1.call('append_graph', be2.g)
            n += 1
            ok('append_graph')
            want = g1.clone()
            ren = {}
            for x in g2.v:
                ren[x] = 'r_' + x
                want.v['r_' + x] = g2.v[x]
            for k, t in g2.e.items():
                want.e[frozenset(ren[y] for y in k)] = t
            want.scalar = (g1.scalar[0] + g2.scalar[0], (g1.scalar[1] + g2.scalar[1]) % 2, tuple(sorted(g1.scalar[2] + g2.scalar[2])))
            mm = dict(m1)
            okmap = isinstance(vmap, dict) and sorted(vmap) == sorted(m2.values())
            if okmap:
                for x in g2.v:
                    mm['r_' + x] = vmap[m2[x]]
            why = 'the returned map %s does not cover the appended vertices %s' % (vmap, sorted(m2.values())) if not okmap else same(read(be1), want, mm)
            if why is None and same(read(be2), g2, m2):
                why = 'the appended diagram was modified'
            if why:
                fail('append_graph', 'appending the %s diagram to the %s diagram (%s back end): %s' % (n2, n1, tag, why))
            if len(g1.outputs) != len(g2.inputs):
                continue
            be1, m1 = build(facts, ty, g1)
            be2, m2 = build(facts, ty, g2)
            be1.call('plug', be2.g)
            n += 1
            ok('plug')
            want = ref_plug(g1, g2)
            fixed = dict((x, m1[x]) for x in g1.v if x in want.v)
            why = iso(read(be1), want, fixed) if want is not None else None
            if why:
                fail('plug', 'plugging the %s diagram into the outputs of the %s diagram (%s back end): %s' % (n2, n1, tag, why))
    return dict((k, tuple(v)) for k, v in res.items()), n


def _with_scalar(be):
    if not isinstance(be.g.get('scalar'), SymScalar):
        be.g['scalar'] = SymScalar()
    return be


def ref_plug(g1, g2):
    """g2 after g1: disjoint union, each output boundary of g1 fused with the matching input boundary of g2 into one edge whose type is the parity
    of the two boundary edges' Hadamards.  Returns None when a seam would need a parallel edge or a self-loop (left to the smart-insertion rule of C01)."""
    want = g1.clone()
    ren = dict((x, 'r_' + x) for x in g2.v)
    for x in g2.v:
        want.v[ren[x]] = g2.v[x]
    for k, t in g2.e.items():
        want.e[frozenset(ren[y] for y in k)] = t
    for o, i in zip(g1.outputs, g2.inputs):
        ri = ren[i]
        no = [y for k in want.e if o in k for y in k if y != o]
        ni = [y for k in want.e if ri in k for y in k if y != ri]
        if len(no) != 1 or len(ni) != 1:
            return None
        t0, t1 = want.e[frozenset((o, no[0]))], want.e[frozenset((ri, ni[0]))]
        t = 'N' if t0 == t1 else 'H'
        del want.e[frozenset((o, no[0]))]
        del want.e[frozenset((ri, ni[0]))]
        del want.v[o]
        del want.v[ri]
        a, b = no[0], ni[0]
        if a == b or frozenset((a, b)) in want.e:
            return None
        if a == ri or b == o:
            return None
        want.e[frozenset((a, b))] = t
    want.outputs = [ren[x] for x in g2.outputs]
    want.scalar = (g1.scalar[0] + g2.scalar[0], (g1.scalar[1] + g2.scalar[1]) % 2, tuple(sorted(g1.scalar[2] + g2.scalar[2])))
    return want
