"""Liveness corpus (DESIGN 3.1 E5c / 10.6): every patch under /verif/mutants/<ID>/ and /verif/seeded/<ID>/*/patch.diff is applied to a
scratch copy of /repo's current tree (under /tmp/qxm/live-<slot>, removed afterwards); the property's quick check must report a violation
there — for own mutants one whose key contains the `# expect:` line of the patch.  A patch that no longer applies (or no longer compiles)
is `skipped`.  The behaviour-preserving refactorings under /verif/benign/<ID>/*/patch.diff are run the same way with the opposite expectation:
the check must stay silent on them (`silent`, else `FALSE-ALARM`; obligations it leaves undecided there are counted).  The result is evidence
about the checker; it never changes a property's verdict."""
import concurrent.futures as cf
import glob
import os
import queue
import re
import shutil
import subprocess
import time

VERIF = os.path.dirname(os.path.dirname(os.path.abspath(__file__)))


def corpus(pid):
    out = []
    for p in sorted(glob.glob('%s/mutants/%s/*.patch' % (VERIF, pid))):
        exp = ''
        with open(p) as f:
            l = f.readline()
            if l.startswith('# expect:'):
                exp = l[len('# expect:'):].strip()
        out.append((pid, 'mutant', os.path.basename(p)[:-6], p, exp))
    for p in sorted(glob.glob('%s/seeded/%s/*/patch.diff' % (VERIF, pid))):
        out.append((pid, 'seeded', os.path.basename(os.path.dirname(p)), p, ''))
    for p in sorted(glob.glob('%s/benign/%s/*/patch.diff' % (VERIF, pid))):
        out.append((pid, 'benign', os.path.basename(os.path.dirname(p)), p, ''))
    return out


def _one(slot, item, tag):
    pid, kind, name, patch, exp = item
    root = '/tmp/qxm/live-%s%d-%d' % (tag, os.getpid(), slot)      # (per process: two runs at the same time must not share scratch trees)
    S = root + '/repo'
    os.makedirs(S, exist_ok=True)
    subprocess.run('rsync -a --delete --exclude target --exclude .git --exclude circuits --exclude pybindings/target /repo/ %s/' % S, shell=True, check=True)
    r = subprocess.run('patch -p1 -F0 --no-backup-if-mismatch < %s' % patch, shell=True, cwd=S, stdout=subprocess.PIPE, stderr=subprocess.STDOUT, text=True)
    if r.returncode != 0:
        return dict(property=pid, kind=kind, name=name, status='skipped', why='patch does not apply to the current tree')
    env = dict(os.environ, QX_REPO=S, QX_EVIDENCE_DIR=root + '/evidence', VERIF_TIER='quick')
    r = subprocess.run([VERIF + '/bin/qx', 'check', pid, '--tier', 'quick'], env=env, stdout=subprocess.PIPE, stderr=subprocess.STDOUT, text=True)
    keys = re.findall(r'^  key    (.*)$', r.stdout, re.M)
    if 'does not build' in r.stdout:
        return dict(property=pid, kind=kind, name=name, status='skipped', why='the patched tree no longer compiles')
    if kind == 'benign':
        und = re.findall(r'^UNDECIDED property=\S+ (\S+)', r.stdout, re.M)
        bad = bool(keys) or 'CHECK-ERROR' in r.stdout
        return dict(property=pid, kind=kind, name=name, status='FALSE-ALARM' if bad else 'silent', keys=keys[:4], undecided=len(und), undecided_keys=und[:4])
    ok = bool(keys) and (not exp or any(exp in k for k in keys))
    return dict(property=pid, kind=kind, name=name, status='caught' if ok else 'MISSED', expect=exp, keys=keys[:4])


def run(ids, jobs=6, echo=None, tag='', only=None):
    items = [it for pid in ids for it in corpus(pid) if only is None or only(it)]
    t0 = time.time()
    q = queue.Queue()
    for s in range(jobs):
        q.put(s)

    def work(it):
        s = q.get()
        try:
            return _one(s, it, tag)
        finally:
            q.put(s)
    res = []
    with cf.ThreadPoolExecutor(jobs) as ex:
        for r in ex.map(work, items):
            res.append(r)
            if echo:
                echo('%-7s %s %s/%s %s' % (r['status'], r['property'], r['kind'], r['name'], r.get('why') or ', '.join(r.get('keys', [])[:2])
                                           + (' [%d undecided: %s]' % (r['undecided'], ', '.join(r['undecided_keys'][:2])) if r.get('undecided') else '')))
    for s in range(jobs):
        shutil.rmtree('/tmp/qxm/live-%s%d-%d' % (tag, os.getpid(), s), ignore_errors=True)
    return dict(total=len(res), caught=sum(r['status'] == 'caught' for r in res), skipped=sum(r['status'] == 'skipped' for r in res),
                missed=sum(r['status'] == 'MISSED' for r in res), silent=sum(r['status'] == 'silent' for r in res),
                false_alarms=sum(r['status'] == 'FALSE-ALARM' for r in res), undecided_on_benign=sum(r.get('undecided', 0) for r in res if r['kind'] == 'benign'),
                seconds=round(time.time() - t0, 1), results=res)
