"""Small-scope semantic evaluation of the rewrite rules (C01 / C04 / C10, DESIGN 10.8).

`basic_rules.rs` is interpreted from its HIR (minirust) on the interpreted `vec_graph` / `hash_graph` back ends, with `phase.rs` and `params.rs`
interpreted too; only `Scalar4` (C07's) and `Rational64` (external) are host models.  For every diagram of a stated finite family, every rule and
every choice of arguments: when the rule's matcher accepts, the rewritten diagram must denote the same linear map, scalar included, as the
original — for every assignment of the boolean variables — and when it rejects, the checked form of the rule must return false and leave the
diagram untouched.  The denotation is computed here, by a brute-force contraction over exact numbers in Q(e^{i pi/4}); it shares no code with
tensor.rs.  Nothing of the analysed crate is compiled or run."""
import itertools
from fractions import Fraction as Fr

from . import minirust, ratsem

VEC, HASH = 'vec_graph::Graph', 'hash_graph::Graph'
GL = 'graph::GraphLike'
PAR, EXPR, PHASE = 'params::Parity', 'params::Expr', 'phase::Phase'
INLINE = ('vec_graph::', '<vec_graph::', 'hash_graph::', '<hash_graph::', 'graph::', '<graph::', 'basic_rules::', 'phase::', '<phase::', '<&phase::',
          'params::', '<params::', '<&params::', 'simplify::', 'decompose::', '<decompose::')


# ----------------------------------------------------------------------------------------------------------------- exact numbers
class Qw:
    """a0 + a1 w + a2 w^2 + a3 w^3 with w = e^{i pi/4} (w^4 = -1), rational coefficients"""
    __slots__ = ('c',)

    def __init__(self, c=(0, 0, 0, 0)):
        self.c = tuple(Fr(x) for x in c)

    def __add__(self, o):
        return Qw([x + y for x, y in zip(self.c, o.c)])

    def __sub__(self, o):
        return Qw([x - y for x, y in zip(self.c, o.c)])

    def __neg__(self):
        return Qw([-x for x in self.c])

    def __mul__(self, o):
        r = [Fr(0)] * 4
        for i, x in enumerate(self.c):
            if x:
                for j, y in enumerate(o.c):
                    if y:
                        k = i + j
                        if k >= 4:
                            r[k - 4] -= x * y
                        else:
                            r[k] += x * y
        return Qw(r)

    def conj(self):
        a0, a1, a2, a3 = self.c
        return Qw((a0, -a3, -a2, -a1))

    def __eq__(self, o):
        return isinstance(o, Qw) and self.c == o.c

    def __hash__(self):
        return hash(self.c)

    def is_zero(self):
        return not any(self.c)

    def __repr__(self):
        return 'Qw(%s)' % ', '.join(str(x) for x in self.c)


Q0, Q1 = Qw((0, 0, 0, 0)), Qw((1, 0, 0, 0))
SQRT2 = Qw((0, 1, 0, -1))
INV_SQRT2 = Qw((0, Fr(1, 2), 0, Fr(-1, 2)))
_W = [Qw((1, 0, 0, 0)), Qw((0, 1, 0, 0)), Qw((0, 0, 1, 0)), Qw((0, 0, 0, 1)), Qw((-1, 0, 0, 0)), Qw((0, -1, 0, 0)), Qw((0, 0, -1, 0)), Qw((0, 0, 0, -1))]


def expi(p):
    """e^{i pi p} for p a multiple of 1/4"""
    p = Fr(p) % 2
    if (p * 4).denominator != 1:
        raise minirust.NoEval('the phase %s is not a multiple of pi/4' % p)
    return _W[int(p * 4)]


def sqrt2_pow(k):
    r = Q1
    for _ in range(abs(k)):
        r = r * (SQRT2 if k > 0 else INV_SQRT2)
    return r


def phase_value(x):
    """the rational (in units of pi) of whatever an `impl Into<Phase>` argument evaluated to"""
    if isinstance(x, minirust.Cell):
        x = x.get()
    if isinstance(x, dict) and x.get('__struct__') == PHASE:
        x = x['r']
    if isinstance(x, ratsem.Rat):
        return x.v
    if isinstance(x, int) and not isinstance(x, bool):
        return Fr(x)
    if isinstance(x, tuple) and len(x) == 2 and all(isinstance(y, int) and not isinstance(y, bool) for y in x):
        return Fr(x[0], x[1])
    raise minirust.NoEval('phase argument %r' % (x,))


class HScalar(minirust.Obj):
    """host model of Scalar4: an exact element of Q(w); mutable (scalar_mut() hands out a reference to it)"""

    def __init__(self, v=Q1):
        self.v = v
        minirust.Obj.__init__(self, 'scalar', {
            'mul_sqrt2_pow': self._sqrt2, 'mul_phase': self._phase, 'mul_one_plus_phase': self._opp, 'conj': lambda a: HScalar(self.v.conj()),
            'clone': lambda a: HScalar(self.v), 'is_zero': lambda a: self.v.is_zero(), 'is_one': lambda a: self.v == Q1,
        }, strict=True)

    def _sqrt2(self, a):
        if not (isinstance(a[0], int) and not isinstance(a[0], bool)):
            raise minirust.NoEval('sqrt2 power %r' % (a[0],))
        self.v = self.v * sqrt2_pow(a[0])
        return ()

    def _phase(self, a):
        self.v = self.v * expi(phase_value(a[0]))
        return ()

    def _opp(self, a):
        self.v = self.v * (Q1 + expi(phase_value(a[0])))
        return ()

    def mr_clone(self):
        return HScalar(self.v)

    def mr_assign(self, o):
        if not isinstance(o, HScalar):
            raise minirust.NoEval('scalar assigned %r' % (o,))
        self.v = o.v

    def _bin(self, o, f):
        if isinstance(o, minirust.Cell):
            o = o.get()
        if not isinstance(o, HScalar):
            raise minirust.NoEval('scalar with %r' % (o,))
        return HScalar(f(self.v, o.v))

    def __mul__(self, o):
        return self._bin(o, lambda a, b: a * b)

    def __add__(self, o):
        return self._bin(o, lambda a, b: a + b)

    def __sub__(self, o):
        return self._bin(o, lambda a, b: a - b)

    def __neg__(self):
        return HScalar(-self.v)

    def __eq__(self, o):
        return isinstance(o, HScalar) and o.v == self.v

    def __ne__(self, o):
        return not self == o
    __hash__ = None

    def __repr__(self):
        return 'S%r' % (self.v,)


class FactorMap(minirust.Obj):
    """host model of FxHashMap<Expr, Scalar4> (the parametrised scalar factors): an association list compared on the interpreted Expr values"""

    def __init__(self, items=()):
        self.items = [(minirust.deep_clone(k), HScalar(v.v)) for k, v in items]
        minirust.Obj.__init__(self, 'scalar_factors', {
            'get_mut': self._get, 'get': self._get, 'insert': self._insert, 'iter': lambda a: [(k, v) for k, v in self.items],
            'clone': lambda a: FactorMap(self.items), 'len': lambda a: len(self.items), 'is_empty': lambda a: not self.items,
            'contains_key': lambda a: self._get(a) != minirust.NONE, 'clear': lambda a: self.items.clear() or (),
        }, strict=True)

    def _get(self, a):
        k = a[0].get() if isinstance(a[0], minirust.Cell) else a[0]
        for kk, v in self.items:
            if kk == k:
                return minirust.some(v)
        return minirust.NONE

    def _insert(self, a):
        old = self._get(a)
        if old != minirust.NONE:
            self.items = [(kk, v) for kk, v in self.items if kk != a[0]]
        if not isinstance(a[1], HScalar):
            raise minirust.NoEval('scalar factor %r' % (a[1],))
        self.items.append((a[0], a[1]))
        return old

    def mr_clone(self):
        return FactorMap(self.items)

    def __eq__(self, o):
        return isinstance(o, FactorMap) and len(o.items) == len(self.items) and all(any(k == k2 and v == v2 for k2, v2 in o.items) for k, v in self.items)

    def __ne__(self, o):
        return not self == o
    __hash__ = None


def interp(facts, fuel=400000):
    it = minirust.Interp(fuel=fuel, facts=facts, inline=lambda c: c.startswith(INLINE))

    def hc(c, e, args):
        t = (e.get('ty') or '').strip()
        last = c.rsplit('::', 1)[-1]
        if t.endswith('scalar::Scalar4') and ('Scalar4' in c or 'scalar_traits::' in c or c.startswith(('num::', 'num_traits::', 'std::default::', '<scalar::'))):
            if last in ('one', 'default') and not e['args']:
                return HScalar(Q1)
            if last == 'zero' and not e['args']:
                return HScalar(Q0)
            if last == 'minus_one' and not e['args']:
                return HScalar(-Q1)
            if last == 'from_phase' and len(e['args']) == 1:
                return HScalar(expi(phase_value(args()[0])))
            if last == 'one_plus_phase' and len(e['args']) == 1:
                return HScalar(Q1 + expi(phase_value(args()[0])))
            if last == 'sqrt2_pow' and len(e['args']) == 1:
                return HScalar(sqrt2_pow(args()[0]))
            if last == 'from' and len(e['args']) == 1:
                a = args()[0]
                if isinstance(a, int) and not isinstance(a, bool):
                    return HScalar(Qw((a, 0, 0, 0)))
                return HScalar(expi(phase_value(a)))
            if last == 'new' and len(e['args']) == 2:
                co, pw = args()
                if not (isinstance(co, list) and len(co) == 4 and all(isinstance(x, int) and not isinstance(x, bool) for x in co) and isinstance(pw, int)):
                    raise minirust.NoEval('Scalar4::new(%r, %r)' % (co, pw))
                return HScalar(Qw(co) * Qw((Fr(2) ** pw, 0, 0, 0)))
            raise minirust.NoEval('scalar constructor %s' % c)
        if t == PHASE and last in ('from', 'into') and len(e['args']) == 1 and ('convert::From' in c or 'convert::Into' in c):
            return it.host_into(args()[0], PHASE)
        return ratsem.host_call(c, e, args)
    it.host_call = hc

    def into(recv, ty):
        if isinstance(recv, minirust.Cell):
            recv = recv.get()
        if ty == PHASE:
            if isinstance(recv, dict) and recv.get('__struct__') == PHASE:
                return recv
            src = 'i64' if (isinstance(recv, int) and not isinstance(recv, bool)) else 'num::rational::Ratio<i64>' if isinstance(recv, ratsem.Rat) else \
                '(i64, i64)' if (isinstance(recv, tuple) and len(recv) == 2 and all(isinstance(x, int) and not isinstance(x, bool) for x in recv)) else None
            k = '<%s as std::convert::From<%s>>::from' % (PHASE, src)
            if src is None or k not in facts['fns']:
                raise minirust.NoEval('conversion of %r into a phase' % (recv,))
            return it.local_call(k, [recv])
        if ('Ratio<' in ty or 'Rational' in ty) and isinstance(recv, dict) and recv.get('__struct__') == PHASE:
            return recv['r']
        return ratsem.host_into(recv, ty)
    it.host_into = into
    return it


# ----------------------------------------------------------------------------------------------------------------- diagrams
class D:
    """a model diagram: v: name -> (type 'B'|'Z'|'X', phase, vars tuple); e: frozenset -> 'N'|'H'; scalar Qw; factors [(expr, Qw)]"""

    def __init__(self, v, e, inputs=(), outputs=(), scalar=Q1, factors=()):
        self.v = dict((k, (t, Fr(p) % 2, tuple(sorted(vs)))) for k, (t, p, vs) in v.items())
        self.e = dict((frozenset(k), t) for k, t in e.items())
        self.inputs, self.outputs = list(inputs), list(outputs)
        self.scalar = scalar
        self.factors = list(factors)         # [([(vars tuple, flip)], Qw)]: multiply by the scalar when every parity of the conjunction is 1

    def variables(self):
        s = set()
        for _t, _p, vs in self.v.values():
            s.update(vs)
        for ex, _q in self.factors:
            for vs, _f in ex:
                s.update(vs)
        return sorted(s)

    def show(self):
        vs = ', '.join('%s:%s%s%s' % (k, t, ('(%s)' % p) if (p or vr) else '', ('+pi*b%s' % list(vr)) if vr else '') for k, (t, p, vr) in sorted(self.v.items(), key=lambda z: str(z[0])))
        es = ', '.join('%s%s%s' % (sorted(k, key=str)[0], '-' if t == 'N' else '~', sorted(k, key=str)[1]) for k, t in sorted(self.e.items(), key=lambda z: sorted(map(str, z[0]))))
        return '{%s | %s | in %s out %s}' % (vs, es, self.inputs, self.outputs)


def par(vs, flip=False):
    return {'__struct__': PAR, '0': list(vs), '1': bool(flip)}


def phase(p):
    p = Fr(p) % 2
    if p > 1:
        p -= 2
    return {'__struct__': PHASE, 'r': ratsem.Rat(p)}


def vt(name):
    return ('const', 'graph::VType::' + name)


def et(name):
    return ('const', 'graph::EType::' + name)


def _short(c):
    return c[1].rsplit('::', 1)[-1] if isinstance(c, tuple) and len(c) == 2 and c[0] == 'const' else c


class Backend:
    def __init__(self, facts, ty, state=None):
        self.facts, self.ty = facts, ty
        if state is None:
            state = interp(facts).local_call(self.key('new'), [])
            state['scalar'] = HScalar(Q1)
            state['scalar_factors'] = FactorMap()
        self.g = state

    def key(self, name):
        for k in ('<%s as %s>::%s' % (self.ty, GL, name), '%s::%s' % (GL, name)):
            if k in self.facts['fns']:
                return k
        raise minirust.NoEval('no method %s for %s' % (name, self.ty))

    def call(self, name, *args):
        it = interp(self.facts)
        it.self_ty.append(self.ty)
        return it.local_call(self.key(name), [self.g] + list(args))

    def fn(self, key, *args):
        """a free function generic over the graph, with this back end as its first argument"""
        it = interp(self.facts)
        it.self_ty.append(self.ty)
        return it.local_call(key, [self.g] + list(args))

    def clone(self):
        return Backend(self.facts, self.ty, minirust.deep_clone(self.g))


def build(facts, ty, d):
    be = Backend(facts, ty)
    be.g['scalar'] = HScalar(d.scalar)
    m = {}
    for name in sorted(d.v, key=str):
        t, p, vs = d.v[name]
        vd = {'__struct__': 'graph::VData', 'ty': vt(t), 'phase': phase(p), 'vars': par(vs), 'qubit': 0.0, 'row': 0.0}
        m[name] = be.call('add_vertex_with_data', vd)
    for k, t in sorted(d.e.items(), key=lambda z: sorted(map(str, z[0]))):
        a, b = sorted(k, key=str)
        be.call('add_edge_with_type', m[a], m[b], et(t))
    be.call('set_inputs', [m[x] for x in d.inputs])
    be.call('set_outputs', [m[x] for x in d.outputs])
    for ex, q in d.factors:
        be.g['scalar_factors'].items.append(({'__struct__': EXPR, '0': [par(vs, f) for vs, f in ex]}, HScalar(q)))
    return be, m


def read(be):
    """the diagram a back end holds, in its own vertex names"""
    verts = {}
    for v in sorted(be.call('vertices')):
        vd = be.call('vertex_data', v)
        if isinstance(vd, minirust.Cell):
            vd = vd.get()
        p, vr = vd['phase'], vd['vars']
        if not (isinstance(vr, dict) and vr.get('__struct__') == PAR):
            raise minirust.NoEval('vars %r' % (vr,))
        if vr['1']:
            raise minirust.NoEval('a vertex parity with a constant')
        verts[v] = (_short(vd['ty']), phase_value(p), tuple(vr['0']))
    edges = {}
    for a, b, t in be.call('edges'):
        edges[frozenset((a, b))] = _short(t)
    sc = be.g.get('scalar')
    fm = be.g.get('scalar_factors')
    if not isinstance(sc, HScalar) or not isinstance(fm, FactorMap):
        raise minirust.NoEval('scalar %r / factors %r' % (sc, fm))
    factors = []
    for k, v in fm.items:
        if not (isinstance(k, dict) and k.get('__struct__') == EXPR):
            raise minirust.NoEval('factor key %r' % (k,))
        factors.append(([(tuple(p_['0']), bool(p_['1'])) for p_ in k['0']], v.v))
    return D(verts, dict((tuple(k), t) for k, t in edges.items()), list(be.call('inputs')), list(be.call('outputs')), sc.v, factors)


# ----------------------------------------------------------------------------------------------------------------- denotation
def tensor(d, sigma):
    """the linear map of the diagram under the assignment sigma of its boolean variables: {boundary bits (inputs then outputs): Qw}, zero entries
    omitted.  Conventions (standard, and those of the library): a Z spider is sum_x e^{i pi alpha x} |x..x><x..x|, an X spider is a Z spider with a
    Hadamard on every leg, a Hadamard edge is (1/sqrt2) (-1)^{xy}.  Computed by merging the vertices joined by plain (after colour change) edges into
    classes and summing over the free classes in Gray-code order, with the amplitude kept as eight counters of powers of e^{i pi/4}."""
    bnd = list(d.inputs) + list(d.outputs)
    if sorted(bnd, key=str) != sorted((k for k, (t, _p, _v) in d.v.items() if t == 'B'), key=str) or len(set(bnd)) != len(bnd):
        raise minirust.NoEval('boundary vertices that are not exactly the inputs and outputs')
    names = sorted(d.v, key=str)
    for k in names:
        if d.v[k][0] not in ('B', 'Z', 'X'):
            raise minirust.NoEval('vertex type %s' % d.v[k][0])
    parent = dict((k, k) for k in names)

    def find(x):
        while parent[x] != x:
            parent[x] = parent[parent[x]]
            x = parent[x]
        return x
    hk = []
    nh = 0
    for e, t in d.e.items():
        if len(e) != 2:
            raise minirust.NoEval('self loop')
        a, b = tuple(e)
        if t not in ('N', 'H'):
            raise minirust.NoEval('edge type %s' % t)
        h = (t == 'H') ^ (d.v[a][0] == 'X') ^ (d.v[b][0] == 'X')
        if h:
            hk.append((a, b))
            nh += 1
        else:
            parent[find(a)] = find(b)
    scal = d.scalar
    for ex, q in d.factors:
        if all((sum(sigma[x] for x in vs) + (1 if f else 0)) % 2 == 1 for vs, f in ex):
            scal = scal * q
    scal = scal * sqrt2_pow(-nh)
    if scal.is_zero():
        return {}
    classes = sorted(set(find(k) for k in names), key=str)
    idx = dict((c, i) for i, c in enumerate(classes))
    p8 = [0] * len(classes)
    for k in names:
        t, p, vs = d.v[k]
        if t != 'B':
            q = (Fr(p) + sum(sigma[x] for x in vs)) % 2
            if (q * 4).denominator != 1:
                raise minirust.NoEval('the phase %s is not a multiple of pi/4' % q)
            p8[idx[find(k)]] = (p8[idx[find(k)]] + int(q * 4)) % 8
    adj = [0] * len(classes)          # bit mask of the classes joined to this one by an odd number of Hadamard kernels
    for a, b in hk:
        ia, ib = idx[find(a)], idx[find(b)]
        if ia == ib:
            p8[ia] = (p8[ia] + 4) % 8
        else:
            adj[ia] ^= 1 << ib
            adj[ib] ^= 1 << ia
    bclass = [idx[find(b)] for b in bnd]
    bound = sorted(set(bclass))
    free = [i for i in range(len(classes)) if i not in set(bound)]
    nf = len(free)
    out = {}
    for bb in itertools.product((0, 1), repeat=len(bnd)):
        val = {}
        ok = True
        for c, bit in zip(bclass, bb):
            if val.setdefault(c, bit) != bit:
                ok = False
                break
        if not ok:
            continue
        x = 0
        for c, bit in val.items():
            if bit:
                x |= 1 << c
        e = 0
        for c, bit in val.items():
            if bit:
                e += p8[c] + 2 * ((adj[c] & x).bit_count())       # each pair of set bound classes is seen twice: 2 * 2 = 4 per pair
        e %= 8
        counts = [0] * 8
        counts[e] += 1
        g = 0
        for step in range(1, 1 << nf):
            j = (step & -step).bit_length() - 1
            c = free[j]
            delta = p8[c] + 4 * ((adj[c] & x).bit_count())
            if (x >> c) & 1:
                x &= ~(1 << c)
                e = (e - delta) % 8
            else:
                e = (e + delta) % 8
                x |= 1 << c
            counts[e] += 1
        tot = Qw((counts[0] - counts[4], counts[1] - counts[5], counts[2] - counts[6], counts[3] - counts[7]))
        if not tot.is_zero():
            out[bb] = tot * scal
    return out


def tensor_slow(d, sigma):
    """(reference implementation, kept for the self-check of the fast one) the linear map of the diagram under the assignment sigma of its boolean variables: {boundary bits (inputs then outputs): Qw}, zero entries
    omitted.  Conventions (standard, and those of the library): a Z spider is sum_x e^{i pi alpha x} |x..x><x..x|, an X spider is a Z spider with a
    Hadamard on every leg, a Hadamard edge is (1/sqrt2) (-1)^{xy}."""
    bnd = list(d.inputs) + list(d.outputs)
    if sorted(bnd, key=str) != sorted((k for k, (t, _p, _v) in d.v.items() if t == 'B'), key=str) or len(set(bnd)) != len(bnd):
        raise minirust.NoEval('boundary vertices that are not exactly the inputs and outputs')
    names = sorted(d.v, key=str)
    spiders = [k for k in names if d.v[k][0] != 'B']
    for k in names:
        if d.v[k][0] not in ('B', 'Z', 'X'):
            raise minirust.NoEval('vertex type %s' % d.v[k][0])
    # edge kernels after colour change of the X spiders: an edge's Hadamard parity flips once per X end
    kern = []
    for e, t in d.e.items():
        a, b = tuple(e) if len(e) == 2 else (tuple(e)[0], tuple(e)[0])
        if a == b:
            raise minirust.NoEval('self loop')
        h = (t == 'H') ^ (d.v[a][0] == 'X') ^ (d.v[b][0] == 'X')
        if t not in ('N', 'H'):
            raise minirust.NoEval('edge type %s' % t)
        kern.append((a, b, h))
    ph = {}
    for k in spiders:
        _t, p, vs = d.v[k]
        ph[k] = expi(p + sum(sigma[x] for x in vs))
    scal = d.scalar
    for ex, q in d.factors:
        if all((sum(sigma[x] for x in vs) + (1 if f else 0)) % 2 == 1 for vs, f in ex):
            scal = scal * q
    nh = sum(1 for _a, _b, h in kern if h)
    scal = scal * sqrt2_pow(-nh)
    out = {}
    if scal.is_zero():
        return out
    for bb in itertools.product((0, 1), repeat=len(bnd)):
        val = dict(zip(bnd, bb))
        tot = Q0
        for sb in itertools.product((0, 1), repeat=len(spiders)):
            val.update(zip(spiders, sb))
            sign, ok = 0, True
            for a, b, h in kern:
                if h:
                    sign ^= val[a] & val[b]
                elif val[a] != val[b]:
                    ok = False
                    break
            if not ok:
                continue
            term = Q1
            for k in spiders:
                if val[k]:
                    term = term * ph[k]
            tot = tot + (-term if sign else term)
        if not tot.is_zero():
            out[bb] = tot * scal
    return out


def same_map(d0, d1, m_in, m_out):
    """d1 (in other names) denotes the same map as d0 for every assignment; boundaries correspond in order -> '' or a description"""
    vars_ = sorted(set(d0.variables()) | set(d1.variables()))
    for bits in itertools.product((0, 1), repeat=len(vars_)):
        sigma = dict(zip(vars_, bits))
        t0, t1 = tensor(d0, sigma), tensor(d1, sigma)
        if t0 != t1:
            return 'under the assignment %s the map changes from %s to %s' % (sigma, _showt(t0), _showt(t1))
    return ''


def _showt(t):
    return '{%s}' % ', '.join('%s: %s' % (''.join(map(str, k)), v.c) for k, v in sorted(t.items())) if t else 'zero'


# ----------------------------------------------------------------------------------------------------------------- rules
def rule_table(facts):
    """{wrapper key: (arity, [basic_rules callees of the wrapper in order])} for every checked rule `fn r(g, v..) -> bool` of basic_rules"""
    from . import hir
    out = {}
    for k, f in facts['fns'].items():
        if not k.startswith('basic_rules::') or k.endswith('_unchecked') or '::check_' in k:
            continue
        ins = f.get('inputs') or []
        if not ins or 'GraphLike' not in ins[0] or not ins[0].startswith('&mut') or (f.get('output') or '').strip() != 'bool':
            continue
        ar = len(ins) - 1
        if ar not in (1, 2) or any(t.strip() != 'usize' for t in ins[1:]):
            continue
        cs_ = [hir.callee(c) for c in hir.calls(f['hir']) if (hir.callee(c) or '').startswith('basic_rules::')]
        out[k] = (ar, cs_)
    return out


def state_key(be):
    """everything observable of a back end's diagram, for the no-op comparison"""
    d = read(be)
    return (tuple(sorted(d.v.items())), tuple(sorted((tuple(sorted(k)), t) for k, t in d.e.items())), tuple(d.inputs), tuple(d.outputs), d.scalar,
            tuple(sorted((tuple(ex), q.c) for ex, q in d.factors)))


def apply_rule(facts, ty, d, rule, args_model, m_cache=None):
    """-> ('accepted', '' | what is wrong) | ('rejected', '' | what is wrong) | ('panic', message)"""
    be, m = build(facts, ty, d)
    args = [m[a] for a in args_model]
    before = read(be)
    try:
        r = be.fn(rule, *args)
    except minirust.Panics as ex:
        return 'panic', str(ex)
    after = read(be)
    if r is True:
        if [m[x] for x in d.inputs] != after.inputs or [m[x] for x in d.outputs] != after.outputs:
            return 'accepted', 'the inputs / outputs change from %s / %s to %s / %s' % (before.inputs, before.outputs, after.inputs, after.outputs)
        return 'accepted', same_map(before, after, None, None)
    if r is False:
        k0 = (tuple(sorted(before.v.items())), tuple(sorted((tuple(sorted(k)), t) for k, t in before.e.items())), tuple(before.inputs), tuple(before.outputs), before.scalar, tuple(sorted((tuple(ex), q.c) for ex, q in before.factors)))
        k1 = (tuple(sorted(after.v.items())), tuple(sorted((tuple(sorted(k)), t) for k, t in after.e.items())), tuple(after.inputs), tuple(after.outputs), after.scalar, tuple(sorted((tuple(ex), q.c) for ex, q in after.factors)))
        return 'rejected', ('' if k0 == k1 else 'the rule returns false but changes the diagram to %s' % after.show())
    raise minirust.NoEval('the rule returned %r' % (r,))


P4_ = (0, Fr(1, 4), Fr(1, 2), 1)
P5_ = (0, Fr(1, 4), Fr(1, 2), 1, Fr(3, 2))


def family_one_core():
    """one core spider c (Z / X, five phases, with or without a boolean variable) with 0..3 neighbours, each carrying an output"""
    for ct in ('Z', 'X'):
        for cp in P5_:
            for cv in ((), (0,)):
                core = {'c': (ct, cp, cv)}
                yield D(core, {}, [], []), ('c',), ()
                nb1 = [(t, p, e) for t in ('Z', 'X') for p in (0, Fr(1, 4)) for e in ('H', 'N')]
                for t1, p1, e1 in nb1:
                    v = dict(core, n1=(t1, p1, ()), o1=('B', 0, ()))
                    yield D(v, {('c', 'n1'): e1, ('n1', 'o1'): 'N'}, [], ['o1']), ('c',), ('n1',)
                    for p2 in (0, Fr(1, 4)):
                        for e2 in ('H', 'N'):
                            for nn in (None, 'H'):
                                v2 = dict(v, n2=('Z', p2, (1,) if (p2 and cv) else ()), o2=('B', 0, ()))
                                e = {('c', 'n1'): e1, ('n1', 'o1'): 'N', ('c', 'n2'): e2, ('n2', 'o2'): 'N'}
                                if nn:
                                    e[('n1', 'n2')] = nn
                                yield D(v2, e, [], ['o1', 'o2']), ('c',), ('n1', 'n2')
                                if p2 == 0 and t1 == 'Z':
                                    for e3 in ('H', 'N'):
                                        for nn3 in itertools.product((None, 'H'), repeat=2):
                                            v3 = dict(v2, n3=('Z', 0, ()), o3=('B', 0, ()))
                                            ee = dict(e)
                                            ee[('c', 'n3')] = e3
                                            ee[('n3', 'o3')] = 'N'
                                            for (a, b), t in zip((('n1', 'n3'), ('n2', 'n3')), nn3):
                                                if t:
                                                    ee[(a, b)] = t
                                            yield D(v3, ee, [], ['o1', 'o2', 'o3']), ('c',), ('n1', 'n2', 'n3')


def family_two_cores(boundary_only=False):
    """two core spiders with every type / phase / edge between them, 0..2 neighbours attached to either or both, a boundary on the first core or not
    (boundary_only: the sub-family of two Hadamard-connected Z cores with a boundary on the first, where the boundary rules can match)"""
    for t0, t1 in ((('Z', 'Z'),) if boundary_only else (('Z', 'Z'), ('Z', 'X'), ('X', 'X'))):
        for p0 in (P5_ if boundary_only else P4_):
            for p1 in P4_:
                for v0, v1 in (((), ()), ((0,), ()), ((0,), (1,))):
                    for cc in (('H',) if boundary_only else (None, 'N', 'H')):
                        core = {'c0': (t0, p0, v0), 'c1': (t1, p1, v1)}
                        ce = {('c0', 'c1'): cc} if cc else {}
                        for cb in (('N', 'H') if boundary_only else (None, 'N', 'H')):
                            vb = dict(core)
                            eb = dict(ce)
                            outs = []
                            if cb:
                                vb['ob'] = ('B', 0, ())
                                eb[('c0', 'ob')] = cb
                                outs = ['ob']
                            yield D(vb, eb, [], outs), ('c0', 'c1'), ()
                            att = [('H', None), (None, 'H'), ('H', 'H'), ('N', None)]
                            for pn in (0, Fr(1, 4)):
                                for a0, a1 in att:
                                    v = dict(vb, n1=('Z', pn, ()), o1=('B', 0, ()))
                                    e = dict(eb)
                                    if a0:
                                        e[('c0', 'n1')] = a0
                                    if a1:
                                        e[('c1', 'n1')] = a1
                                    e[('n1', 'o1')] = 'N'
                                    yield D(v, e, [], outs + ['o1']), ('c0', 'c1'), ('n1',)
                                    if cb is None:
                                        for b0, b1 in att:
                                            for nn in (None, 'H'):
                                                v2 = dict(v, n2=('Z', 0, ()), o2=('B', 0, ()))
                                                e2 = dict(e)
                                                if b0:
                                                    e2[('c0', 'n2')] = b0
                                                if b1:
                                                    e2[('c1', 'n2')] = b1
                                                e2[('n2', 'o2')] = 'N'
                                                if nn:
                                                    e2[('n1', 'n2')] = nn
                                                yield D(v2, e2, [], ['o1', 'o2']), ('c0', 'c1'), ('n1', 'n2')


def family_gadgets():
    """two phase gadgets (hub - leaf) over the neighbours n1, n2 (each with an output): every pair of leaf phases, variables, neighbour sets"""
    for p0 in P5_:
        for p1 in P5_:
            for v0, v1 in (((), ()), ((0,), ()), ((0,), (1,)), ((0,), (0,))):
                for s0 in (('n1',), ('n2',), ('n1', 'n2'), ()):
                    for s1 in (('n1',), ('n2',), ('n1', 'n2'), ()):
                        v = {'h0': ('Z', 0, ()), 'l0': ('Z', p0, v0), 'h1': ('Z', 0, ()), 'l1': ('Z', p1, v1),
                             'n1': ('Z', 0, ()), 'n2': ('Z', Fr(1, 4), ()), 'o1': ('B', 0, ()), 'o2': ('B', 0, ())}
                        e = {('h0', 'l0'): 'H', ('h1', 'l1'): 'H', ('n1', 'o1'): 'N', ('n2', 'o2'): 'N'}
                        for x in s0:
                            e[('h0', x)] = 'H'
                        for x in s1:
                            e[('h1', x)] = 'H'
                        yield D(v, e, [], ['o1', 'o2']), ('h0', 'h1'), ('l0', 'l1')


def arg_tuples(d, cores, others, arity):
    """the argument tuples tried on a diagram: every tuple over the core vertices and the first two others (equal arguments included for arity 2)"""
    pool = list(cores) + list(others)[:2]
    if arity == 1:
        return [(a,) for a in pool]
    return [(a, b) for a in pool for b in pool if (a in cores or b in cores)]


def run_family(facts, ty, fam, rules, stride=1, offset=0, limit=None):
    """-> stats dict and the list of findings [(rule, diagram text, args, what)]"""
    stats = {'diagrams': 0, 'applications': 0, 'accepted': 0, 'rejected': 0, 'declined': 0, 'per_rule_accepted': {}}
    bad = []
    declined = {}
    for i, (d, cores, others) in enumerate(fam):
        if i % stride != offset:
            continue
        if limit is not None and stats['diagrams'] >= limit:
            break
        stats['diagrams'] += 1
        try:
            be0, m = build(facts, ty, d)
            before = read(be0)
        except minirust.NoEval as ex:
            stats['declined'] += 1
            declined.setdefault('build: ' + str(ex)[:70], ('-', d.show(), ()))
            continue
        vars_ = before.variables()
        sigmas = [dict(zip(vars_, bits)) for bits in itertools.product((0, 1), repeat=len(vars_))]
        t_before = None
        for rule, (ar, _cs) in rules.items():
            for args in arg_tuples(d, cores, others, ar):
                stats['applications'] += 1
                be = be0.clone()
                try:
                    try:
                        r = be.fn(rule, *[m[a] for a in args])
                    except minirust.Panics as ex:
                        bad.append((rule, d.show(), args, 'panics: %s' % ex))
                        continue
                    if r is False:
                        stats['rejected'] += 1
                        if be.g != be0.g:
                            bad.append((rule, d.show(), args, 'the rule returns false but changes the diagram to %s' % read(be).show()))
                        continue
                    if r is not True:
                        raise minirust.NoEval('the rule returned %r' % (r,))
                    stats['accepted'] += 1
                    stats['per_rule_accepted'][rule] = stats['per_rule_accepted'].get(rule, 0) + 1
                    after = read(be)
                    if after.inputs != before.inputs or after.outputs != before.outputs:
                        bad.append((rule, d.show(), args, 'the inputs / outputs change from %s / %s to %s / %s' % (before.inputs, before.outputs, after.inputs, after.outputs)))
                        continue
                    if set(after.variables()) - set(vars_):
                        bad.append((rule, d.show(), args, 'the rewritten diagram mentions the variables %s the original does not have' % sorted(set(after.variables()) - set(vars_))))
                        continue
                    if t_before is None:
                        t_before = [tensor(before, sg) for sg in sigmas]
                    for sg, t0 in zip(sigmas, t_before):
                        t1 = tensor(after, sg)
                        if t0 != t1:
                            bad.append((rule, d.show(), args, '%sthe map changes from %s to %s (rewritten diagram %s, scalar %s)'
                                        % (('under the assignment %s ' % sg) if sg else '', _showt(t0), _showt(t1), after.show(), after.scalar.c)))
                            break
                except minirust.NoEval as ex:
                    stats['declined'] += 1
                    declined.setdefault(str(ex)[:80], (rule, d.show(), args))
    stats['declined_reasons'] = declined
    return stats, bad


FAMILIES = {'one-core': family_one_core, 'two-cores': family_two_cores, 'gadgets': family_gadgets, 'boundary': lambda: family_two_cores(True)}
_G = {}


def _job(job):
    name, ty, stride, offset, sub = job
    facts, rules = _G['facts'], _G['rules']
    fam = (x for i, x in enumerate(y for y in FAMILIES[name]() if (not _G.get('vars_only') or y[0].variables())) if i % sub[0] == sub[1])
    st, bad = run_family(facts, ty, fam, rules, stride=stride, offset=offset)
    return name, ty, st, bad[:50]


def run_all(facts, plan, procs=8, vars_only=False):
    """plan: [(family, back end, take every k-th diagram)] -> (totals, findings, declined reasons)"""
    rules = rule_table(facts)
    _G['facts'], _G['rules'], _G['vars_only'] = facts, rules, vars_only
    jobs = []
    for name, ty, every in plan:
        for off in range(procs):
            jobs.append((name, ty, procs, off, (every, 0)))
    pool = None
    if procs > 1:
        try:
            import multiprocessing
            pool = multiprocessing.get_context('fork').Pool(procs)
        except Exception:
            pool = None
    try:
        results = pool.map(_job, jobs, chunksize=1) if pool is not None else [_job(j) for j in jobs]
    finally:
        if pool is not None:
            pool.terminate()
            pool.join()
    tot = {'diagrams': 0, 'applications': 0, 'accepted': 0, 'rejected': 0, 'declined': 0, 'per_rule_accepted': {}, 'rules': len(rules)}
    bad, declined = [], {}
    for name, ty, st, b in results:
        for k in ('diagrams', 'applications', 'accepted', 'rejected', 'declined'):
            tot[k] += st[k]
        for r, n in st['per_rule_accepted'].items():
            tot['per_rule_accepted'][r] = tot['per_rule_accepted'].get(r, 0) + n
        for x in b:
            bad.append((name, ty) + tuple(x))
        for k, v in st['declined_reasons'].items():
            declined.setdefault(k, v)
    return tot, bad, declined


# ----------------------------------------------------------------------------------------------------------------- simplifiers
def simplifier_table(facts):
    """every `fn s(g: &mut impl GraphLike) -> bool` of simplify.rs"""
    return sorted(k for k, f in facts['fns'].items() if k.startswith('simplify::') and len(f.get('inputs') or []) == 1 and 'GraphLike' in f['inputs'][0]
                  and f['inputs'][0].startswith('&mut') and (f.get('output') or '').strip() == 'bool')


def family_circuitlike():
    """graph-like diagrams of the kind the simplifiers are made for: two or three wires (input - spiders - output) whose spiders carry Clifford+T phases
    and are joined by Hadamard edges across wires, plus phase gadgets"""
    phases = (0, Fr(1, 4), Fr(1, 2), 1)
    for pa, pb, pc in itertools.product(phases, repeat=3):
        for cross in itertools.product((None, 'H'), repeat=3):
            for wire in ('N', 'H'):
                for gad in (None, Fr(1, 4), Fr(3, 4)):
                    v = {'i0': ('B', 0, ()), 'i1': ('B', 0, ()), 'o0': ('B', 0, ()), 'o1': ('B', 0, ()),
                         'a': ('Z', pa, ()), 'b': ('Z', pb, ()), 'c': ('Z', pc, ()), 'd': ('Z', 0, ())}
                    e = {('i0', 'a'): 'N', ('a', 'b'): wire, ('b', 'o0'): 'N', ('i1', 'c'): 'N', ('c', 'd'): 'H', ('d', 'o1'): wire}
                    for (x, y), t in zip((('a', 'c'), ('b', 'd'), ('a', 'd')), cross):
                        if t:
                            e[(x, y)] = t
                    if gad is not None:
                        v['h'] = ('Z', 0, ())
                        v['l'] = ('Z', gad, ())
                        e[('h', 'l')] = 'H'
                        e[('h', 'a')] = 'H'
                        e[('h', 'd')] = 'H'
                    yield D(v, e, ['i0', 'i1'], ['o0', 'o1']), ('a', 'b'), ('c', 'd')


FAMILIES['circuit-like'] = family_circuitlike


def _simp_job(job):
    name, ty, stride, offset, sub = job
    facts, simps = _G['facts'], _G['simps']
    st = {'diagrams': 0, 'runs': 0, 'changed': 0, 'declined': 0, 'per_simp_changed': {}}
    bad, declined = [], {}
    for i, (d, _c, _o) in enumerate(x for j, x in enumerate(FAMILIES[name]()) if j % sub[0] == sub[1]):
        if i % stride != offset:
            continue
        st['diagrams'] += 1
        try:
            be0, _m = build(facts, ty, d)
            before = read(be0)
        except minirust.NoEval as ex:
            st['declined'] += 1
            declined.setdefault('build: ' + str(ex)[:70], ('-', d.show()))
            continue
        vars_ = before.variables()
        sigmas = [dict(zip(vars_, bits)) for bits in itertools.product((0, 1), repeat=len(vars_))]
        t_before = None
        for sk in simps:
            be = be0.clone()
            st['runs'] += 1
            try:
                try:
                    r = be.fn(sk)
                except minirust.Panics as ex:
                    bad.append((sk, d.show(), (), 'panics: %s' % ex))
                    continue
                if be.g == be0.g:
                    if r is True:
                        pass        # (reports a match but leaves the diagram as it was: not a clause of the property)
                    continue
                st['changed'] += 1
                st['per_simp_changed'][sk] = st['per_simp_changed'].get(sk, 0) + 1
                after = read(be)
                # (a simplifier may renumber the vertices when it packs the graph: inputs and outputs correspond by position)
                if len(after.inputs) != len(before.inputs) or len(after.outputs) != len(before.outputs):
                    bad.append((sk, d.show(), (), 'the number of inputs / outputs changes from %d / %d to %d / %d' % (len(before.inputs), len(before.outputs), len(after.inputs), len(after.outputs))))
                    continue
                if t_before is None:
                    t_before = [tensor(before, sg) for sg in sigmas]
                for sg, t0 in zip(sigmas, t_before):
                    t1 = tensor(after, sg)
                    if t0 != t1:
                        bad.append((sk, d.show(), (), '%sthe map changes from %s to %s (simplified diagram %s, scalar %s)'
                                    % (('under the assignment %s ' % sg) if sg else '', _showt(t0), _showt(t1), after.show(), after.scalar.c)))
                        break
            except minirust.NoEval as ex:
                st['declined'] += 1
                declined.setdefault(str(ex)[:80], (sk, d.show()))
    st['declined_reasons'] = declined
    return name, ty, st, bad[:50]


def run_simplifiers(facts, plan, procs=8):
    """plan: [(family, back end, take every k-th diagram)] -> (totals, findings [(family, back end, simplifier, diagram, (), what)], declined reasons)"""
    simps = simplifier_table(facts)
    _G['facts'], _G['simps'] = facts, simps
    jobs = [(name, ty, procs, off, (every, 0)) for name, ty, every in plan for off in range(procs)]
    pool = None
    if procs > 1:
        try:
            import multiprocessing
            pool = multiprocessing.get_context('fork').Pool(procs)
        except Exception:
            pool = None
    try:
        results = pool.map(_simp_job, jobs, chunksize=1) if pool is not None else [_simp_job(j) for j in jobs]
    finally:
        if pool is not None:
            pool.terminate()
            pool.join()
    tot = {'diagrams': 0, 'runs': 0, 'changed': 0, 'declined': 0, 'per_simp_changed': {}, 'simplifiers': len(simps)}
    bad, declined = [], {}
    for name, ty, st, b in results:
        for k in ('diagrams', 'runs', 'changed', 'declined'):
            tot[k] += st[k]
        for r, n in st['per_simp_changed'].items():
            tot['per_simp_changed'][r] = tot['per_simp_changed'].get(r, 0) + n
        bad.extend((name, ty) + tuple(x) for x in b)
        for k, v in st['declined_reasons'].items():
            declined.setdefault(k, v)
    return tot, bad, declined


# ----------------------------------------------------------------------------------------------------------------- decomposition steps
DRIVERS = [
    ('decompose::BssTOnlyDriver', {'random_t': False}),
    ('decompose::BssWithCatsDriver', {'random_t': False}),
    ('decompose::SpiderCuttingDriver', {}),
]
T4 = (Fr(1, 4), Fr(3, 4), Fr(5, 4), Fr(7, 4))


def family_tspiders():
    """graph-like diagrams with k = 1..7 T-type spiders attached by Hadamard edges to two context spiders that carry the outputs; every attachment pattern of
    the first three T spiders, a few phase patterns, with and without a Hadamard edge between the first two T spiders"""
    for k in (1, 2, 3, 4, 5, 6, 7):
        for pat in itertools.product((('n1',), ('n2',), ('n1', 'n2')), repeat=min(k, 3)):
            for phs in (0, 1, 2):
                for tt in ((None, 'H') if k >= 2 else (None,)):
                    for ctx in ((0, 0), (Fr(1, 2), 1)):
                        v = {'n1': ('Z', ctx[0], ()), 'n2': ('Z', ctx[1], ()), 'o1': ('B', 0, ()), 'o2': ('B', 0, ())}
                        e = {('n1', 'o1'): 'N', ('n2', 'o2'): 'H'}
                        for i in range(k):
                            t = 't%d' % i
                            v[t] = ('Z', T4[(i * phs + (phs > 1)) % 4], ())
                            for x in (pat[i] if i < len(pat) else (('n1',) if i % 2 else ('n2',))):
                                e[(t, x)] = 'H'
                        if tt:
                            e[('t0', 't1')] = 'H'
                        yield D(v, e, [], ['o1', 'o2']), tuple('t%d' % i for i in range(k)), ('n1', 'n2')


def family_cats():
    """cat states: a Pauli centre (phase 0 or pi) joined by Hadamard edges to m = 3..6 T-type legs and to nothing else; every leg also hangs on a context
    spider with an output; legs may be joined to one another"""
    for m in (3, 4, 5, 6):
        for cp in (0, 1):
            for phs in (0, 1, 2):
                for legedges in ((), (('l0', 'l1'),), (('l0', 'l1'), ('l1', 'l2')), (('l0', 'l2'),)):
                    for pat in (0, 1, 2):
                        v = {'c': ('Z', cp, ()), 'n1': ('Z', 0, ()), 'n2': ('Z', Fr(1, 2), ()), 'o1': ('B', 0, ()), 'o2': ('B', 0, ())}
                        e = {('n1', 'o1'): 'N', ('n2', 'o2'): 'N'}
                        for i in range(m):
                            leg = 'l%d' % i
                            v[leg] = ('Z', T4[(i * phs + (phs > 1)) % 4], ())
                            e[('c', leg)] = 'H'
                            att = (('n1',), ('n2',), ('n1', 'n2'))[(i + pat) % 3]
                            for x in att:
                                e[(leg, x)] = 'H'
                        for a, b in legedges:
                            e[(a, b)] = 'H'
                        yield D(v, e, [], ['o1', 'o2']), ('c',) + tuple('l%d' % i for i in range(m)), ('n1', 'n2')


FAMILIES['t-spiders'] = family_tspiders
FAMILIES['cats'] = family_cats


def tensor_sum(ds, sigma):
    tot = {}
    for d in ds:
        for k, v in tensor(d, sigma).items():
            tot[k] = tot.get(k, Q0) + v
    return dict((k, v) for k, v in tot.items() if not v.is_zero())


def decomp_step(facts, ty, d, driver):
    """one step of a driver on the diagram -> (name of the chosen decomposition, number of terms, '' | what is wrong)"""
    be, _m = build(facts, ty, d)
    before = read(be)
    drv = dict({'__struct__': driver[0]}, **driver[1])
    it = interp(facts, 3000000)
    it.self_ty.append(ty)
    dec = it.local_call('<%s as decompose::Driver>::choose_decomp' % driver[0], [drv, be.g])
    if not (isinstance(dec, tuple) and len(dec) == 3 and dec[0] == 'ctor'):
        raise minirust.NoEval('the driver chose %r' % (dec,))
    it = interp(facts, 3000000)
    it.self_ty.append(ty)
    terms = it.local_call('decompose::apply_decomp', [be.g, dec])
    if not isinstance(terms, list) or not terms:
        raise minirust.NoEval('apply_decomp returned %r' % (terms,))
    if read(be).show() != before.show():
        return str(dec[1]).rsplit('::', 1)[-1], len(terms), 'the step changes the diagram it decomposes'
    tds = [read(Backend(facts, ty, t)) for t in terms]
    for td in tds:
        if len(td.outputs) != len(before.outputs) or len(td.inputs) != len(before.inputs):
            return str(dec[1]).rsplit('::', 1)[-1], len(terms), 'a term has %d outputs, the diagram %d' % (len(td.outputs), len(before.outputs))
    t0, t1 = tensor(before, {}), tensor_sum(tds, {})
    msg = '' if t0 == t1 else 'the %d terms sum to %s, the diagram denotes %s (chosen: %s%s)' % (len(terms), _showt(t1), _showt(t0), str(dec[1]).rsplit('::', 1)[-1], list(dec[2][0]))
    return str(dec[1]).rsplit('::', 1)[-1], len(terms), msg


def _decomp_job(job):
    name, ty, stride, offset, sub = job
    facts = _G['facts']
    st = {'diagrams': 0, 'steps': 0, 'declined': 0, 'per_decomp': {}}
    bad, declined = [], {}
    for i, (d, _c, _o) in enumerate(x for j, x in enumerate(FAMILIES[name]()) if j % sub[0] == sub[1]):
        if i % stride != offset:
            continue
        st['diagrams'] += 1
        for drv in _G['drivers']:
            try:
                try:
                    which, n, msg = decomp_step(facts, ty, d, drv)
                except minirust.Panics as ex:
                    bad.append((drv[0], d.show(), (), 'panics: %s' % ex))
                    continue
                st['steps'] += 1
                st['per_decomp'][which] = st['per_decomp'].get(which, 0) + 1
                if msg:
                    bad.append((drv[0], d.show(), (), msg))
            except minirust.NoEval as ex:
                st['declined'] += 1
                declined.setdefault(str(ex)[:80], (drv[0], d.show()))
    st['declined_reasons'] = declined
    return name, ty, st, bad[:50]


def run_decomps(facts, plan, drivers=None, procs=8):
    _G['facts'], _G['drivers'] = facts, list(drivers or DRIVERS)
    jobs = [(name, ty, procs, off, (every, 0)) for name, ty, every in plan for off in range(procs)]
    pool = None
    if procs > 1:
        try:
            import multiprocessing
            pool = multiprocessing.get_context('fork').Pool(procs)
        except Exception:
            pool = None
    try:
        results = pool.map(_decomp_job, jobs, chunksize=1) if pool is not None else [_decomp_job(j) for j in jobs]
    finally:
        if pool is not None:
            pool.terminate()
            pool.join()
    tot = {'diagrams': 0, 'steps': 0, 'declined': 0, 'per_decomp': {}}
    bad, declined = [], {}
    for name, ty, st, b in results:
        for k in ('diagrams', 'steps', 'declined'):
            tot[k] += st[k]
        for r, n in st['per_decomp'].items():
            tot['per_decomp'][r] = tot['per_decomp'].get(r, 0) + n
        bad.extend((name, ty) + tuple(x) for x in b)
        for k, v in st['declined_reasons'].items():
            declined.setdefault(k, v)
    return tot, bad, declined


def oracle_controls():
    """(the fast contraction equals the reference contraction on every 211th member of every family under every assignment;
        the oracle accepts a true identity — two fused spiders — and tells apart a wrong phase, a flipped edge type and a negated scalar)"""
    agree, n = True, 0
    for name in sorted(FAMILIES):
        for i, (d, _c, _o) in enumerate(FAMILIES[name]()):
            if i % 211:
                continue
            vs = d.variables()
            for bits in itertools.product((0, 1), repeat=len(vs)):
                sg = dict(zip(vs, bits))
                n += 1
                if tensor(d, sg) != tensor_slow(d, sg):
                    agree = False
    two = D({'i': ('B', 0, ()), 'a': ('Z', Fr(1, 4), (0,)), 'b': ('Z', Fr(1, 2), ()), 'o': ('B', 0, ())}, {('i', 'a'): 'N', ('a', 'b'): 'N', ('b', 'o'): 'H'}, ['i'], ['o'])
    one = D({'i': ('B', 0, ()), 'a': ('Z', Fr(3, 4), (0,)), 'o': ('B', 0, ())}, {('i', 'a'): 'N', ('a', 'o'): 'H'}, ['i'], ['o'])
    wrong_phase = D({'i': ('B', 0, ()), 'a': ('Z', Fr(1, 2), (0,)), 'o': ('B', 0, ())}, {('i', 'a'): 'N', ('a', 'o'): 'H'}, ['i'], ['o'])
    wrong_edge = D({'i': ('B', 0, ()), 'a': ('Z', Fr(3, 4), (0,)), 'o': ('B', 0, ())}, {('i', 'a'): 'N', ('a', 'o'): 'N'}, ['i'], ['o'])
    wrong_scalar = D({'i': ('B', 0, ()), 'a': ('Z', Fr(3, 4), (0,)), 'o': ('B', 0, ())}, {('i', 'a'): 'N', ('a', 'o'): 'H'}, ['i'], ['o'], scalar=-Q1)
    no_var = D({'i': ('B', 0, ()), 'a': ('Z', Fr(3, 4), ()), 'o': ('B', 0, ())}, {('i', 'a'): 'N', ('a', 'o'): 'H'}, ['i'], ['o'])
    apart = same_map(two, one, None, None) == '' and all(same_map(two, w, None, None) != '' for w in (wrong_phase, wrong_edge, wrong_scalar, no_var))
    return agree and n > 20, apart
