"""Small-scope semantic evaluation of the rewrite rules (C01 / C04 / C10, DESIGN 10.8).

`basic_rules.rs` is interpreted from its HIR (minirust) on the interpreted `vec_graph` / `hash_graph` back ends, with `phase.rs` and `params.rs`
interpreted too; only `Scalar4` (C07's) and `Rational64` (external) are host models.  For every diagram of a stated finite family, every rule and
every choice of arguments: when the rule's matcher accepts, the rewritten diagram must denote the same linear map, scalar included, as the
original — for every assignment of the boolean variables — and when it rejects, the checked form of the rule must return false and leave the
diagram untouched.  The denotation is computed here, by a brute-force contraction over exact numbers in Q(e^{i pi/4}); it shares no code with
tensor.rs.  Nothing of the analysed crate is compiled or run."""
import itertools
from fractions import Fraction as Fr

from . import minirust, ratsem

VEC, HASH = 'vec_graph::Graph', 'hash_graph::Graph'
GL = 'graph::GraphLike'
PAR, EXPR, PHASE = 'params::Parity', 'params::Expr', 'phase::Phase'
INLINE = ('vec_graph::', '<vec_graph::', 'hash_graph::', '<hash_graph::', 'graph::', '<graph::', 'basic_rules::', 'phase::', '<phase::', '<&phase::',
          'params::', '<params::', '<&params::', 'simplify::', 'decompose::', '<decompose::')


# ----------------------------------------------------------------------------------------------------------------- exact numbers
class Qw:
    """a0 + a1 w + a2 w^2 + a3 w^3 with w = e^{i pi/4} (w^4 = -1), rational coefficients"""
    __slots__ = ('c',)

    def __init__(self, c=(0, 0, 0, 0)):
        self.c = tuple(Fr(x) for x in c)

    def __add__(self, o):
        return Qw([x + y for x, y in zip(self.c, o.c)])

    def __sub__(self, o):
        return Qw([x - y for x, y in zip(self.c, o.c)])

    def __neg__(self):
        return Qw([-x for x in self.c])

    def __mul__(self, o):
        r = [Fr(0)] * 4
        for i, x in enumerate(self.c):
            if x:
                for j, y in enumerate(o.c):
                    if y:
                        k = i + j
                        if k >= 4:
                            r[k - 4] -= x * y
                        else:
                            r[k] += x * y
        return Qw(r)

    def conj(self):
        a0, a1, a2, a3 = self.c
        return Qw((a0, -a3, -a2, -a1))

    def __eq__(self, o):
        return isinstance(o, Qw) and self.c == o.c

    def __hash__(self):
        return hash(self.c)

    def is_zero(self):
        return not any(self.c)

    def __repr__(self):
        return 'Qw(%s)' % ', '.join(str(x) for x in self.c)


Q0, Q1 = Qw((0, 0, 0, 0)), Qw((1, 0, 0, 0))
SQRT2 = Qw((0, 1, 0, -1))
INV_SQRT2 = Qw((0, Fr(1, 2), 0, Fr(-1, 2)))
_W = [Qw((1, 0, 0, 0)), Qw((0, 1, 0, 0)), Qw((0, 0, 1, 0)), Qw((0, 0, 0, 1)), Qw((-1, 0, 0, 0)), Qw((0, -1, 0, 0)), Qw((0, 0, -1, 0)), Qw((0, 0, 0, -1))]


def expi(p):
    """e^{i pi p} for p a multiple of 1/4"""
    p = Fr(p) % 2
    if (p * 4).denominator != 1:
        raise minirust.NoEval('the phase %s is not a multiple of pi/4' % p)
    return _W[int(p * 4)]


def sqrt2_pow(k):
    r = Q1
    for _ in range(abs(k)):
        r = r * (SQRT2 if k > 0 else INV_SQRT2)
    return r


def phase_value(x):
    """the rational (in units of pi) of whatever an `impl Into<Phase>` argument evaluated to"""
    if isinstance(x, minirust.Cell):
        x = x.get()
    if isinstance(x, dict) and x.get('__struct__') == PHASE:
        x = x['r']
    if isinstance(x, ratsem.Rat):
        return x.v
    if isinstance(x, int) and not isinstance(x, bool):
        return Fr(x)
    if isinstance(x, tuple) and len(x) == 2 and all(isinstance(y, int) and not isinstance(y, bool) for y in x):
        return Fr(x[0], x[1])
    raise minirust.NoEval('phase argument %r' % (x,))


class HScalar(minirust.Obj):
    """host model of Scalar4: an exact element of Q(w); mutable (scalar_mut() hands out a reference to it)"""

    def __init__(self, v=Q1):
        self.v = v
        minirust.Obj.__init__(self, 'scalar', {
            'mul_sqrt2_pow': self._sqrt2, 'mul_phase': self._phase, 'mul_one_plus_phase': self._opp, 'conj': lambda a: HScalar(self.v.conj()),
            'clone': lambda a: HScalar(self.v), 'is_zero': lambda a: self.v.is_zero(), 'is_one': lambda a: self.v == Q1,
        }, strict=True)

    def _sqrt2(self, a):
        if not (isinstance(a[0], int) and not isinstance(a[0], bool)):
            raise minirust.NoEval('sqrt2 power %r' % (a[0],))
        self.v = self.v * sqrt2_pow(a[0])
        return ()

    def _phase(self, a):
        self.v = self.v * expi(phase_value(a[0]))
        return ()

    def _opp(self, a):
        self.v = self.v * (Q1 + expi(phase_value(a[0])))
        return ()

    def mr_clone(self):
        return HScalar(self.v)

    def mr_assign(self, o):
        if not isinstance(o, HScalar):
            raise minirust.NoEval('scalar assigned %r' % (o,))
        self.v = o.v

    def _bin(self, o, f):
        if isinstance(o, minirust.Cell):
            o = o.get()
        if not isinstance(o, HScalar):
            raise minirust.NoEval('scalar with %r' % (o,))
        return HScalar(f(self.v, o.v))

    def __mul__(self, o):
        return self._bin(o, lambda a, b: a * b)

    def __add__(self, o):
        return self._bin(o, lambda a, b: a + b)

    def __sub__(self, o):
        return self._bin(o, lambda a, b: a - b)

    def __neg__(self):
        return HScalar(-self.v)

    def __eq__(self, o):
        return isinstance(o, HScalar) and o.v == self.v

    def __ne__(self, o):
        return not self == o
    __hash__ = None

    def __repr__(self):
        return 'S%r' % (self.v,)


class FactorMap(minirust.Obj):
    """host model of FxHashMap<Expr, Scalar4> (the parametrised scalar factors): an association list compared on the interpreted Expr values"""

    def __init__(self, items=()):
        self.items = [(minirust.deep_clone(k), HScalar(v.v)) for k, v in items]
        minirust.Obj.__init__(self, 'scalar_factors', {
            'get_mut': self._get, 'get': self._get, 'insert': self._insert, 'iter': lambda a: [(k, v) for k, v in self.items],
            'clone': lambda a: FactorMap(self.items), 'len': lambda a: len(self.items), 'is_empty': lambda a: not self.items,
            'contains_key': lambda a: self._get(a) != minirust.NONE, 'clear': lambda a: self.items.clear() or (),
        }, strict=True)

    def _get(self, a):
        k = a[0].get() if isinstance(a[0], minirust.Cell) else a[0]
        for kk, v in self.items:
            if kk == k:
                return minirust.some(v)
        return minirust.NONE

    def _insert(self, a):
        old = self._get(a)
        if old != minirust.NONE:
            self.items = [(kk, v) for kk, v in self.items if kk != a[0]]
        if not isinstance(a[1], HScalar):
            raise minirust.NoEval('scalar factor %r' % (a[1],))
        self.items.append((a[0], a[1]))
        return old

    def mr_clone(self):
        return FactorMap(self.items)

    def __eq__(self, o):
        return isinstance(o, FactorMap) and len(o.items) == len(self.items) and all(any(k == k2 and v == v2 for k2, v2 in o.items) for k, v in self.items)

    def __ne__(self, o):
        return not self == o
    __hash__ = None


def interp(facts, fuel=400000):
    it = minirust.Interp(fuel=fuel, facts=facts, inline=lambda c: c.startswith(INLINE))

    def hc(c, e, args):
        t = (e.get('ty') or '').strip()
        last = c.rsplit('::', 1)[-1]
        if t.endswith('scalar::Scalar4') and ('Scalar4' in c or 'scalar_traits::' in c or c.startswith(('num::', 'num_traits::', 'std::default::', '<scalar::'))):
            if last in ('one', 'default') and not e['args']:
                return HScalar(Q1)
            if last == 'zero' and not e['args']:
                return HScalar(Q0)
            if last == 'minus_one' and not e['args']:
                return HScalar(-Q1)
            if last == 'from_phase' and len(e['args']) == 1:
                return HScalar(expi(phase_value(args()[0])))
            if last == 'one_plus_phase' and len(e['args']) == 1:
                return HScalar(Q1 + expi(phase_value(args()[0])))
            if last == 'sqrt2_pow' and len(e['args']) == 1:
                return HScalar(sqrt2_pow(args()[0]))
            if last == 'from' and len(e['args']) == 1:
                a = args()[0]
                if isinstance(a, int) and not isinstance(a, bool):
                    return HScalar(Qw((a, 0, 0, 0)))
                return HScalar(expi(phase_value(a)))
            if last == 'new' and len(e['args']) == 2:
                co, pw = args()
                if not (isinstance(co, list) and len(co) == 4 and all(isinstance(x, int) and not isinstance(x, bool) for x in co) and isinstance(pw, int)):
                    raise minirust.NoEval('Scalar4::new(%r, %r)' % (co, pw))
                return HScalar(Qw(co) * Qw((Fr(2) ** pw, 0, 0, 0)))
            raise minirust.NoEval('scalar constructor %s' % c)
        if c == GL + '::new' and not e['args'] and it.self_ty and ('<%s as %s>::new' % (it.self_ty[-1], GL)) in facts['fns']:
            g_ = it.local_call('<%s as %s>::new' % (it.self_ty[-1], GL), [])
            g_['scalar'] = HScalar(Q1)
            g_['scalar_factors'] = FactorMap()
            return g_
        if t == PHASE and last in ('from', 'into') and len(e['args']) == 1 and ('convert::From' in c or 'convert::Into' in c):
            return it.host_into(args()[0], PHASE)
        return ratsem.host_call(c, e, args)
    it.host_call = hc

    def into(recv, ty):
        if isinstance(recv, minirust.Cell):
            recv = recv.get()
        if ty == PHASE:
            if isinstance(recv, dict) and recv.get('__struct__') == PHASE:
                return recv
            src = 'i64' if (isinstance(recv, int) and not isinstance(recv, bool)) else 'num::rational::Ratio<i64>' if isinstance(recv, ratsem.Rat) else \
                '(i64, i64)' if (isinstance(recv, tuple) and len(recv) == 2 and all(isinstance(x, int) and not isinstance(x, bool) for x in recv)) else None
            k = '<%s as std::convert::From<%s>>::from' % (PHASE, src)
            if src is None or k not in facts['fns']:
                raise minirust.NoEval('conversion of %r into a phase' % (recv,))
            return it.local_call(k, [recv])
        if ('Ratio<' in ty or 'Rational' in ty) and isinstance(recv, dict) and recv.get('__struct__') == PHASE:
            return recv['r']
        return ratsem.host_into(recv, ty)
    it.host_into = into
    return it


# ----------------------------------------------------------------------------------------------------------------- diagrams
class D:
    """a model diagram: v: name -> (type 'B'|'Z'|'X', phase, vars tuple); e: frozenset -> 'N'|'H'; scalar Qw; factors [(expr, Qw)]"""

    def __init__(self, v, e, inputs=(), outputs=(), scalar=Q1, factors=()):
        self.v = dict((k, (t, Fr(p) % 2, tuple(sorted(vs)))) for k, (t, p, vs) in v.items())
        self.e = dict((frozenset(k), t) for k, t in e.items())
        self.inputs, self.outputs = list(inputs), list(outputs)
        self.scalar = scalar
        self.factors = list(factors)         # [([(vars tuple, flip)], Qw)]: multiply by the scalar when every parity of the conjunction is 1

    def variables(self):
        s = set()
        for _t, _p, vs in self.v.values():
            s.update(vs)
        for ex, _q in self.factors:
            for vs, _f in ex:
                s.update(vs)
        return sorted(s)

    def show(self):
        vs = ', '.join('%s:%s%s%s' % (k, t, ('(%s)' % p) if (p or vr) else '', ('+pi*b%s' % list(vr)) if vr else '') for k, (t, p, vr) in sorted(self.v.items(), key=lambda z: str(z[0])))
        es = ', '.join('%s%s%s' % (sorted(k, key=str)[0], '-' if t == 'N' else '~', sorted(k, key=str)[1]) for k, t in sorted(self.e.items(), key=lambda z: sorted(map(str, z[0]))))
        return '{%s | %s | in %s out %s}' % (vs, es, self.inputs, self.outputs)


def par(vs, flip=False):
    return {'__struct__': PAR, '0': list(vs), '1': bool(flip)}


def phase(p):
    p = Fr(p) % 2
    if p > 1:
        p -= 2
    return {'__struct__': PHASE, 'r': ratsem.Rat(p)}


def vt(name):
    return ('const', 'graph::VType::' + name)


def et(name):
    return ('const', 'graph::EType::' + name)


def _short(c):
    return c[1].rsplit('::', 1)[-1] if isinstance(c, tuple) and len(c) == 2 and c[0] == 'const' else c


class Backend:
    def __init__(self, facts, ty, state=None):
        self.facts, self.ty = facts, ty
        if state is None:
            state = interp(facts).local_call(self.key('new'), [])
            state['scalar'] = HScalar(Q1)
            state['scalar_factors'] = FactorMap()
        self.g = state

    def key(self, name):
        for k in ('<%s as %s>::%s' % (self.ty, GL, name), '%s::%s' % (GL, name)):
            if k in self.facts['fns']:
                return k
        raise minirust.NoEval('no method %s for %s' % (name, self.ty))

    def call(self, name, *args):
        it = interp(self.facts)
        it.self_ty.append(self.ty)
        return it.local_call(self.key(name), [self.g] + list(args))

    def fn(self, key, *args):
        """a free function generic over the graph, with this back end as its first argument"""
        it = interp(self.facts)
        it.self_ty.append(self.ty)
        return it.local_call(key, [self.g] + list(args))

    def clone(self):
        return Backend(self.facts, self.ty, minirust.deep_clone(self.g))


def build(facts, ty, d):
    be = Backend(facts, ty)
    be.g['scalar'] = HScalar(d.scalar)
    m = {}
    for name in sorted(d.v, key=str):
        t, p, vs = d.v[name]
        vd = {'__struct__': 'graph::VData', 'ty': vt(t), 'phase': phase(p), 'vars': par(vs), 'qubit': 0.0, 'row': 0.0}
        m[name] = be.call('add_vertex_with_data', vd)
    for k, t in sorted(d.e.items(), key=lambda z: sorted(map(str, z[0]))):
        a, b = sorted(k, key=str)
        be.call('add_edge_with_type', m[a], m[b], et(t))
    be.call('set_inputs', [m[x] for x in d.inputs])
    be.call('set_outputs', [m[x] for x in d.outputs])
    for ex, q in d.factors:
        be.g['scalar_factors'].items.append(({'__struct__': EXPR, '0': [par(vs, f) for vs, f in ex]}, HScalar(q)))
    return be, m


def read(be):
    """the diagram a back end holds, in its own vertex names"""
    verts = {}
    for v in sorted(be.call('vertices')):
        vd = be.call('vertex_data', v)
        if isinstance(vd, minirust.Cell):
            vd = vd.get()
        p, vr = vd['phase'], vd['vars']
        if not (isinstance(vr, dict) and vr.get('__struct__') == PAR):
            raise minirust.NoEval('vars %r' % (vr,))
        if vr['1']:
            raise minirust.NoEval('a vertex parity with a constant')
        verts[v] = (_short(vd['ty']), phase_value(p), tuple(vr['0']))
    edges = {}
    for a, b, t in be.call('edges'):
        edges[frozenset((a, b))] = _short(t)
    sc = be.g.get('scalar')
    fm = be.g.get('scalar_factors')
    if not isinstance(sc, HScalar) or not isinstance(fm, FactorMap):
        raise minirust.NoEval('scalar %r / factors %r' % (sc, fm))
    factors = []
    for k, v in fm.items:
        if not (isinstance(k, dict) and k.get('__struct__') == EXPR):
            raise minirust.NoEval('factor key %r' % (k,))
        factors.append(([(tuple(p_['0']), bool(p_['1'])) for p_ in k['0']], v.v))
    return D(verts, dict((tuple(k), t) for k, t in edges.items()), list(be.call('inputs')), list(be.call('outputs')), sc.v, factors)


# ----------------------------------------------------------------------------------------------------------------- denotation
def tensor(d, sigma):
    """the linear map of the diagram under the assignment sigma of its boolean variables: {boundary bits (inputs then outputs): Qw}, zero entries
    omitted.  Conventions (standard, and those of the library): a Z spider is sum_x e^{i pi alpha x} |x..x><x..x|, an X spider is a Z spider with a
    Hadamard on every leg, a Hadamard edge is (1/sqrt2) (-1)^{xy}.  Computed by merging the vertices joined by plain (after colour change) edges into
    classes and summing over the free classes in Gray-code order, with the amplitude kept as eight counters of powers of e^{i pi/4}."""
    bnd = list(d.inputs) + list(d.outputs)
    if sorted(bnd, key=str) != sorted((k for k, (t, _p, _v) in d.v.items() if t == 'B'), key=str) or len(set(bnd)) != len(bnd):
        raise minirust.NoEval('boundary vertices that are not exactly the inputs and outputs')
    names = sorted(d.v, key=str)
    for k in names:
        if d.v[k][0] not in ('B', 'Z', 'X'):
            raise minirust.NoEval('vertex type %s' % d.v[k][0])
    parent = dict((k, k) for k in names)

    def find(x):
        while parent[x] != x:
            parent[x] = parent[parent[x]]
            x = parent[x]
        return x
    hk = []
    nh = 0
    for e, t in d.e.items():
        if len(e) != 2:
            raise minirust.NoEval('self loop')
        a, b = tuple(e)
        if t not in ('N', 'H'):
            raise minirust.NoEval('edge type %s' % t)
        h = (t == 'H') ^ (d.v[a][0] == 'X') ^ (d.v[b][0] == 'X')
        if h:
            hk.append((a, b))
            nh += 1
        else:
            parent[find(a)] = find(b)
    scal = d.scalar
    for ex, q in d.factors:
        if all((sum(sigma[x] for x in vs) + (1 if f else 0)) % 2 == 1 for vs, f in ex):
            scal = scal * q
    scal = scal * sqrt2_pow(-nh)
    if scal.is_zero():
        return {}
    classes = sorted(set(find(k) for k in names), key=str)
    idx = dict((c, i) for i, c in enumerate(classes))
    p8 = [0] * len(classes)
    for k in names:
        t, p, vs = d.v[k]
        if t != 'B':
            q = (Fr(p) + sum(sigma[x] for x in vs)) % 2
            if (q * 4).denominator != 1:
                raise minirust.NoEval('the phase %s is not a multiple of pi/4' % q)
            p8[idx[find(k)]] = (p8[idx[find(k)]] + int(q * 4)) % 8
    adj = [0] * len(classes)          # bit mask of the classes joined to this one by an odd number of Hadamard kernels
    for a, b in hk:
        ia, ib = idx[find(a)], idx[find(b)]
        if ia == ib:
            p8[ia] = (p8[ia] + 4) % 8
        else:
            adj[ia] ^= 1 << ib
            adj[ib] ^= 1 << ia
    bclass = [idx[find(b)] for b in bnd]
    bound = sorted(set(bclass))
    free = [i for i in range(len(classes)) if i not in set(bound)]
    nf = len(free)
    out = {}
    for bb in itertools.product((0, 1), repeat=len(bnd)):
        val = {}
        ok = True
        for c, bit in zip(bclass, bb):
            if val.setdefault(c, bit) != bit:
                ok = False
                break
        if not ok:
            continue
        x = 0
        for c, bit in val.items():
            if bit:
                x |= 1 << c
        e = 0
        for c, bit in val.items():
            if bit:
                e += p8[c] + 2 * ((adj[c] & x).bit_count())       # each pair of set bound classes is seen twice: 2 * 2 = 4 per pair
        e %= 8
        counts = [0] * 8
        counts[e] += 1
        g = 0
        for step in range(1, 1 << nf):
            j = (step & -step).bit_length() - 1
            c = free[j]
            delta = p8[c] + 4 * ((adj[c] & x).bit_count())
            if (x >> c) & 1:
                x &= ~(1 << c)
                e = (e - delta) % 8
            else:
                e = (e + delta) % 8
                x |= 1 << c
            counts[e] += 1
        tot = Qw((counts[0] - counts[4], counts[1] - counts[5], counts[2] - counts[6], counts[3] - counts[7]))
        if not tot.is_zero():
            out[bb] = tot * scal
    return out


def tensor_slow(d, sigma):
    """(reference implementation, kept for the self-check of the fast one) the linear map of the diagram under the assignment sigma of its boolean variables: {boundary bits (inputs then outputs): Qw}, zero entries
    omitted.  Conventions (standard, and those of the library): a Z spider is sum_x e^{i pi alpha x} |x..x><x..x|, an X spider is a Z spider with a
    Hadamard on every leg, a Hadamard edge is (1/sqrt2) (-1)^{xy}."""
    bnd = list(d.inputs) + list(d.outputs)
    if sorted(bnd, key=str) != sorted((k for k, (t, _p, _v) in d.v.items() if t == 'B'), key=str) or len(set(bnd)) != len(bnd):
        raise minirust.NoEval('boundary vertices that are not exactly the inputs and outputs')
    names = sorted(d.v, key=str)
    spiders = [k for k in names if d.v[k][0] != 'B']
    for k in names:
        if d.v[k][0] not in ('B', 'Z', 'X'):
            raise minirust.NoEval('vertex type %s' % d.v[k][0])
    # edge kernels after colour change of the X spiders: an edge's Hadamard parity flips once per X end
    kern = []
    for e, t in d.e.items():
        a, b = tuple(e) if len(e) == 2 else (tuple(e)[0], tuple(e)[0])
        if a == b:
            raise minirust.NoEval('self loop')
        h = (t == 'H') ^ (d.v[a][0] == 'X') ^ (d.v[b][0] == 'X')
        if t not in ('N', 'H'):
            raise minirust.NoEval('edge type %s' % t)
        kern.append((a, b, h))
    ph = {}
    for k in spiders:
        _t, p, vs = d.v[k]
        ph[k] = expi(p + sum(sigma[x] for x in vs))
    scal = d.scalar
    for ex, q in d.factors:
        if all((sum(sigma[x] for x in vs) + (1 if f else 0)) % 2 == 1 for vs, f in ex):
            scal = scal * q
    nh = sum(1 for _a, _b, h in kern if h)
    scal = scal * sqrt2_pow(-nh)
    out = {}
    if scal.is_zero():
        return out
    for bb in itertools.product((0, 1), repeat=len(bnd)):
        val = dict(zip(bnd, bb))
        tot = Q0
        for sb in itertools.product((0, 1), repeat=len(spiders)):
            val.update(zip(spiders, sb))
            sign, ok = 0, True
            for a, b, h in kern:
                if h:
                    sign ^= val[a] & val[b]
                elif val[a] != val[b]:
                    ok = False
                    break
            if not ok:
                continue
            term = Q1
            for k in spiders:
                if val[k]:
                    term = term * ph[k]
            tot = tot + (-term if sign else term)
        if not tot.is_zero():
            out[bb] = tot * scal
    return out


def same_map(d0, d1, m_in, m_out):
    """d1 (in other names) denotes the same map as d0 for every assignment; boundaries correspond in order -> '' or a description"""
    vars_ = sorted(set(d0.variables()) | set(d1.variables()))
    for bits in itertools.product((0, 1), repeat=len(vars_)):
        sigma = dict(zip(vars_, bits))
        t0, t1 = tensor(d0, sigma), tensor(d1, sigma)
        if t0 != t1:
            return 'under the assignment %s the map changes from %s to %s' % (sigma, _showt(t0), _showt(t1))
    return ''


def _showt(t):
    return '{%s}' % ', '.join('%s: %s' % (''.join(map(str, k)), v.c) for k, v in sorted(t.items())) if t else 'zero'


# ----------------------------------------------------------------------------------------------------------------- rules
def rule_table(facts):
    """{wrapper key: (arity, [basic_rules callees of the wrapper in order])} for every checked rule `fn r(g, v..) -> bool` of basic_rules"""
    from . import hir
    out = {}
    for k, f in facts['fns'].items():
        if not k.startswith('basic_rules::') or k.endswith('_unchecked') or '::check_' in k:
            continue
        ins = f.get('inputs') or []
        if not ins or 'GraphLike' not in ins[0] or not ins[0].startswith('&mut') or (f.get('output') or '').strip() != 'bool':
            continue
        ar = len(ins) - 1
        if ar not in (1, 2) or any(t.strip() != 'usize' for t in ins[1:]):
            continue
        cs_ = [hir.callee(c) for c in hir.calls(f['hir']) if (hir.callee(c) or '').startswith('basic_rules::')]
        out[k] = (ar, cs_)
    return out


def state_key(be):
    """everything observable of a back end's diagram, for the no-op comparison"""
    d = read(be)
    return (tuple(sorted(d.v.items())), tuple(sorted((tuple(sorted(k)), t) for k, t in d.e.items())), tuple(d.inputs), tuple(d.outputs), d.scalar,
            tuple(sorted((tuple(ex), q.c) for ex, q in d.factors)))


def apply_rule(facts, ty, d, rule, args_model, m_cache=None):
    """-> ('accepted', '' | what is wrong) | ('rejected', '' | what is wrong) | ('panic', message)"""
    be, m = build(facts, ty, d)
    args = [m[a] for a in args_model]
    before = read(be)
    try:
        r = be.fn(rule, *args)
    except minirust.Panics as ex:
        return 'panic', str(ex)
    after = read(be)
    if r is True:
        if [m[x] for x in d.inputs] != after.inputs or [m[x] for x in d.outputs] != after.outputs:
            return 'accepted', 'the inputs / outputs change from %s / %s to %s / %s' % (before.inputs, before.outputs, after.inputs, after.outputs)
        return 'accepted', same_map(before, after, None, None)
    if r is False:
        k0 = (tuple(sorted(before.v.items())), tuple(sorted((tuple(sorted(k)), t) for k, t in before.e.items())), tuple(before.inputs), tuple(before.outputs), before.scalar, tuple(sorted((tuple(ex), q.c) for ex, q in before.factors)))
        k1 = (tuple(sorted(after.v.items())), tuple(sorted((tuple(sorted(k)), t) for k, t in after.e.items())), tuple(after.inputs), tuple(after.outputs), after.scalar, tuple(sorted((tuple(ex), q.c) for ex, q in after.factors)))
        return 'rejected', ('' if k0 == k1 else 'the rule returns false but changes the diagram to %s' % after.show())
    raise minirust.NoEval('the rule returned %r' % (r,))


P4_ = (0, Fr(1, 4), Fr(1, 2), 1)
P5_ = (0, Fr(1, 4), Fr(1, 2), 1, Fr(3, 2))


def family_one_core():
    """one core spider c (Z / X, five phases, with or without a boolean variable) with 0..3 neighbours, each carrying an output"""
    for ct in ('Z', 'X'):
        for cp in P5_:
            for cv in ((), (0,)):
                core = {'c': (ct, cp, cv)}
                yield D(core, {}, [], []), ('c',), ()
                nb1 = [(t, p, e) for t in ('Z', 'X') for p in (0, Fr(1, 4)) for e in ('H', 'N')]
                for t1, p1, e1 in nb1:
                    v = dict(core, n1=(t1, p1, ()), o1=('B', 0, ()))
                    yield D(v, {('c', 'n1'): e1, ('n1', 'o1'): 'N'}, [], ['o1']), ('c',), ('n1',)
                    for p2 in (0, Fr(1, 4)):
                        for e2 in ('H', 'N'):
                            for nn in (None, 'H'):
                                v2 = dict(v, n2=('Z', p2, (1,) if (p2 and cv) else ()), o2=('B', 0, ()))
                                e = {('c', 'n1'): e1, ('n1', 'o1'): 'N', ('c', 'n2'): e2, ('n2', 'o2'): 'N'}
                                if nn:
                                    e[('n1', 'n2')] = nn
                                yield D(v2, e, [], ['o1', 'o2']), ('c',), ('n1', 'n2')
                                if p2 == 0 and t1 == 'Z':
                                    for e3 in ('H', 'N'):
                                        for nn3 in itertools.product((None, 'H'), repeat=2):
                                            v3 = dict(v2, n3=('Z', 0, ()), o3=('B', 0, ()))
                                            ee = dict(e)
                                            ee[('c', 'n3')] = e3
                                            ee[('n3', 'o3')] = 'N'
                                            for (a, b), t in zip((('n1', 'n3'), ('n2', 'n3')), nn3):
                                                if t:
                                                    ee[(a, b)] = t
                                            yield D(v3, ee, [], ['o1', 'o2', 'o3']), ('c',), ('n1', 'n2', 'n3')


def family_two_cores(boundary_only=False):
    """two core spiders with every type / phase / edge between them, 0..2 neighbours attached to either or both, a boundary on the first core or not
    (boundary_only: the sub-family of two Hadamard-connected Z cores with a boundary on the first, where the boundary rules can match)"""
    for t0, t1 in ((('Z', 'Z'),) if boundary_only else (('Z', 'Z'), ('Z', 'X'), ('X', 'X'))):
        for p0 in (P5_ if boundary_only else P4_):
            for p1 in P4_:
                for v0, v1 in (((), ()), ((0,), ()), ((0,), (1,))):
                    for cc in (('H',) if boundary_only else (None, 'N', 'H')):
                        core = {'c0': (t0, p0, v0), 'c1': (t1, p1, v1)}
                        ce = {('c0', 'c1'): cc} if cc else {}
                        for cb in (('N', 'H') if boundary_only else (None, 'N', 'H')):
                            vb = dict(core)
                            eb = dict(ce)
                            outs = []
                            if cb:
                                vb['ob'] = ('B', 0, ())
                                eb[('c0', 'ob')] = cb
                                outs = ['ob']
                            yield D(vb, eb, [], outs), ('c0', 'c1'), ()
                            att = [('H', None), (None, 'H'), ('H', 'H'), ('N', None)]
                            for pn in (0, Fr(1, 4)):
                                for a0, a1 in att:
                                    v = dict(vb, n1=('Z', pn, ()), o1=('B', 0, ()))
                                    e = dict(eb)
                                    if a0:
                                        e[('c0', 'n1')] = a0
                                    if a1:
                                        e[('c1', 'n1')] = a1
                                    e[('n1', 'o1')] = 'N'
                                    yield D(v, e, [], outs + ['o1']), ('c0', 'c1'), ('n1',)
                                    if cb is None:
                                        for b0, b1 in att:
                                            for nn in (None, 'H'):
                                                v2 = dict(v, n2=('Z', 0, ()), o2=('B', 0, ()))
                                                e2 = dict(e)
                                                if b0:
                                                    e2[('c0', 'n2')] = b0
                                                if b1:
                                                    e2[('c1', 'n2')] = b1
                                                e2[('n2', 'o2')] = 'N'
                                                if nn:
                                                    e2[('n1', 'n2')] = nn
                                                yield D(v2, e2, [], ['o1', 'o2']), ('c0', 'c1'), ('n1', 'n2')


def family_gadgets():
    """two phase gadgets (hub - leaf) over the neighbours n1, n2 (each with an output): every pair of leaf phases, variables, neighbour sets"""
    for p0 in P5_:
        for p1 in P5_:
            for v0, v1 in (((), ()), ((0,), ()), ((0,), (1,)), ((0,), (0,))):
                for s0 in (('n1',), ('n2',), ('n1', 'n2'), ()):
                    for s1 in (('n1',), ('n2',), ('n1', 'n2'), ()):
                        v = {'h0': ('Z', 0, ()), 'l0': ('Z', p0, v0), 'h1': ('Z', 0, ()), 'l1': ('Z', p1, v1),
                             'n1': ('Z', 0, ()), 'n2': ('Z', Fr(1, 4), ()), 'o1': ('B', 0, ()), 'o2': ('B', 0, ())}
                        e = {('h0', 'l0'): 'H', ('h1', 'l1'): 'H', ('n1', 'o1'): 'N', ('n2', 'o2'): 'N'}
                        for x in s0:
                            e[('h0', x)] = 'H'
                        for x in s1:
                            e[('h1', x)] = 'H'
                        yield D(v, e, [], ['o1', 'o2']), ('h0', 'h1'), ('l0', 'l1')


def arg_tuples(d, cores, others, arity):
    """the argument tuples tried on a diagram: every tuple over the core vertices and the first two others (equal arguments included for arity 2)"""
    pool = list(cores) + list(others)[:2]
    if arity == 1:
        return [(a,) for a in pool]
    return [(a, b) for a in pool for b in pool if (a in cores or b in cores)]


def run_family(facts, ty, fam, rules, stride=1, offset=0, limit=None):
    """-> stats dict and the list of findings [(rule, diagram text, args, what)]"""
    stats = {'diagrams': 0, 'applications': 0, 'accepted': 0, 'rejected': 0, 'declined': 0, 'per_rule_accepted': {}}
    bad = []
    declined = {}
    for i, (d, cores, others) in enumerate(fam):
        if i % stride != offset:
            continue
        if limit is not None and stats['diagrams'] >= limit:
            break
        stats['diagrams'] += 1
        try:
            be0, m = build(facts, ty, d)
            before = read(be0)
        except minirust.NoEval as ex:
            stats['declined'] += 1
            declined.setdefault('build: ' + str(ex)[:70], ('-', d.show(), ()))
            continue
        vars_ = before.variables()
        sigmas = [dict(zip(vars_, bits)) for bits in itertools.product((0, 1), repeat=len(vars_))]
        t_before = None
        for rule, (ar, _cs) in rules.items():
            for args in arg_tuples(d, cores, others, ar):
                stats['applications'] += 1
                be = be0.clone()
                try:
                    try:
                        r = be.fn(rule, *[m[a] for a in args])
                    except minirust.Panics as ex:
                        bad.append((rule, d.show(), args, 'panics: %s' % ex))
                        continue
                    if r is False:
                        stats['rejected'] += 1
                        if be.g != be0.g:
                            bad.append((rule, d.show(), args, 'the rule returns false but changes the diagram to %s' % read(be).show()))
                        continue
                    if r is not True:
                        raise minirust.NoEval('the rule returned %r' % (r,))
                    stats['accepted'] += 1
                    stats['per_rule_accepted'][rule] = stats['per_rule_accepted'].get(rule, 0) + 1
                    after = read(be)
                    if after.inputs != before.inputs or after.outputs != before.outputs:
                        bad.append((rule, d.show(), args, 'the inputs / outputs change from %s / %s to %s / %s' % (before.inputs, before.outputs, after.inputs, after.outputs)))
                        continue
                    if set(after.variables()) - set(vars_):
                        bad.append((rule, d.show(), args, 'the rewritten diagram mentions the variables %s the original does not have' % sorted(set(after.variables()) - set(vars_))))
                        continue
                    if t_before is None:
                        t_before = [tensor(before, sg) for sg in sigmas]
                    for sg, t0 in zip(sigmas, t_before):
                        t1 = tensor(after, sg)
                        if t0 != t1:
                            bad.append((rule, d.show(), args, '%sthe map changes from %s to %s (rewritten diagram %s, scalar %s)'
                                        % (('under the assignment %s ' % sg) if sg else '', _showt(t0), _showt(t1), after.show(), after.scalar.c)))
                            break
                except minirust.NoEval as ex:
                    stats['declined'] += 1
                    declined.setdefault(str(ex)[:80], (rule, d.show(), args))
    stats['declined_reasons'] = declined
    return stats, bad


FAMILIES = {'one-core': family_one_core, 'two-cores': family_two_cores, 'gadgets': family_gadgets, 'boundary': lambda: family_two_cores(True)}
_G = {}


def _job(job):
    name, ty, stride, offset, sub = job
    facts, rules = _G['facts'], _G['rules']
    fam = (x for i, x in enumerate(y for y in FAMILIES[name]() if (not _G.get('vars_only') or y[0].variables())) if i % sub[0] == sub[1])
    st, bad = run_family(facts, ty, fam, rules, stride=stride, offset=offset)
    return name, ty, st, bad[:50]


def run_all(facts, plan, procs=8, vars_only=False):
    """plan: [(family, back end, take every k-th diagram)] -> (totals, findings, declined reasons)"""
    rules = rule_table(facts)
    _G['facts'], _G['rules'], _G['vars_only'] = facts, rules, vars_only
    jobs = []
    for name, ty, every in plan:
        for off in range(procs):
            jobs.append((name, ty, procs, off, (every, 0)))
    pool = None
    if procs > 1:
        try:
            import multiprocessing
            pool = multiprocessing.get_context('fork').Pool(procs)
        except Exception:
            pool = None
    try:
        results = pool.map(_job, jobs, chunksize=1) if pool is not None else [_job(j) for j in jobs]
    finally:
        if pool is not None:
            pool.terminate()
            pool.join()
    tot = {'diagrams': 0, 'applications': 0, 'accepted': 0, 'rejected': 0, 'declined': 0, 'per_rule_accepted': {}, 'rules': len(rules)}
    bad, declined = [], {}
    for name, ty, st, b in results:
        for k in ('diagrams', 'applications', 'accepted', 'rejected', 'declined'):
            tot[k] += st[k]
        for r, n in st['per_rule_accepted'].items():
            tot['per_rule_accepted'][r] = tot['per_rule_accepted'].get(r, 0) + n
        for x in b:
            bad.append((name, ty) + tuple(x))
        for k, v in st['declined_reasons'].items():
            declined.setdefault(k, v)
    return tot, bad, declined


# ----------------------------------------------------------------------------------------------------------------- simplifiers
def simplifier_table(facts):
    """every `fn s(g: &mut impl GraphLike) -> bool` of simplify.rs"""
    return sorted(k for k, f in facts['fns'].items() if k.startswith('simplify::') and len(f.get('inputs') or []) == 1 and 'GraphLike' in f['inputs'][0]
                  and f['inputs'][0].startswith('&mut') and (f.get('output') or '').strip() == 'bool')


def family_circuitlike():
    """graph-like diagrams of the kind the simplifiers are made for: two or three wires (input - spiders - output) whose spiders carry Clifford+T phases
    and are joined by Hadamard edges across wires, plus phase gadgets"""
    phases = (0, Fr(1, 4), Fr(1, 2), 1)
    for pa, pb, pc in itertools.product(phases, repeat=3):
        for cross in itertools.product((None, 'H'), repeat=3):
            for wire in ('N', 'H'):
                for gad in (None, Fr(1, 4), Fr(3, 4)):
                    v = {'i0': ('B', 0, ()), 'i1': ('B', 0, ()), 'o0': ('B', 0, ()), 'o1': ('B', 0, ()),
                         'a': ('Z', pa, ()), 'b': ('Z', pb, ()), 'c': ('Z', pc, ()), 'd': ('Z', 0, ())}
                    e = {('i0', 'a'): 'N', ('a', 'b'): wire, ('b', 'o0'): 'N', ('i1', 'c'): 'N', ('c', 'd'): 'H', ('d', 'o1'): wire}
                    for (x, y), t in zip((('a', 'c'), ('b', 'd'), ('a', 'd')), cross):
                        if t:
                            e[(x, y)] = t
                    if gad is not None:
                        v['h'] = ('Z', 0, ())
                        v['l'] = ('Z', gad, ())
                        e[('h', 'l')] = 'H'
                        e[('h', 'a')] = 'H'
                        e[('h', 'd')] = 'H'
                    yield D(v, e, ['i0', 'i1'], ['o0', 'o1']), ('a', 'b'), ('c', 'd')


FAMILIES['circuit-like'] = family_circuitlike


def _simp_job(job):
    name, ty, stride, offset, sub = job
    facts, simps = _G['facts'], _G['simps']
    st = {'diagrams': 0, 'runs': 0, 'changed': 0, 'declined': 0, 'per_simp_changed': {}}
    bad, declined = [], {}
    for i, (d, _c, _o) in enumerate(x for j, x in enumerate(FAMILIES[name]()) if j % sub[0] == sub[1]):
        if i % stride != offset:
            continue
        st['diagrams'] += 1
        try:
            be0, _m = build(facts, ty, d)
            before = read(be0)
        except minirust.NoEval as ex:
            st['declined'] += 1
            declined.setdefault('build: ' + str(ex)[:70], ('-', d.show()))
            continue
        vars_ = before.variables()
        sigmas = [dict(zip(vars_, bits)) for bits in itertools.product((0, 1), repeat=len(vars_))]
        t_before = None
        for sk in simps:
            be = be0.clone()
            st['runs'] += 1
            try:
                try:
                    r = be.fn(sk)
                except minirust.Panics as ex:
                    bad.append((sk, d.show(), (), 'panics: %s' % ex))
                    continue
                if be.g == be0.g:
                    if r is True:
                        pass        # (reports a match but leaves the diagram as it was: not a clause of the property)
                    continue
                st['changed'] += 1
                st['per_simp_changed'][sk] = st['per_simp_changed'].get(sk, 0) + 1
                after = read(be)
                # (a simplifier may renumber the vertices when it packs the graph: inputs and outputs correspond by position)
                if len(after.inputs) != len(before.inputs) or len(after.outputs) != len(before.outputs):
                    bad.append((sk, d.show(), (), 'the number of inputs / outputs changes from %d / %d to %d / %d' % (len(before.inputs), len(before.outputs), len(after.inputs), len(after.outputs))))
                    continue
                if t_before is None:
                    t_before = [tensor(before, sg) for sg in sigmas]
                for sg, t0 in zip(sigmas, t_before):
                    t1 = tensor(after, sg)
                    if t0 != t1:
                        bad.append((sk, d.show(), (), '%sthe map changes from %s to %s (simplified diagram %s, scalar %s)'
                                    % (('under the assignment %s ' % sg) if sg else '', _showt(t0), _showt(t1), after.show(), after.scalar.c)))
                        break
            except minirust.NoEval as ex:
                st['declined'] += 1
                declined.setdefault(str(ex)[:80], (sk, d.show()))
    st['declined_reasons'] = declined
    return name, ty, st, bad[:50]


def run_simplifiers(facts, plan, procs=8):
    """plan: [(family, back end, take every k-th diagram)] -> (totals, findings [(family, back end, simplifier, diagram, (), what)], declined reasons)"""
    simps = simplifier_table(facts)
    _G['facts'], _G['simps'] = facts, simps
    jobs = [(name, ty, procs, off, (every, 0)) for name, ty, every in plan for off in range(procs)]
    pool = None
    if procs > 1:
        try:
            import multiprocessing
            pool = multiprocessing.get_context('fork').Pool(procs)
        except Exception:
            pool = None
    try:
        results = pool.map(_simp_job, jobs, chunksize=1) if pool is not None else [_simp_job(j) for j in jobs]
    finally:
        if pool is not None:
            pool.terminate()
            pool.join()
    tot = {'diagrams': 0, 'runs': 0, 'changed': 0, 'declined': 0, 'per_simp_changed': {}, 'simplifiers': len(simps)}
    bad, declined = [], {}
    for name, ty, st, b in results:
        for k in ('diagrams', 'runs', 'changed', 'declined'):
            tot[k] += st[k]
        for r, n in st['per_simp_changed'].items():
            tot['per_simp_changed'][r] = tot['per_simp_changed'].get(r, 0) + n
        bad.extend((name, ty) + tuple(x) for x in b)
        for k, v in st['declined_reasons'].items():
            declined.setdefault(k, v)
    return tot, bad, declined


# ----------------------------------------------------------------------------------------------------------------- decomposition steps
DRIVERS = [
    ('decompose::BssTOnlyDriver', {'random_t': False}),
    ('decompose::BssWithCatsDriver', {'random_t': False}),
    ('decompose::SpiderCuttingDriver', {}),
]
T4 = (Fr(1, 4), Fr(3, 4), Fr(5, 4), Fr(7, 4))


def family_tspiders():
    """graph-like diagrams with k = 1..7 T-type spiders attached by Hadamard edges to two context spiders that carry the outputs; every attachment pattern of
    the first three T spiders, a few phase patterns, with and without a Hadamard edge between the first two T spiders"""
    for k in (1, 2, 3, 4, 5, 6, 7):
        for pat in itertools.product((('n1',), ('n2',), ('n1', 'n2')), repeat=min(k, 3)):
            for phs in (0, 1, 2):
                for tt in ((None, 'H') if k >= 2 else (None,)):
                    for ctx in ((0, 0), (Fr(1, 2), 1)):
                        v = {'n1': ('Z', ctx[0], ()), 'n2': ('Z', ctx[1], ()), 'o1': ('B', 0, ()), 'o2': ('B', 0, ())}
                        e = {('n1', 'o1'): 'N', ('n2', 'o2'): 'H'}
                        for i in range(k):
                            t = 't%d' % i
                            v[t] = ('Z', T4[(i * phs + (phs > 1)) % 4], ())
                            for x in (pat[i] if i < len(pat) else (('n1',) if i % 2 else ('n2',))):
                                e[(t, x)] = 'H'
                        if tt:
                            e[('t0', 't1')] = 'H'
                        yield D(v, e, [], ['o1', 'o2']), tuple('t%d' % i for i in range(k)), ('n1', 'n2')


def family_cats():
    """cat states: a Pauli centre (phase 0 or pi) joined by Hadamard edges to m = 3..6 T-type legs and to nothing else; every leg also hangs on a context
    spider with an output; legs may be joined to one another"""
    for m in (3, 4, 5, 6):
        for cp in (0, 1):
            for phs in (0, 1, 2):
                for legedges in ((), (('l0', 'l1'),), (('l0', 'l1'), ('l1', 'l2')), (('l0', 'l2'),)):
                    for pat in (0, 1, 2):
                        v = {'c': ('Z', cp, ()), 'n1': ('Z', 0, ()), 'n2': ('Z', Fr(1, 2), ()), 'o1': ('B', 0, ()), 'o2': ('B', 0, ())}
                        e = {('n1', 'o1'): 'N', ('n2', 'o2'): 'N'}
                        for i in range(m):
                            leg = 'l%d' % i
                            v[leg] = ('Z', T4[(i * phs + (phs > 1)) % 4], ())
                            e[('c', leg)] = 'H'
                            att = (('n1',), ('n2',), ('n1', 'n2'))[(i + pat) % 3]
                            for x in att:
                                e[(leg, x)] = 'H'
                        for a, b in legedges:
                            e[(a, b)] = 'H'
                        yield D(v, e, [], ['o1', 'o2']), ('c',) + tuple('l%d' % i for i in range(m)), ('n1', 'n2')


FAMILIES['t-spiders'] = family_tspiders
FAMILIES['cats'] = family_cats


def tensor_sum(ds, sigma):
    tot = {}
    for d in ds:
        for k, v in tensor(d, sigma).items():
            tot[k] = tot.get(k, Q0) + v
    return dict((k, v) for k, v in tot.items() if not v.is_zero())


def decomp_step(facts, ty, d, driver):
    """one step of a driver on the diagram -> (name of the chosen decomposition, number of terms, '' | what is wrong)"""
    be, _m = build(facts, ty, d)
    before = read(be)
    drv = dict({'__struct__': driver[0]}, **driver[1])
    it = interp(facts, 3000000)
    it.self_ty.append(ty)
    dec = it.local_call('<%s as decompose::Driver>::choose_decomp' % driver[0], [drv, be.g])
    if not (isinstance(dec, tuple) and len(dec) == 3 and dec[0] == 'ctor'):
        raise minirust.NoEval('the driver chose %r' % (dec,))
    it = interp(facts, 3000000)
    it.self_ty.append(ty)
    terms = it.local_call('decompose::apply_decomp', [be.g, dec])
    if not isinstance(terms, list) or not terms:
        raise minirust.NoEval('apply_decomp returned %r' % (terms,))
    if read(be).show() != before.show():
        return str(dec[1]).rsplit('::', 1)[-1], len(terms), 'the step changes the diagram it decomposes'
    tds = [read(Backend(facts, ty, t)) for t in terms]
    for td in tds:
        if len(td.outputs) != len(before.outputs) or len(td.inputs) != len(before.inputs):
            return str(dec[1]).rsplit('::', 1)[-1], len(terms), 'a term has %d outputs, the diagram %d' % (len(td.outputs), len(before.outputs))
    t0, t1 = tensor(before, {}), tensor_sum(tds, {})
    msg = '' if t0 == t1 else 'the %d terms sum to %s, the diagram denotes %s (chosen: %s%s)' % (len(terms), _showt(t1), _showt(t0), str(dec[1]).rsplit('::', 1)[-1], list(dec[2][0]))
    return str(dec[1]).rsplit('::', 1)[-1], len(terms), msg


def _decomp_job(job):
    name, ty, stride, offset, sub = job
    facts = _G['facts']
    st = {'diagrams': 0, 'steps': 0, 'declined': 0, 'per_decomp': {}}
    bad, declined = [], {}
    for i, (d, _c, _o) in enumerate(x for j, x in enumerate(FAMILIES[name]()) if j % sub[0] == sub[1]):
        if i % stride != offset:
            continue
        st['diagrams'] += 1
        for drv in _G['drivers']:
            try:
                try:
                    which, n, msg = decomp_step(facts, ty, d, drv)
                except minirust.Panics as ex:
                    bad.append((drv[0], d.show(), (), 'panics: %s' % ex))
                    continue
                st['steps'] += 1
                st['per_decomp'][which] = st['per_decomp'].get(which, 0) + 1
                if msg:
                    bad.append((drv[0], d.show(), (), msg))
            except minirust.NoEval as ex:
                st['declined'] += 1
                declined.setdefault(str(ex)[:80], (drv[0], d.show()))
    st['declined_reasons'] = declined
    return name, ty, st, bad[:50]


def run_decomps(facts, plan, drivers=None, procs=8):
    _G['facts'], _G['drivers'] = facts, list(drivers or DRIVERS)
    jobs = [(name, ty, procs, off, (every, 0)) for name, ty, every in plan for off in range(procs)]
    pool = None
    if procs > 1:
        try:
            import multiprocessing
            pool = multiprocessing.get_context('fork').Pool(procs)
        except Exception:
            pool = None
    try:
        results = pool.map(_decomp_job, jobs, chunksize=1) if pool is not None else [_decomp_job(j) for j in jobs]
    finally:
        if pool is not None:
            pool.terminate()
            pool.join()
    tot = {'diagrams': 0, 'steps': 0, 'declined': 0, 'per_decomp': {}}
    bad, declined = [], {}
    for name, ty, st, b in results:
        for k in ('diagrams', 'steps', 'declined'):
            tot[k] += st[k]
        for r, n in st['per_decomp'].items():
            tot['per_decomp'][r] = tot['per_decomp'].get(r, 0) + n
        bad.extend((name, ty) + tuple(x) for x in b)
        for k, v in st['declined_reasons'].items():
            declined.setdefault(k, v)
    return tot, bad, declined


def oracle_controls():
    """(the fast contraction equals the reference contraction on every 211th member of every family under every assignment;
        the oracle accepts a true identity — two fused spiders — and tells apart a wrong phase, a flipped edge type and a negated scalar)"""
    agree, n = True, 0
    for name in sorted(FAMILIES):
        for i, (d, _c, _o) in enumerate(FAMILIES[name]()):
            if i % 211:
                continue
            vs = d.variables()
            for bits in itertools.product((0, 1), repeat=len(vs)):
                sg = dict(zip(vs, bits))
                n += 1
                if tensor(d, sg) != tensor_slow(d, sg):
                    agree = False
    two = D({'i': ('B', 0, ()), 'a': ('Z', Fr(1, 4), (0,)), 'b': ('Z', Fr(1, 2), ()), 'o': ('B', 0, ())}, {('i', 'a'): 'N', ('a', 'b'): 'N', ('b', 'o'): 'H'}, ['i'], ['o'])
    one = D({'i': ('B', 0, ()), 'a': ('Z', Fr(3, 4), (0,)), 'o': ('B', 0, ())}, {('i', 'a'): 'N', ('a', 'o'): 'H'}, ['i'], ['o'])
    wrong_phase = D({'i': ('B', 0, ()), 'a': ('Z', Fr(1, 2), (0,)), 'o': ('B', 0, ())}, {('i', 'a'): 'N', ('a', 'o'): 'H'}, ['i'], ['o'])
    wrong_edge = D({'i': ('B', 0, ()), 'a': ('Z', Fr(3, 4), (0,)), 'o': ('B', 0, ())}, {('i', 'a'): 'N', ('a', 'o'): 'N'}, ['i'], ['o'])
    wrong_scalar = D({'i': ('B', 0, ()), 'a': ('Z', Fr(3, 4), (0,)), 'o': ('B', 0, ())}, {('i', 'a'): 'N', ('a', 'o'): 'H'}, ['i'], ['o'], scalar=-Q1)
    no_var = D({'i': ('B', 0, ()), 'a': ('Z', Fr(3, 4), ()), 'o': ('B', 0, ())}, {('i', 'a'): 'N', ('a', 'o'): 'H'}, ['i'], ['o'])
    apart = same_map(two, one, None, None) == '' and all(same_map(two, w, None, None) != '' for w in (wrong_phase, wrong_edge, wrong_scalar, no_var))
    return agree and n > 20, apart


# ----------------------------------------------------------------------------------------------------------------- circuit -> diagram (C02)
def gate(kind, qs, ph=0):
    return {'__struct__': 'gate::Gate', 't': ('const', 'gate::GType::' + kind), 'qs': list(qs), 'phase': phase(ph), 'vars': par(())}


def circuit(n, gates):
    return {'__struct__': 'circuit::Circuit', 'nqubits': n, 'gates': minirust.Deque([gate(*g) for g in gates])}


def _apply_1q(vec, q, m):
    new = {}
    for b, v in vec.items():
        for out in (0, 1):
            c = m[out][b[q]]
            if c.is_zero():
                continue
            nb = b[:q] + (out,) + b[q + 1:]
            new[nb] = new.get(nb, Q0) + c * v
    return dict((k, v) for k, v in new.items() if not v.is_zero())


HMAT = [[INV_SQRT2, INV_SQRT2], [INV_SQRT2, -INV_SQRT2]]


def circuit_map(n, gates):
    """the linear map of the circuit by the reference gate semantics (refs/gates.py): {(bits of the open inputs) + (bits of the open outputs): Qw}.
    InitAncilla on a qubit nothing has acted on feeds |0> (its input is closed); PostSelect applies <0| and closes the output."""
    from refs import gates as R
    closed_in = set()
    touched = set()
    for kind, qs, *_p in gates:
        if kind == 'InitAncilla' and qs[0] not in touched:
            closed_in.add(qs[0])
        touched.update(qs)
    open_in = [q for q in range(n) if q not in closed_in]
    out = {}
    closed_out = None
    for inb in itertools.product((0, 1), repeat=len(open_in)):
        bits = [0] * n
        for q, b in zip(open_in, inb):
            bits[q] = b
        vec = {tuple(bits): Q1}
        dead = set()
        acted = set()
        for g in gates:
            kind, qs = g[0], list(g[1])
            ph = Fr(g[2]) if len(g) > 2 else Fr(0)
            if any(q in dead for q in qs):
                continue                      # (documented: later gates on a post-selected qubit are ignored)
            spec = R.GATES[kind]
            if spec['cls'] == 'diag':
                p = ph if spec['phase'] == 'param' else spec['phase']
                for i in spec['hset']:
                    vec = _apply_1q(vec, qs[i], HMAT)
                e = expi(p)
                vec = dict((b, (v * e if all(b[q] for q in qs) else v)) for b, v in vec.items())
                for i in spec['hset']:
                    vec = _apply_1q(vec, qs[i], HMAT)
            elif spec['cls'] == 'had':
                vec = _apply_1q(vec, qs[0], HMAT)
            elif spec['cls'] == 'perm':
                a, c = qs
                new = {}
                for b, v in vec.items():
                    nb = list(b)
                    nb[a], nb[c] = b[c], b[a]
                    new[tuple(nb)] = v
                vec = new
            elif spec['cls'] == 'parity':
                e = expi(ph)
                vec = dict((b, (v * e if sum(b[q] for q in qs) % 2 else v)) for b, v in vec.items())
            elif kind == 'InitAncilla':
                if qs[0] in acted:
                    pass                      # (documented: a no-op once a gate has been applied to the qubit)
            elif kind == 'PostSelect':
                vec = dict((b, v) for b, v in vec.items() if b[qs[0]] == 0)
                dead.add(qs[0])
            else:
                raise minirust.NoEval('no reference semantics for %s' % kind)
            acted.update(qs)
        open_out = [q for q in range(n) if q not in dead]
        if closed_out is None:
            closed_out = dead
        for b, v in vec.items():
            key = tuple(inb) + tuple(b[q] for q in open_out)
            out[key] = out.get(key, Q0) + v
    return dict((k, v) for k, v in out.items() if not v.is_zero())


MODES = [(False, False), (True, False), (False, True)]


def translate(facts, ty, n, gates, mode):
    it = interp(facts, 3000000)
    it.inline = lambda c: c.startswith(INLINE + ('circuit::', '<circuit::', 'gate::', '<gate::', 'util::'))
    it.self_ty.append(ty)
    g = it.local_call('circuit::Circuit::to_graph_with_options', [circuit(n, gates), mode[0], mode[1]])
    if not (isinstance(g, dict) and g.get('__struct__') == ty):
        raise minirust.NoEval('to_graph_with_options returned %r' % (type(g),))
    return read(Backend(facts, ty, g))


PH_ = (Fr(1, 4), Fr(1, 2), 1, Fr(-1, 4), Fr(3, 4))


def family_circuits():
    """[(qubits, [(kind, qubits, phase)])]: every unitary gate kind on every tuple of distinct qubits of 1..3 wires (five phases for the parametrised kinds,
    parity-phase gadgets of every arity), every ordered pair of a two-qubit-universal subset on two wires, and ancilla initialisation / post-selection
    as the first / last operation of a wire around them"""
    from refs import gates as R
    singles = {}
    for n in (1, 2, 3):
        gs = []
        for kind in R.UNITARY:
            spec = R.GATES[kind]
            if kind == 'ParityPhase':
                for ar in range(1, n + 1):
                    for qs in itertools.combinations(range(n), ar):
                        for p in PH_[:2]:
                            gs.append((kind, qs, p))
                continue
            for qs in itertools.permutations(range(n), spec['arity']):
                if spec['phase'] == 'param':
                    for p in PH_:
                        gs.append((kind, qs, p))
                else:
                    gs.append((kind, qs))
        singles[n] = gs
        for g in gs:
            yield n, [g]
    small = [g for g in singles[2] if g[0] in ('T', 'HAD', 'CNOT', 'CZ', 'SWAP', 'S', 'NOT', 'XCX') or (g[0] in ('ZPhase', 'XPhase', 'ParityPhase') and g[2] == Fr(1, 4))]
    for a in small:
        for b in small:
            yield 2, [a, b]
    three = [g for g in singles[3] if g[0] in ('TOFF', 'CCZ', 'SWAP', 'CNOT') or (g[0] == 'ParityPhase' and len(g[1]) == 3 and g[2] == Fr(1, 4))]
    for a in three:
        for b in [g for g in singles[3] if g[0] in ('HAD', 'T', 'SWAP')]:
            yield 3, [b, a]
            yield 3, [a, b]
    # ancilla initialisation first, post-selection last
    for n in (2, 3):
        body = [g for g in singles[n] if g[0] in ('CNOT', 'CZ', 'HAD', 'T', 'SWAP', 'TOFF', 'CCZ', 'XCX') or (g[0] == 'ParityPhase' and g[2] == Fr(1, 4))]
        for q in range(n):
            for g in body:
                yield n, [('InitAncilla', (q,)), g]
                yield n, [g, ('PostSelect', (q,))]
                yield n, [('InitAncilla', (q,)), g, ('PostSelect', ((q + 1) % n,))]
        for g in body:
            yield n, [('HAD', (0,)), g, ('PostSelect', (0,)), ('T', (n - 1,))]


def _circ_job(job):
    ty, stride, offset, every = job
    facts = _G['facts']
    st = {'circuits': 0, 'translations': 0, 'declined': 0}
    bad, declined = [], {}
    for i, (n, gs) in enumerate(x for j, x in enumerate(family_circuits()) if j % every == 0):
        if i % stride != offset:
            continue
        st['circuits'] += 1
        try:
            want = circuit_map(n, gs)
        except minirust.NoEval as ex:
            st['declined'] += 1
            declined.setdefault('oracle: ' + str(ex)[:70], (n, gs))
            continue
        for mode in MODES:
            name = 'to_graph_with_options(simplify=%s, postselect=%s)' % mode
            try:
                try:
                    d = translate(facts, ty, n, gs, mode)
                except minirust.Panics as ex:
                    bad.append((name, '%d qubits: %s' % (n, _showc(gs)), (), 'panics: %s' % ex))
                    continue
                st['translations'] += 1
                got = tensor(d, {})
                if got != want:
                    bad.append((name, '%d qubits: %s' % (n, _showc(gs)), (), 'the diagram %s (scalar %s) denotes %s, the circuit %s' % (d.show(), d.scalar.c, _showt(got), _showt(want))))
            except minirust.NoEval as ex:
                st['declined'] += 1
                declined.setdefault(str(ex)[:80], (n, _showc(gs)))
    st['declined_reasons'] = declined
    return st, bad[:50]


def _showc(gs):
    return '; '.join('%s%s%s' % (g[0], list(g[1]), ('(%s)' % g[2]) if len(g) > 2 else '') for g in gs)


def run_circuits(facts, plan, procs=8):
    """plan: [(back end, take every k-th circuit)]"""
    _G['facts'] = facts
    jobs = [(ty, procs, off, every) for ty, every in plan for off in range(procs)]
    pool = None
    if procs > 1:
        try:
            import multiprocessing
            pool = multiprocessing.get_context('fork').Pool(procs)
        except Exception:
            pool = None
    try:
        results = pool.map(_circ_job, jobs, chunksize=1) if pool is not None else [_circ_job(j) for j in jobs]
    finally:
        if pool is not None:
            pool.terminate()
            pool.join()
    tot = {'circuits': 0, 'translations': 0, 'declined': 0}
    bad, declined = [], {}
    for (ty, _s, _o, _e), (st, b) in zip(jobs, results):
        for k in ('circuits', 'translations', 'declined'):
            tot[k] += st[k]
        bad.extend((ty,) + tuple(x) for x in b)
        for k, v in st['declined_reasons'].items():
            declined.setdefault(k, v)
    return tot, bad, declined


# ----------------------------------------------------------------------------------------------------------------- extraction (C03)
class BitMat(minirust.Obj):
    """host model of bitgauss::BitMatrix (external crate, v0.3.4) for matrices of fewer than 64 columns: a faithful port of gauss_helper (Patel-Markov-
    Hayes chunks included) that reports every row operation to a proxy — another BitMat, or an interpreted value whose `RowOps` impl is called back"""

    def __init__(self, rows, ncols, it=None):
        self.m = [list(map(bool, r)) for r in rows]
        self.nc = ncols
        self.it = it
        if ncols >= 64:
            raise minirust.NoEval('a bit matrix with %d columns' % ncols)
        minirust.Obj.__init__(self, 'bitmatrix', {
            'rows': lambda a: len(self.m), 'cols': lambda a: self.nc, 'clone': lambda a: self.mr_clone(), 'row_weight': lambda a: sum(self.m[a[0]]),
            'add_row': lambda a: self._add(a[0], a[1]), 'swap_rows': lambda a: self._swap(a[0], a[1]), 'bit': lambda a: self.getitem((a[0], a[1])),
            'set_bit': lambda a: self._set(a[0], a[1], a[2]), 'gauss_with_proxy': self._gauss, 'gauss': lambda a: self._gauss([a[0], 1, None]), 'rank': lambda a: len(self.mr_clone()._helper(False, 1, None)),
        }, strict=True)

    def mr_clone(self):
        return BitMat(self.m, self.nc, self.it)

    def getitem(self, ij):
        i, j = ij
        if not (0 <= i < len(self.m) and 0 <= j < self.nc):
            raise minirust.Panics('bit matrix index (%d, %d) out of bounds' % (i, j))
        return self.m[i][j]

    def _set(self, i, j, b):
        if not (0 <= i < len(self.m) and 0 <= j < self.nc):
            raise minirust.Panics('bit matrix index (%d, %d) out of bounds' % (i, j))
        self.m[i][j] = bool(b)
        return ()

    def _add(self, frm, to):
        if not (0 <= frm < len(self.m) and 0 <= to < len(self.m)):
            raise minirust.Panics('row index out of bounds')
        self.m[to] = [a != b for a, b in zip(self.m[to], self.m[frm])]
        return ()

    def _swap(self, a, b):
        if not (0 <= a < len(self.m) and 0 <= b < len(self.m)):
            raise minirust.Panics('row index out of bounds')
        self.m[a], self.m[b] = self.m[b], self.m[a]
        return ()

    def _proxy(self, proxy, op, a, b):
        if proxy is None:
            return
        if isinstance(proxy, minirust.Cell):
            proxy = proxy.get()
        if isinstance(proxy, BitMat):
            (proxy._add if op == 'add_row' else proxy._swap)(a, b)
            return
        if isinstance(proxy, dict) and '__struct__' in proxy and self.it is not None:
            k = '<%s as bitgauss::RowOps>::%s' % (proxy['__struct__'], op)
            if k in self.it.facts['fns']:
                self.it.local_call(k, [proxy, a, b])
                return
        raise minirust.NoEval('row-operation proxy %r' % (type(proxy).__name__,))

    def _gauss(self, a):
        full, chunk, proxy = a
        self._helper(bool(full), chunk, proxy)
        return ()

    def _chunkbits(self, i, cs, col):
        i0 = (col // cs) * cs
        i1 = min(i0 + cs, 64)
        return (i0, i1, tuple(self.m[i][j] for j in range(i0, min(i1, self.nc))))

    def _helper(self, full, chunksize, proxy):
        R = len(self.m)
        row, pcol, pcols, chunk_end = 0, 0, [], 0
        chunksize = min(chunksize, 64)
        while row < R:
            next_row = None
            while pcol < self.nc:
                for i in range(row, R):
                    if self.m[i][pcol]:
                        next_row = i
                        break
                if next_row is not None:
                    break
                pcol += 1
            if next_row is None:
                break
            row1 = next_row
            if row != row1:
                self._swap(row, row1)
                self._proxy(proxy, 'swap_rows', row, row1)
            if chunksize > 1 and pcol >= chunk_end:
                _i0, chunk_end, _b = self._chunkbits(0, chunksize, pcol)
                seen = {}
                for i in range(row, R):
                    bits = self._chunkbits(i, chunksize, pcol)[2]
                    if any(bits):
                        if bits in seen:
                            self._add(seen[bits], i)
                            self._proxy(proxy, 'add_row', seen[bits], i)
                        else:
                            seen[bits] = i
            row_vec = list(self.m[row])
            for i in range(row1 + 1, R):
                if self.m[i][pcol]:
                    self.m[i] = [x != y for x, y in zip(self.m[i], row_vec)]
                    self._proxy(proxy, 'add_row', row, i)
            row += 1
            pcols.append(pcol)
            pcol += 1
        if full:
            chunk_start = self.nc
            for row in range(len(pcols) - 1, -1, -1):
                pcol = pcols[row]
                if chunksize > 1 and pcol < chunk_start:
                    chunk_start = self._chunkbits(0, chunksize, pcol)[0]
                    seen = {}
                    for i in range(row, -1, -1):
                        bits = self._chunkbits(i, chunksize, pcol)[2]
                        if any(bits):
                            if bits in seen:
                                self._add(seen[bits], i)
                                self._proxy(proxy, 'add_row', seen[bits], i)
                            else:
                                seen[bits] = i
                row_vec = list(self.m[row])
                for i in range(0, row):
                    if self.m[i][pcol]:
                        self.m[i] = [x != y for x, y in zip(self.m[i], row_vec)]
                        self._proxy(proxy, 'add_row', row, i)
        return pcols


def extraction_interp(facts, ty):
    it = interp(facts, 6000000)
    it.inline = lambda c: c.startswith(INLINE + ('circuit::', '<circuit::', 'gate::', '<gate::', 'util::', 'extract::', '<extract::'))
    it.self_ty.append(ty)
    base = it.host_call

    def hc(c, e, args):
        if c.endswith('BitMatrix::build') and len(e['args']) == 3:
            r, cc, f = args()
            return BitMat([[f(i, j) for j in range(cc)] for i in range(r)], cc, it)
        if c.endswith('BitMatrix::identity') and len(e['args']) == 1:
            n = args()[0]
            return BitMat([[i == j for j in range(n)] for i in range(n)], n, it)
        if c.endswith('BitMatrix::zeros') and len(e['args']) == 2:
            r, cc = args()
            return BitMat([[False] * cc for _ in range(r)], cc, it)
        return base(c, e, args)
    it.host_call = hc
    return it


STRATEGIES = ['simplify::flow_simp', 'simplify::clifford_simp', 'simplify::full_simp']
EXTRACTORS = ['gflow', 'gflow_simple_gauss', 'flow', 'gflow+up_to_perm']
EXTRACT_SET = {'HAD', 'ZPhase', 'CZ', 'CNOT', 'SWAP'}


def read_circuit(c):
    if not (isinstance(c, dict) and c.get('__struct__') == 'circuit::Circuit'):
        raise minirust.NoEval('not a circuit: %r' % (type(c),))
    out = []
    for g in list(c['gates']):
        kind = _short(g['t'])
        out.append((kind, tuple(g['qs']), phase_value(g['phase'])))
    return c['nqubits'], out


def proportional(a, b):
    """a = lambda * b for some non-zero scalar lambda (both maps as {key: Qw})"""
    if set(a) != set(b):
        return False
    if not a:
        return True
    k0 = sorted(a)[0]
    return all(a[k] * b[k0] == b[k] * a[k0] for k in a)


def extract_case(facts, ty, n, gates, strategy, extractor):
    """-> '' | what is wrong; raises NoEval when the case is outside the evaluated scope"""
    want = circuit_map(n, gates)
    it = extraction_interp(facts, ty)
    g = it.local_call('circuit::Circuit::to_graph_with_options', [circuit(n, gates), False, False])
    if strategy is not None:
        extraction_interp(facts, ty).local_call(strategy, [g])
    ex = extraction_interp(facts, ty)
    xk = [k for k in facts['fns'] if k.startswith('extract::Extractor') and k.endswith('::new')]
    if len(xk) != 1:
        raise minirust.NoEval('Extractor::new not found')
    pre = xk[0][:-len('new')]
    x = ex.local_call(xk[0], [g])
    for step in extractor.split('+'):
        extraction_interp(facts, ty).local_call(pre + step, [x])
    r = extraction_interp(facts, ty).local_call(pre + 'extract', [x])
    if not (isinstance(r, tuple) and r and r[0] in ('Ok', 'Err')):
        raise minirust.NoEval('extract returned %r' % (r,))
    if r[0] == 'Err':
        msg = r[1].get('0') if isinstance(r[1], dict) else r[1]
        return 'extraction fails: %s' % (msg,)
    nq, gs = read_circuit(r[1])
    if nq != n:
        return 'the extracted circuit has %d qubits' % nq
    foreign = sorted(set(k for k, _q, _p in gs) - EXTRACT_SET)
    if foreign:
        return 'the extracted circuit uses %s' % foreign
    got = circuit_map(n, gs)
    if 'up_to_perm' in extractor:
        for perm in itertools.permutations(range(n)):
            permuted = dict((tuple(k[perm[i]] for i in range(n)) + k[n:], v) for k, v in got.items())
            if proportional(permuted, want):
                return ''
        return 'no permutation of the input qubits makes the extracted circuit %s equivalent to the original' % _showc(gs)
    if not proportional(got, want):
        return 'the extracted circuit %s implements %s, the original %s' % (_showc(gs), _showt(got), _showt(want))
    return ''


def family_extract_circuits():
    """unitary circuits of 2..4 gates on two and three wires over a Clifford+T+CCZ subset (built as prefixes / pairs of the translation family)"""
    import re
    pool2 = [('HAD', (0,)), ('HAD', (1,)), ('T', (0,)), ('S', (1,)), ('CNOT', (0, 1)), ('CNOT', (1, 0)), ('CZ', (0, 1)), ('ZPhase', (1,), Fr(3, 4)), ('XPhase', (0,), Fr(1, 4)),
             ('SWAP', (0, 1)), ('NOT', (1,)), ('ParityPhase', (0, 1), Fr(1, 4)), ('XCX', (0, 1))]
    for a in pool2:
        yield 2, [a]
        for b in pool2:
            yield 2, [a, b]
    for a, b, c in itertools.product(pool2[:7], repeat=3):
        yield 2, [a, b, c]
    pool3 = [('HAD', (0,)), ('HAD', (2,)), ('T', (1,)), ('CNOT', (0, 1)), ('CNOT', (2, 1)), ('CZ', (0, 2)), ('CCZ', (0, 1, 2)), ('TOFF', (0, 1, 2)), ('SWAP', (0, 2)),
             ('ParityPhase', (0, 1, 2), Fr(1, 4))]
    for a in pool3:
        yield 3, [a]
        for b in pool3:
            yield 3, [a, b]


def _extract_job(job):
    ty, stride, offset, every = job
    facts = _G['facts']
    st = {'circuits': 0, 'cases': 0, 'declined': 0}
    bad, declined = [], {}
    saved = minirust.HASH_ITER_SORTED
    minirust.HASH_ITER_SORTED = True
    try:
        _extract_loop(facts, ty, stride, offset, every, st, bad, declined)
    finally:
        minirust.HASH_ITER_SORTED = saved
    st['declined_reasons'] = declined
    return st, bad[:50]


def _extract_loop(facts, ty, stride, offset, every, st, bad, declined):
    for i, (n, gs) in enumerate(x for j, x in enumerate(family_extract_circuits()) if j % every == 0):
        if i % stride != offset:
            continue
        st['circuits'] += 1
        for strat in STRATEGIES:
            for xt in EXTRACTORS:
                if xt == 'flow' and strat != 'simplify::flow_simp':
                    continue                    # (the Gauss-free extractor is offered for diagrams with a causal flow only)
                name = '%s + %s' % ((strat or 'no simplification').rsplit('::', 1)[-1], xt)
                try:
                    try:
                        msg = extract_case(facts, ty, n, gs, strat, xt)
                    except minirust.Panics as ex:
                        bad.append((name, '%d qubits: %s' % (n, _showc(gs)), (), 'panics: %s' % ex))
                        continue
                    st['cases'] += 1
                    if msg:
                        bad.append((name, '%d qubits: %s' % (n, _showc(gs)), (), msg))
                except minirust.NoEval as ex:
                    st['declined'] += 1
                    declined.setdefault(str(ex)[:80], (name, _showc(gs)))


def run_extractions(facts, plan, procs=8):
    _G['facts'] = facts
    jobs = [(ty, procs, off, every) for ty, every in plan for off in range(procs)]
    pool = None
    if procs > 1:
        try:
            import multiprocessing
            pool = multiprocessing.get_context('fork').Pool(procs)
        except Exception:
            pool = None
    try:
        results = pool.map(_extract_job, jobs, chunksize=1) if pool is not None else [_extract_job(j) for j in jobs]
    finally:
        if pool is not None:
            pool.terminate()
            pool.join()
    tot = {'circuits': 0, 'cases': 0, 'declined': 0}
    bad, declined = [], {}
    for (ty, _s, _o, _e), (st, b) in zip(jobs, results):
        for k in ('circuits', 'cases', 'declined'):
            tot[k] += st[k]
        bad.extend((ty,) + tuple(x) for x in b)
        for k, v in st['declined_reasons'].items():
            declined.setdefault(k, v)
    return tot, bad, declined


# ----------------------------------------------------------------------------------------------------------------- detection webs (C20)
def _bm_ext(bm):
    """the further BitMatrix methods detection_webs.rs uses"""
    def vstack(a):
        o = a[0]
        if not isinstance(o, BitMat):
            raise minirust.NoEval('vstack with %r' % (o,))
        if o.nc != bm.nc:
            raise minirust.Panics('vstack of matrices with %d and %d columns' % (bm.nc, o.nc))
        return _bm_ext(BitMat(bm.m + o.m, bm.nc, bm.it))

    def hstack(a):
        o = a[0]
        if not isinstance(o, BitMat):
            raise minirust.NoEval('hstack with %r' % (o,))
        if len(o.m) != len(bm.m):
            raise minirust.Panics('hstack of matrices with %d and %d rows' % (len(bm.m), len(o.m)))
        return _bm_ext(BitMat([x + y for x, y in zip(bm.m, o.m)], bm.nc + o.nc, bm.it))

    def nullspace(a):
        """a basis of {x : M x = 0} as 1 x n row matrices (any basis serves the property)"""
        rows = [list(r) for r in bm.m]
        n = bm.nc
        piv = []
        r = 0
        for c in range(n):
            p = next((i for i in range(r, len(rows)) if rows[i][c]), None)
            if p is None:
                continue
            rows[r], rows[p] = rows[p], rows[r]
            for i in range(len(rows)):
                if i != r and rows[i][c]:
                    rows[i] = [x != y for x, y in zip(rows[i], rows[r])]
            piv.append(c)
            r += 1
        free = [c for c in range(n) if c not in piv]
        out = []
        for fcol in free:
            v = [False] * n
            v[fcol] = True
            for i, pc in enumerate(piv):
                if rows[i][fcol]:
                    v[pc] = True
            out.append(_bm_ext(BitMat([v], n, bm.it)))
        return out
    bm.methods.update({'vstack': vstack, 'hstack': hstack, 'nullspace': nullspace, 'transposed': lambda a: _bm_ext(BitMat([list(c) for c in zip(*bm.m)] if bm.m else [], len(bm.m), bm.it))})
    bm.mr_clone = lambda: _bm_ext(BitMat(bm.m, bm.nc, bm.it))
    bm.methods['clone'] = lambda a: bm.mr_clone()
    return bm


def webs_interp(facts):
    it = interp(facts, 6000000)
    it.inline = lambda c: c.startswith(INLINE + ('detection_webs::', '<detection_webs::'))
    it.self_ty.append(VEC)
    base = it.host_call

    def hc(c, e, args):
        if c.endswith('BitMatrix::build') and len(e['args']) == 3:
            r, cc, f = args()
            return _bm_ext(BitMat([[f(i, j) for j in range(cc)] for i in range(r)], cc, it))
        if c.endswith('BitMatrix::identity') and len(e['args']) == 1:
            n = args()[0]
            return _bm_ext(BitMat([[i == j for j in range(n)] for i in range(n)], n, it))
        if c.endswith('BitMatrix::zeros') and len(e['args']) == 2:
            r, cc = args()
            return _bm_ext(BitMat([[False] * cc for _ in range(r)], cc, it))
        if c.startswith('env_logger::'):
            return minirust.Obj('logger', {}, strict=False)
        return base(c, e, args)
    it.host_call = hc
    hm0 = getattr(it, 'host_method', None)

    def hm(callee, nm, recv, args):
        if isinstance(recv, minirust.Obj) and recv.name == 'logger':
            return recv if nm in ('is_test', 'filter_level') else ()
        return hm0(callee, nm, recv, args) if hm0 is not None else NotImplemented
    it.host_method = hm
    return it


def family_pauli():
    """small diagrams over Z / X spiders with phases 0 / pi, plain edges, boundaries attached anywhere: (vertex list in insertion order, edges, inputs, outputs)"""
    shapes = []
    # spiders 0..k-1 with colours, edges among them, boundary attachments
    shapes.append((['Z', 'X'], [(0, 1)], [0], [1]))                                    # a wire through two spiders
    shapes.append((['Z', 'X'], [(0, 1)], [0, 0], [1]))
    shapes.append((['Z', 'Z'], [(0, 1)], [0], [1]))                                    # same colour: make_bipartite inserts a spider
    shapes.append((['Z', 'X', 'Z'], [(0, 1), (1, 2)], [0], [2]))
    shapes.append((['Z', 'X', 'Z', 'X'], [(0, 1), (1, 2), (2, 3), (3, 0)], [], []))     # a closed square: one detection web
    shapes.append((['Z', 'X', 'Z', 'X'], [(0, 1), (1, 2), (2, 3), (3, 0)], [0], [2]))
    shapes.append((['Z', 'X', 'X'], [(0, 1), (0, 2)], [1], [2]))
    shapes.append((['Z', 'Z', 'X', 'X'], [(0, 2), (0, 3), (1, 2), (1, 3)], [], []))     # K2,2
    shapes.append((['Z', 'Z', 'X', 'X'], [(0, 2), (0, 3), (1, 2), (1, 3)], [0, 1], [2, 3]))
    shapes.append((['Z', 'Z', 'Z'], [(0, 1), (1, 2), (0, 2)], [], []))                  # a same-colour triangle
    shapes.append((['X', 'Z', 'X', 'Z', 'X'], [(0, 1), (1, 2), (2, 3), (3, 4), (1, 4)], [0], [2]))
    shapes.append((['Z'], [], [0], [0]))
    shapes.append((['Z', 'X', 'Z', 'X', 'Z', 'X'], [(0, 1), (1, 2), (2, 3), (3, 0), (2, 5), (5, 4), (4, 3)], [0], [5]))      # two squares sharing an edge, with boundaries
    shapes.append((['Z', 'X', 'Z', 'X'], [(0, 1), (1, 2), (2, 3), (3, 0)], [0, 1], [2, 3]))
    shapes.append((['X', 'X', 'Z'], [(0, 1), (1, 2), (0, 2)], [2], []))
    shapes.append((['Z', 'X'], [(0, 1)], [], []))                                       # a closed pair
    shapes.append((['Z', 'X', 'Z', 'X', 'Z'], [(0, 1), (1, 2), (2, 3), (3, 4), (0, 3), (1, 4)], [], [2]))
    shapes.append((['Z', 'X', 'Z', 'X', 'Z', 'X'], [(0, 1), (1, 2), (2, 3), (3, 4), (4, 5), (5, 0), (0, 3)], [], []))
    # bare wires (an input joined straight to an output: the entry None) next to same-coloured pairs, which make_bipartite has to separate whatever the
    # position of the wire in the edge order
    shapes.append((['Z', 'Z', 'X', 'X'], [(0, 1), (1, 2), (2, 3)], [None, 0], [None, 3]))
    shapes.append((['X', 'X'], [(0, 1)], [None, 0], [None, 1]))
    shapes.append((['Z', 'Z', 'Z'], [(0, 1), (1, 2), (0, 2)], [None], [None]))
    shapes.append((['Z', 'X', 'X', 'Z'], [(0, 1), (1, 2), (2, 3), (3, 0)], [0, None], [2, None]))
    for cols, es, ins, outs in shapes:
        for order in ('boundaries-first', 'boundaries-last', 'interleaved'):
            for ph in (0, 1):
                yield cols, es, ins, outs, order, ph


def build_pauli(facts, cols, es, ins, outs, order, ph):
    """-> Backend, names of the spiders, of the input and output boundary vertices"""
    be = Backend(facts, VEC)
    spid, inb, outb = {}, [], []

    def add_spider(i):
        vd = {'__struct__': 'graph::VData', 'ty': vt(cols[i]), 'phase': phase(ph if i % 2 == 0 else 0), 'vars': par(()), 'qubit': 0.0, 'row': 0.0}
        spid[i] = be.call('add_vertex_with_data', vd)

    def add_b(lst):
        vd = {'__struct__': 'graph::VData', 'ty': vt('B'), 'phase': phase(0), 'vars': par(()), 'qubit': 0.0, 'row': 0.0}
        lst.append(be.call('add_vertex_with_data', vd))
    nb = len(ins) + len(outs)
    if order == 'boundaries-first':
        for _ in ins:
            add_b(inb)
        for _ in outs:
            add_b(outb)
        for i in range(len(cols)):
            add_spider(i)
    elif order == 'boundaries-last':
        for i in range(len(cols)):
            add_spider(i)
        for _ in ins:
            add_b(inb)
        for _ in outs:
            add_b(outb)
    else:
        todo_b = [('i', k) for k in range(len(ins))] + [('o', k) for k in range(len(outs))]
        for i in range(len(cols)):
            add_spider(i)
            if todo_b:
                w, _k = todo_b.pop(0)
                add_b(inb if w == 'i' else outb)
        for w, _k in todo_b:
            add_b(inb if w == 'i' else outb)
    for a, b in es:
        be.call('add_edge_with_type', spid[a], spid[b], et('N'))
    for k, s_ in enumerate(ins):
        if s_ is not None:
            be.call('add_edge_with_type', inb[k], spid[s_], et('N'))
    for k, s_ in enumerate(outs):
        if s_ is not None:
            be.call('add_edge_with_type', outb[k], spid[s_], et('N'))
    wi_, wo_ = [inb[k] for k, s_ in enumerate(ins) if s_ is None], [outb[k] for k, s_ in enumerate(outs) if s_ is None]
    if len(wi_) != len(wo_):
        raise minirust.NoEval('bare wires need an input and an output each')
    for a, b in zip(wi_, wo_):
        be.call('add_edge_with_type', a, b, et('N'))
    be.call('set_inputs', list(inb))
    be.call('set_outputs', list(outb))
    return be, spid, inb, outb


def webs_case(facts, cols, es, ins, outs, order, ph):
    """-> (number of webs, '' | what is wrong)"""
    be, spid, inb, outb = build_pauli(facts, cols, es, ins, outs, order, ph)
    it = webs_interp(facts)
    webs = it.local_call('detection_webs::detection_webs', [be.g])
    if not isinstance(webs, list):
        raise minirust.NoEval('detection_webs returned %r' % (type(webs),))
    after = read(be)          # the bipartite diagram the webs refer to
    if list(after.inputs) != list(inb) or list(after.outputs) != list(outb):
        return len(webs), 'the inputs / outputs are %s / %s afterwards, they were %s / %s' % (after.inputs, after.outputs, inb, outb)
    edges = sorted(tuple(sorted(k)) for k in after.e)
    bnd = set(k for k, (t, _p, _v) in after.v.items() if t == 'B')
    internal = [e for e in edges if not (set(e) & bnd)]

    def comps(web):
        ops = web.get('edge_operators') if isinstance(web, dict) else None
        if not isinstance(ops, dict):
            raise minirust.NoEval('a web is %r' % (web,))
        out = {}
        for k, p in ops.items():
            e = tuple(sorted(k))
            if e not in set(edges):
                return None, 'a web marks %s, which is not an edge of the (bipartite) diagram' % (e,)
            nm = _short(p)
            out[e] = {'X': (1, 0), 'Z': (0, 1), 'Y': (1, 1)}.get(nm)
            if out[e] is None:
                raise minirust.NoEval('Pauli %r' % (p,))
        return out, ''

    def valid(assign):
        """assign: {edge: (x component, z component)}"""
        for e, (x, z) in assign.items():
            if (x or z) and (set(e) & bnd):
                return 'the boundary edge %s is marked' % (e,)
        for v, (t, _p, _vs) in after.v.items():
            if t == 'B':
                continue
            legs = [e for e in edges if v in e]
            own = [assign.get(e, (0, 0))[0 if t == 'Z' else 1] for e in legs]      # a Z spider is stabilised by X on all legs, an X spider by Z on all legs
            other = [assign.get(e, (0, 0))[1 if t == 'Z' else 0] for e in legs]
            if any(own) and not all(own):
                return 'at the %s spider %s the %s component is on some legs but not on all' % (t, v, 'X' if t == 'Z' else 'Z')
            if sum(other) % 2:
                return 'at the %s spider %s the %s component is on an odd number of legs' % (t, v, 'Z' if t == 'Z' else 'X')
        return ''
    vecs = []
    for w in webs:
        a, msg = comps(w)
        if a is None:
            return len(webs), msg
        msg = valid(a)
        if msg:
            return len(webs), 'a returned web is not valid: %s (web %s on %s)' % (msg, dict((e, 'IXZY'[x + 2 * z]) for e, (x, z) in a.items()), after.show())
        vecs.append([a.get(e, (0, 0))[i] for e in internal for i in (0, 1)])
    rk = f2rank_rows(vecs)
    if rk != len(webs):
        return len(webs), 'the %d returned webs are linearly dependent (rank %d)' % (len(webs), rk)
    if len(internal) > 9:
        raise minirust.NoEval('too many internal edges for the brute-force count')
    total = 0
    for bits in itertools.product((0, 1), repeat=2 * len(internal)):
        a = dict((e, (bits[2 * i], bits[2 * i + 1])) for i, e in enumerate(internal))
        if not valid(a):
            total += 1
    if total != 2 ** len(webs):
        return len(webs), 'the diagram %s has %d valid webs, the %d returned ones span %d' % (after.show(), total, len(webs), 2 ** len(webs))
    return len(webs), ''


def f2rank_rows(rows):
    rows = [sum((1 << j) for j, b in enumerate(r) if b) for r in rows]
    rk = 0
    while rows:
        r = rows.pop()
        if r:
            rk += 1
            lb = r & -r
            rows = [x ^ r if x & lb else x for x in rows]
    return rk


def run_webs(facts):
    """-> (stats, findings [(case text, what)], declined)"""
    st = {'cases': 0, 'webs': 0, 'declined': 0, 'with_webs': 0}
    bad, declined = [], {}
    counts = {}
    for cols, es, ins, outs, order, ph in family_pauli():
        name = '%s spiders, edges %s, inputs on %s, outputs on %s, %s, %s' % (''.join(cols), es, ins, outs, order, 'with pi phases' if ph else 'phase-free')
        try:
            try:
                n, msg = webs_case(facts, cols, es, ins, outs, order, ph)
            except minirust.Panics as ex:
                bad.append((name, 'panics: %s' % ex))
                continue
            st['cases'] += 1
            st['webs'] += n
            st['with_webs'] += 1 if n else 0
            if msg:
                bad.append((name, msg))
            key = (tuple(cols), tuple(es), tuple(ins), tuple(outs))
            if key in counts and counts[key][0] != n and not msg:
                bad.append((name, 'the number of webs depends on the numbering of the vertices: %d here, %d with %s' % (n, counts[key][0], counts[key][1])))
            counts.setdefault(key, (n, order))
        except minirust.NoEval as ex:
            st['declined'] += 1
            declined.setdefault(str(ex)[:90], name)
    return st, bad, declined
