"""A tiny interpreter for closed integer / boolean expression fragments of the HIR (usize semantics: subtraction below zero is an error).
Used where a clause is about index arithmetic over a small finite domain (block tiling in gauss_helper, numerator ranges in generators).
It interprets the source tree; nothing of the analysed crate is compiled or executed."""
from . import hir


class NoEval(Exception):
    pass


def ev(e, env, field=None, unsigned=True):
    """env: local id -> int/bool; field(name) -> value for `self.<name>` (optional)"""
    e = hir.strip(e)
    k = e.get('k')
    v = hir.lit_int(e)
    if v is not None:
        return v
    b = hir.lit_bool(e)
    if b is not None:
        return b
    if k == 'Path':
        l = hir.local(e)
        if l and l[1] in env:
            return env[l[1]]
        raise NoEval('free variable %s' % hir.pp(e))
    if k == 'Field' and field is not None:
        r = field(e['name'])
        if r is not None:
            return r
        raise NoEval('field %s' % e['name'])
    if k == 'Cast':
        return ev(e['e'], env, field, unsigned)
    if k == 'Unary' and e['op'] == 'Not':
        return not ev(e['e'], env, field, unsigned)
    if k == 'Unary' and e['op'] == 'Neg':
        return -ev(e['e'], env, field, unsigned)
    if k == 'If':
        c = ev(e['cond'], env, field, unsigned)
        br = e['then'] if c else e.get('else')
        if br is None:
            raise NoEval('if without else used as a value')
        return ev(br, env, field, unsigned)
    if k == 'Block':
        st = hir.stmts_of(e)
        env = dict(env)
        for s in st[:-1]:
            if s.get('k') == 'Let' and s['pat'].get('k') == 'Bind' and s.get('init') is not None:
                env[s['pat']['id']] = ev(s['init'], env, field, unsigned)
            else:
                raise NoEval('statement in value block')
        if not st:
            raise NoEval('empty block')
        return ev(st[-1], env, field, unsigned)
    if k == 'Call':
        c = hir.callee(e) or ''
        if c.endswith('cmp::min') and len(e['args']) == 2:
            return min(ev(e['args'][0], env, field, unsigned), ev(e['args'][1], env, field, unsigned))
        if c.endswith('cmp::max') and len(e['args']) == 2:
            return max(ev(e['args'][0], env, field, unsigned), ev(e['args'][1], env, field, unsigned))
        raise NoEval('call %s' % c)
    if k == 'MethodCall' and e['name'] in ('min', 'max') and len(e['args']) == 1:
        a, b2 = ev(e['recv'], env, field, unsigned), ev(e['args'][0], env, field, unsigned)
        return min(a, b2) if e['name'] == 'min' else max(a, b2)
    if k == 'MethodCall' and e['name'] == 'saturating_sub' and len(e['args']) == 1:
        return max(0, ev(e['recv'], env, field, unsigned) - ev(e['args'][0], env, field, unsigned))
    if k == 'Binary':
        op = e['op']
        if op == 'And':
            return bool(ev(e['l'], env, field, unsigned)) and bool(ev(e['r'], env, field, unsigned))
        if op == 'Or':
            return bool(ev(e['l'], env, field, unsigned)) or bool(ev(e['r'], env, field, unsigned))
        a, b2 = ev(e['l'], env, field, unsigned), ev(e['r'], env, field, unsigned)
        if op in ('Div', 'Rem') and b2 == 0:
            raise NoEval('division by zero')
        if op == 'Sub' and unsigned and a < b2:
            raise NoEval('usize underflow in %s' % hir.pp(e)[:30])
        f = {'Add': lambda: a + b2, 'Sub': lambda: a - b2, 'Mul': lambda: a * b2, 'Div': lambda: a // b2, 'Rem': lambda: a % b2,
             'Eq': lambda: a == b2, 'Ne': lambda: a != b2, 'Lt': lambda: a < b2, 'Le': lambda: a <= b2, 'Gt': lambda: a > b2, 'Ge': lambda: a >= b2}.get(op)
        if f:
            return f()
    raise NoEval(hir.pp(e)[:40])
