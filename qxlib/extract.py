"""Fact extraction: runs the qxfacts rustc driver over /repo's current working tree.

Facts are cached by a content hash of every file the build reads (plus the driver binary), so a
sweep over the 20 properties extracts once; any edit under /repo changes the hash and forces a
re-extraction.  The dependency artefacts live in a persistent CARGO_TARGET_DIR under
/verif/.cache; the member's fingerprints are removed before every extraction (otherwise cargo
would skip the wrapper) and the fact file must carry this run's nonce.
"""
import fcntl
import hashlib
import json
import os
import shutil
import subprocess
import sys
import time
import glob

VERIF = os.path.dirname(os.path.dirname(os.path.abspath(__file__)))
REPO = os.environ.get('QX_REPO', '/repo')
CACHE = os.path.join(VERIF, '.cache')
DRIVER_DIR = os.path.join(VERIF, 'driver')
DRIVER = os.path.join(DRIVER_DIR, 'target', 'release', 'qxfacts')
FIXTURE = os.path.join(VERIF, 'fixtures', 'posctl')


def _sh(cmd, **kw):
    return subprocess.run(cmd, stdout=subprocess.PIPE, stderr=subprocess.STDOUT, text=True, **kw)


def sysroot():
    p = os.path.join(CACHE, 'sysroot.txt')
    if os.path.exists(p):
        s = open(p).read().strip()
        if os.path.isdir(s):
            return s
    r = subprocess.run(['rustc', '+nightly', '--print', 'sysroot'], stdout=subprocess.PIPE, text=True, check=True)
    s = r.stdout.strip()
    os.makedirs(CACHE, exist_ok=True)
    open(p, 'w').write(s)
    return s


def build_driver(force=False):
    """Build the driver if its sources are newer than the binary."""
    srcs = [os.path.join(DRIVER_DIR, 'src', 'main.rs'), os.path.join(DRIVER_DIR, 'Cargo.toml')]
    if not force and os.path.exists(DRIVER) and all(os.path.getmtime(s) <= os.path.getmtime(DRIVER) for s in srcs):
        return
    env = dict(os.environ, CARGO_NET_OFFLINE='true')
    env.pop('RUSTC_WORKSPACE_WRAPPER', None)
    env.pop('RUSTFLAGS', None)
    r = _sh(['cargo', '+nightly', 'build', '--release', '--offline'], cwd=DRIVER_DIR, env=env)
    if r.returncode != 0 or not os.path.exists(DRIVER):
        sys.stderr.write(r.stdout)
        raise SystemExit('CHECK-ERROR: cannot build the qxfacts driver')
    os.utime(DRIVER, None)


def tree_files(root):
    out = []
    for rel in ('Cargo.toml', 'Cargo.lock', 'rust-toolchain', 'rust-toolchain.toml', 'quizx/Cargo.toml', 'quizx/build.rs',
                'pybindings/Cargo.toml'):
        p = os.path.join(root, rel)
        if os.path.isfile(p):
            out.append(p)
    for d, _dirs, files in os.walk(os.path.join(root, 'quizx', 'src')):
        for f in files:
            out.append(os.path.join(d, f))
    return sorted(out)


def tree_hash(root, extra=()):
    h = hashlib.sha256()
    for p in list(tree_files(root)) + list(extra):
        h.update(p.encode())
        h.update(b'\0')
        with open(p, 'rb') as fh:
            h.update(fh.read())
        h.update(b'\0')
    return h.hexdigest()[:24]


def _run_driver(cwd, cargo_args, crate, out, target_dir, fingerprint_glob):
    nonce = '%d-%d' % (os.getpid(), time.time_ns())
    for d in glob.glob(os.path.join(target_dir, 'debug', '.fingerprint', fingerprint_glob)):
        shutil.rmtree(d, ignore_errors=True)
    if os.path.exists(out):
        os.remove(out)
    env = dict(os.environ)
    sr = sysroot()
    env.update({
        'LD_LIBRARY_PATH': os.path.join(sr, 'lib') + ((':' + env['LD_LIBRARY_PATH']) if env.get('LD_LIBRARY_PATH') else ''),
        'RUSTFLAGS': '-Zmir-opt-level=0 -Awarnings',
        'RUSTC_WORKSPACE_WRAPPER': DRIVER,
        'CARGO_TARGET_DIR': target_dir,
        'CARGO_NET_OFFLINE': 'true',
        'QXFACTS_OUT': out,
        'QXFACTS_NONCE': nonce,
        'QXFACTS_CRATE': crate,
    })
    env.pop('RUSTC_WRAPPER', None)
    r = _sh(['cargo', '+nightly', 'check', '--offline'] + cargo_args, cwd=cwd, env=env)
    if r.returncode != 0:
        return None, r.stdout
    if not os.path.exists(out):
        return None, 'driver did not write a fact file (wrapper skipped?)\n' + r.stdout
    facts = json.load(open(out))
    if facts.get('nonce') != nonce:
        return None, 'stale fact file (nonce mismatch)'
    return facts, r.stdout


class BuildError(Exception):
    pass


def get_facts(repo=None, verbose=False):
    """Facts of /repo's current working tree (quizx lib target)."""
    repo = repo or REPO
    build_driver()
    os.makedirs(os.path.join(CACHE, 'facts'), exist_ok=True)
    h = tree_hash(repo, extra=[DRIVER])
    path = os.path.join(CACHE, 'facts', 'quizx-%s.json' % h)
    lock = open(os.path.join(CACHE, 'extract.lock'), 'w')
    fcntl.flock(lock, fcntl.LOCK_EX)
    try:
        if os.path.exists(path):
            facts = json.load(open(path))
            facts['_cached'] = True
        else:
            t0 = time.time()
            tmp = os.path.join(CACHE, 'facts', 'tmp-%d.json' % os.getpid())
            # /repo has its own target dir; every scratch copy (mutest / liveness / confirmseeds) shares one: extractions are serialised by the lock above
            tdir = os.path.join(CACHE, 'target' if os.path.abspath(repo) == '/repo' else 'target-scratch')
            if not os.path.exists(tdir) and os.path.exists(os.path.join(CACHE, 'target')) and os.path.abspath(repo) != '/repo':
                subprocess.run(['cp', '-r', os.path.join(CACHE, 'target'), tdir], check=False)   # dependencies' artefacts are path-independent: no cold build
            facts, log = _run_driver(repo, ['-p', 'quizx', '--lib'], 'quizx', tmp, tdir, 'quizx-*')
            if facts is None:
                raise BuildError(log[-4000:])
            facts['_extract_s'] = round(time.time() - t0, 2)
            # keep at most 6 cached fact files
            old = sorted(glob.glob(os.path.join(CACHE, 'facts', 'quizx-*.json')), key=os.path.getmtime)
            for p in old[:-5]:
                os.remove(p)
            os.replace(tmp, path)
            facts['_cached'] = False
        facts['_hash'] = h
        facts['_repo'] = repo
        return facts
    finally:
        fcntl.flock(lock, fcntl.LOCK_UN)
        lock.close()


def get_fixture_facts():
    """Facts of the positive-control fixture crate (self-contained, no dependencies)."""
    build_driver()
    os.makedirs(os.path.join(CACHE, 'facts'), exist_ok=True)
    files = []
    for d, _dirs, fs in os.walk(FIXTURE):
        if 'target' in d.split(os.sep):
            continue
        for f in fs:
            files.append(os.path.join(d, f))
    h = hashlib.sha256()
    for p in sorted(files) + [DRIVER]:
        h.update(p.encode())
        h.update(open(p, 'rb').read())
    hh = h.hexdigest()[:24]
    path = os.path.join(CACHE, 'facts', 'posctl-%s.json' % hh)
    lock = open(os.path.join(CACHE, 'extract-fixture.lock'), 'w')
    fcntl.flock(lock, fcntl.LOCK_EX)
    try:
        if os.path.exists(path):
            return json.load(open(path))
        tmp = os.path.join(CACHE, 'facts', 'tmpfx-%d.json' % os.getpid())
        facts, log = _run_driver(FIXTURE, ['--lib'], 'posctl', tmp, os.path.join(CACHE, 'target-posctl'), 'posctl-*')
        if facts is None:
            raise BuildError('fixture crate: ' + log[-4000:])
        for p in glob.glob(os.path.join(CACHE, 'facts', 'posctl-*.json')):
            os.remove(p)
        os.replace(tmp, path)
        return facts
    finally:
        fcntl.flock(lock, fcntl.LOCK_UN)
        lock.close()
