"""R-EFFECT — what a rewrite does (effect summaries), DESIGN 4.3.

A symbolic executor walks a rule body and records *effect atoms*: (context, primitive, normalised
arguments).  Contexts are loops over neighbourhoods / index pairs and guards; integer arguments are
normalised as rational polynomials, phases as linear forms over phase(v) symbols, scalars by a
small expression language.  The canonical rendering of the atoms is compared with the reference
schema of the rule (refs/effects_ref.py, derived from the calculus — Appendix A.1 of DESIGN.md).
"""
import os
import re
import sys
from fractions import Fraction as Fr

from . import hir

GL = 'graph::GraphLike::'
EFFECT_METHODS = {'add_to_phase', 'set_phase', 'add_to_vars', 'set_vars', 'add_edge_smart', 'add_edge_with_type', 'add_edge', 'remove_edge', 'toggle_edge_type',
                  'set_edge_type', 'remove_vertex', 'set_vertex_type', 'add_vertex', 'add_vertex_with_phase', 'add_vertex_with_data', 'mul_scalar_factor',
                  'set_inputs', 'set_outputs', 'scalar_mut', 'x_to_z', 'pack', 'plug_vertex', 'inputs_mut', 'outputs_mut', 'append_graph', 'plug', 'set_coord', 'set_row', 'set_qubit'}


# ---------------------------------------------------------------- polynomials / linear forms

class Poly:
    """rational polynomial over named symbols; monomial = sorted tuple of symbol names"""

    def __init__(self, terms=None):
        self.t = {k: Fr(v) for k, v in (terms or {}).items() if v != 0}

    @staticmethod
    def const(c):
        return Poly({(): Fr(c)})

    @staticmethod
    def sym(s):
        return Poly({(s,): Fr(1)})

    def __add__(self, o):
        r = dict(self.t)
        for k, v in o.t.items():
            r[k] = r.get(k, 0) + v
        return Poly(r)

    def __neg__(self):
        return Poly({k: -v for k, v in self.t.items()})

    def __sub__(self, o):
        return self + (-o)

    def __mul__(self, o):
        r = {}
        for k1, v1 in self.t.items():
            for k2, v2 in o.t.items():
                k = tuple(sorted(k1 + k2))
                r[k] = r.get(k, 0) + v1 * v2
        return Poly(r)

    def scale(self, c):
        return Poly({k: v * Fr(c) for k, v in self.t.items()})

    def is_const(self):
        return all(k == () for k in self.t)

    def const_val(self):
        return self.t.get((), Fr(0))

    def __eq__(self, o):
        return isinstance(o, Poly) and self.t == o.t

    def __hash__(self):
        return hash(tuple(sorted(self.t.items())))

    def __str__(self):
        if not self.t:
            return '0'
        parts = []
        for k in sorted(self.t, key=lambda m: (-len(m), m)):
            c = self.t[k]
            mono = '*'.join(k)
            if not k:
                parts.append(str(c))
            elif c == 1:
                parts.append(mono)
            elif c == -1:
                parts.append('-' + mono)
            else:
                parts.append('%s*%s' % (c, mono))
        return ' + '.join(parts).replace('+ -', '- ')


def P(x):
    return x if isinstance(x, Poly) else Poly.const(x)


# ---------------------------------------------------------------- symbolic values

class Val:
    """tagged symbolic value"""

    def __init__(self, tag, *a):
        self.tag = tag
        self.a = a

    def __repr__(self):
        return show(self)

    def __eq__(self, o):
        return isinstance(o, Val) and show(self) == show(o)

    def __hash__(self):
        return hash(show(self))


def show(v):
    if v is None:
        return '?'
    if isinstance(v, Poly):
        return str(v)
    if isinstance(v, (int, Fr)):
        return str(v)
    if isinstance(v, str):
        return v
    if isinstance(v, (list, tuple)):
        return '(' + ', '.join(show(x) for x in v) + ')'
    t, a = v.tag, v.a
    if t == 'vtx':
        return a[0]
    if t == 'const':
        return a[0].rsplit('::', 1)[-1]
    if t == 'phase':       # linear form (Poly over symbols like phase(v))
        return str(a[0])
    if t == 'int':
        return str(a[0])
    if t == 'vars':
        return 'vars(%s)' % show(a[0])
    if t == 'varsum':
        return ' + '.join(sorted(show(x) for x in a[0]))
    if t == 'negvars':
        return '~(%s)' % show(a[0])
    if t == 'coll':
        return '%s(%s)' % (a[0], show(a[1])) if show(a[1]) else a[0]
    if t == 'elem':
        return a[1]
    if t == 'scalar':
        return a[0]
    if t == 'slin':
        parts = []
        for k2, c2 in a[0]:
            parts.append(('%s' % k2) if c2 == 1 else (('- %s' % k2) if c2 == -1 else '%s*%s' % (c2, k2)))
        return '[' + ' + '.join(parts).replace('+ - ', '- ') + ']'
    if t == 'expr':
        return '%s[%s]' % (a[0], ', '.join(show(x) for x in a[1]))
    if t == 'etype_of':
        return 'etype(%s,%s)' % tuple(sorted([show(a[0]), show(a[1])]))
    if t == 'ty_of':
        return 'ty(%s)' % show(a[0])
    if t == 'opp':
        return 'opposite(%s)' % show(a[0])
    if t == 'merge':
        return 'merge(%s,%s)' % (show(a[0]), show(a[1]))
    if t == 'tuple':
        return '(' + ', '.join(show(x) for x in a[0]) + ')'
    if t == 'fresh':
        return 'fresh#%s' % a[0]
    if t == 'built':
        return 'vec{%s}' % '; '.join(a[0])
    if t == 'unk':
        return '<%s>' % a[0]
    if t == 'match':
        return 'match %s {%s}' % (a[0], '; '.join('%s => %s' % x for x in a[1]))
    if t == 'ite':
        return '(%s if %s else %s)' % (show(a[1]), a[0], show(a[2]))
    if t == 'idx':
        return a[0]
    if t == 'float':
        return a[0]
    if t == 'cond':
        return a[0]
    if t == 'q':
        return a[0]
    if t == 'param':
        return a[0]
    if t == 'bool':
        return str(a[0]).lower()
    return '%s%s' % (t, a)


class Exec:
    """symbolic executor of one rule body"""

    def __init__(self, facts, key, param_names=None, depth=0, no_vars=False):
        self.no_vars = no_vars    # evaluate under "no spider carries boolean parameters" (the parameter-free semantics)
        self.facts = facts
        self.key = key
        self.f = facts['fns'][key]
        self.env = {}
        self.ctx = []
        self.enum_subjects = {}  # printed term -> def path of the fieldless enum it has as type
        self.effects = []        # (ctx tuple of str, text)
        self.io_set = set()      # inputs / outputs already overwritten (later reads see the post-state)
        self.atoms = []          # structured effects: (ctx, primitive, argument values)
        self.unknown = []        # constructs not understood (make the summary unusable for conformance)
        self.loopn = 0
        self.fresh_n = 0
        self.mutated = False     # has the graph's structure been mutated yet? (reads afterwards see the post-state)
        self.depth = depth
        for i, p in enumerate(self.f['params']):
            if p.get('k') == 'Bind':
                nm = (param_names or {}).get(p['name'], p['name'])
                ty = self.f['inputs'][i] if i < len(self.f['inputs']) else ''
                if ty == 'usize':
                    self.env[p['id']] = Val('vtx', nm) if not isinstance(nm, Val) else nm
                elif isinstance(nm, Val):
                    self.env[p['id']] = nm
                else:
                    self.env[p['id']] = Val('param', p['name'])

    # ------------------------------------------------------------ helpers
    def emit(self, text):
        self.effects.append((tuple(self.ctx), text))

    def unk(self, what, node=None):
        """expression-level unknown: surfaces as <..> in any effect text or context that uses it"""
        return Val('unk', what)

    @staticmethod
    def _lit_pat(p):
        """integer literals a pattern admits: [..] / 'wild' / None (not a literal pattern)"""
        k = p.get('k')
        if k == 'Wild':
            return 'wild'
        if k == 'Lit':
            v = hir.lit_int({'k': 'Lit', 'v': p['v']})
            return [v] if v is not None else None
        if k == 'Or':
            out = []
            for sp in p['sub']:
                r = Exec._lit_pat(sp)
                if not isinstance(r, list):
                    return None
                out += r
            return out
        return None

    @staticmethod
    def _variant_pat(p):
        """variant names (last path segment) a pattern of enum constants admits: [..] / 'wild' / None"""
        k = p.get('k')
        if k == 'Wild':
            return 'wild'
        if k == 'Ref':
            return Exec._variant_pat(p['sub'])
        if k == 'Path':
            pa = p['res'].get('path') or ''
            if 'Ctor' in (p['res'].get('dk') or '') or 'Variant' in (p['res'].get('dk') or '') or p['res'].get('k') == 'Def':
                return [pa.rsplit('::', 1)[-1]] if pa else None
            return None
        if k == 'Or':
            out = []
            for sp in p['sub']:
                r = Exec._variant_pat(sp)
                if not isinstance(r, list):
                    return None
                out += r
            return out
        return None

    def note_enum(self, text, node):
        """remember that the printed term `text` has the type of a fieldless enum of the crate (the guard comparison enumerates its variants)"""
        t = (hir.strip(node).get('ty') or node.get('ty') or '').replace('&', '').replace('mut ', '').strip()
        a = self.facts.get('adts', {}).get(t)
        if a and a.get('kind') == 'enum' and all(not v['fields'] for v in a['variants']):
            self.enum_subjects[text] = t

    def arm_cond(self, sc, sc_node, pat):
        """condition under which `pat` matches the scrutinee, as printed text ('true' when irrefutable); binds the pattern's names.  None: not understood"""
        k = pat.get('k')
        if k == 'Wild':
            return 'true'
        if k == 'Bind' and not pat.get('sub'):
            self.env[pat['id']] = sc
            return 'true'
        if k == 'Ref':
            return self.arm_cond(sc, sc_node, pat['sub'])
        lits = self._lit_pat(pat)
        if isinstance(lits, list):
            parts = sorted('%s == %s' % tuple(sorted([str(v_), show(sc)])) for v_ in lits)
            return parts[0] if len(parts) == 1 else '(%s)' % ' or '.join(parts)
        vs = self._variant_pat(pat)
        if isinstance(sc, Val) and sc.tag == 'optget':
            if k == 'TupleStruct' and (hir.pat_ctor(pat) or '').endswith('Some') and len(pat['sub']) == 1:
                inner = pat['sub'][0]
                while inner.get('k') == 'Ref':
                    inner = inner['sub']
                if inner.get('k') in ('Bind', 'Wild') and not inner.get('sub'):
                    if inner.get('k') == 'Bind':
                        self.env[inner['id']] = sc.a[2]
                    return '%s < %s' % (show(sc.a[1]), show(sc.a[0]))
                return None
            if isinstance(vs, list) and vs == ['None']:
                return _negate('%s < %s' % (show(sc.a[1]), show(sc.a[0])))
            return None
        if isinstance(vs, list) and not (isinstance(sc, Val) and sc.tag == 'unk'):
            st = show(sc)
            self.note_enum(st, sc_node)
            parts = sorted(set('%s == %s' % tuple(sorted([v_, st])) for v_ in vs))
            return parts[0] if len(parts) == 1 else '(%s)' % ' or '.join(parts)
        return None

    def _match_as_chain(self, s):
        """`match` whose arms are enum constants / option shapes of a modelled value (with optional guards): an if / else-if chain.
        Returns False (nothing emitted) when some arm is not understood or an arm returns / continues."""
        sc = self.ev(s['scrut'])
        if isinstance(sc, Val) and sc.tag == 'unk':
            return False
        saved_env = dict(self.env)
        saved_subj = dict(self.enum_subjects)
        arms = []
        for a in s['arms']:
            c = self.arm_cond(sc, s['scrut'], a['pat'])
            if c is None or any(n.get('k') in ('Ret', 'Continue', 'Break') for n in hir.nodes(a['body'], into_closures=False)):
                self.env, self.enum_subjects = saved_env, saved_subj
                return False
            g = None
            if a.get('guard') is not None:
                g = self.cond_text(a['guard'])
                if '<' in g and '>' in g and re.search(r'<[a-zA-Z][a-zA-Z0-9_ :.-]*>', g):
                    self.env, self.enum_subjects = saved_env, saved_subj
                    return False
            arms.append((a, c, g))
        prev = []
        for a, c, g in arms:
            conj = [x for x in ([c] if c != 'true' else []) + ([g] if g not in (None, 'true') else [])]
            full = 'true' if not conj else conj[0] if len(conj) == 1 else '(%s)' % ' and '.join(sorted(conj))
            n_push = 0
            for pc in prev:
                self.ctx.append('if ' + _negate(pc))
                n_push += 1
            for x in conj:
                self.ctx.append('if ' + x)
                n_push += 1
            body = hir.strip(a['body'])
            if hir.diverges(body) or (any('panic' in (hir.callee(c2) or '') for c2 in hir.calls(a['body'])) and not any(
                    (n.get('callee') or '').startswith(GL) for n in hir.nodes(a['body']) if n.get('k') == 'MethodCall')):
                self.emit('panic')
            else:
                self.block(hir.stmts_of(a['body']))
            if n_push:
                del self.ctx[len(self.ctx) - n_push:]
            if full == 'true':
                break
            prev.append(full)
        return True

    def _match_table(self, e, arms):
        """a value-producing match over (a tuple of) fieldless enums of the crate, without guards or bindings: its full table in variant order —
        independent of how the arms are grouped (or-patterns, wildcards, arm order)"""
        ty = (e['scrut'].get('ty') or hir.strip(e['scrut']).get('ty') or '').strip()
        comps = [x.strip() for x in ty[1:-1].split(',')] if ty.startswith('(') and ty.endswith(')') else [ty]
        doms = []
        for c in comps:
            a = self.facts.get('adts', {}).get(c.replace('&', '').strip())
            if not (a and a.get('kind') == 'enum' and all(not v['fields'] for v in a['variants'])):
                return None
            doms.append([v['name'] for v in a['variants']])
        if any(a.get('guard') for a in e['arms']):
            return None

        def matches(p, val):
            k = p.get('k')
            if k == 'Wild':
                return True
            if k == 'Ref':
                return matches(p['sub'], val)
            if k == 'Or':
                return any(matches(sp, val) for sp in p['sub'])
            if k == 'Path':
                return (p['res'].get('path') or '').rsplit('::', 1)[-1] == val[0] if len(val) == 1 else None
            if k == 'Tuple' and len(p['sub']) == len(val):
                r = [matches(sp, (v,)) for sp, v in zip(p['sub'], val)]
                return None if None in r else all(r)
            return None
        import itertools
        out = []
        for combo in itertools.product(*doms):
            hit = None
            for (a, (_pt, body)) in zip(e['arms'], arms):
                m = matches(a['pat'], combo)
                if m is None:
                    return None
                if m:
                    hit = body
                    break
            if hit is None:
                return None
            out.append(('(%s)' % ', '.join(combo) if len(combo) > 1 else combo[0], hit))
        return out

    def unk_stmt(self, what, node):
        """statement-level construct that is not modelled: only matters if it can hide a graph effect"""
        if any(n.get('k') == 'MethodCall' and (n.get('callee') or '').startswith(GL) and n.get('mutborrow') is None and hir.strip(n['recv']).get('mutborrow')
               or (n.get('k') == 'MethodCall' and (n.get('callee') or '').startswith(GL) and (n.get('callee') or '')[len(GL):] in EFFECT_METHODS)
               or (n.get('k') == 'Call' and (hir.callee(n) or '').startswith(('basic_rules::', 'simplify::')))
               for n in hir.nodes(node)):
            self.unknown.append('%s @%d' % (what, hir.line(node)))

    def is_graph(self, e):
        e = hir.strip(e)
        l = hir.local(e)
        if l and isinstance(self.env.get(l[1]), Val) and self.env[l[1]].tag == 'param':
            return 'GraphLike' in (e.get('ty') or '') or l[0] in ('g', 'self', 'graph', 'other')
        return l is not None and l[0] in ('g', 'self', 'graph', 'other')

    def gname(self, e):
        """prefix for queries on a graph other than the one being rewritten"""
        l = hir.local(hir.strip(e))
        return '' if (l is None or l[0] in ('g', 'self', 'graph')) else l[0] + '.' 

    def post(self):
        return "'" if self.mutated else ''

    # ------------------------------------------------------------ expressions
    def ev(self, e):
        e = hir.strip(e)
        if e is None:
            return Val('unk', 'none')
        k = e.get('k')
        v = hir.lit_int(e)
        if v is not None:
            if (e.get('ty') or '').startswith(('i', 'u')) or e.get('k') in ('Lit', 'Unary', 'Cast'):
                return Val('int', Poly.const(v))
        b = hir.lit_bool(e)
        if b is not None:
            return Val('bool', b)
        if (e.get('ty') or '') in ('f64', 'f32') and k in ('Lit', 'Unary', 'Binary', 'MethodCall', 'Cast'):
            return Val('float', 'coord')
        if k == 'Path':
            l = hir.local(e)
            if l:
                return self.env.get(l[1], Val('unk', 'local ' + l[0]))
            return Val('const', hir.def_path(e) or '?')
        if k == 'Cast':
            return self.ev(e['e'])
        if k == 'Tup':
            return Val('tuple', [self.ev(x) for x in e['items']])
        if k == 'Field':
            b = self.ev(e['e'])
            if isinstance(b, Val) and b.tag == 'tuple' and e['name'].isdigit() and int(e['name']) < len(b.a[0]):
                return b.a[0][int(e['name'])]
            if isinstance(b, Val) and b.tag == 'elem' and e['name'].isdigit():
                return Val('elem', b.a[0], '%s.%s' % (b.a[1], e['name']))
            if isinstance(b, Val) and b.tag == 'q' and b.a[0].startswith('vertex_data(') and e['name'] == 'phase':
                return Val('phase', Poly.sym('phase(%s)' % b.a[0][len('vertex_data('):-1]))
            return Val('unk', 'field ' + e['name'])
        if k == 'Index':
            b = self.ev(e['e'])
            i = self.ev(e['i'])
            if isinstance(b, Val) and b.tag == 'coll' and isinstance(i, Val) and i.tag in ('idx', 'vtx', 'elem'):
                return Val('elem', b, '%s[%s]' % (show(b), show(i)))
            if isinstance(b, Val) and b.tag == 'coll' and isinstance(i, Val) and i.tag == 'int' and i.a[0].is_const():
                if b.a[0].startswith('inc'):
                    return Val('tuple', [Val('elem', b, '%s[%s].v' % (show(b), i.a[0])), Val('elem', b, '%s[%s].et' % (show(b), i.a[0]))])
                return Val('elem', b, '%s[%s]' % (show(b), i.a[0]))
            if isinstance(b, Val) and b.tag == 'tuple' and isinstance(i, Val) and i.tag == 'int' and i.a[0].is_const():
                return b.a[0][int(i.a[0].const_val())]
            if isinstance(b, Val) and b.tag == 'elem' and isinstance(i, Val) and i.tag == 'int' and i.a[0].is_const():
                return Val('elem', b.a[0], '%s[%s]' % (b.a[1], i.a[0]))
            if isinstance(b, Val) and b.tag == 'param' and isinstance(i, Val) and (i.tag in ('idx', 'vtx', 'elem') or (i.tag == 'int' and i.a[0].is_const())):
                return Val('elem', Val('coll', b.a[0], Val('vtx', '')), '%s[%s]' % (b.a[0], show(i)))
            if isinstance(b, Val) and b.tag == 'param' and hir.range_bounds(e['i']):
                rb = hir.range_bounds(e['i'])
                lo = show(self.ev(rb[0])) if rb[0] is not None else ''
                hi = show(self.ev(rb[1])) if rb[1] is not None else ''
                return Val('coll', '%s[%s..%s]' % (b.a[0], lo, hi), Val('vtx', ''))
            bl = hir.local(e['e'])
            if bl is not None and isinstance(i, Val) and i.tag in ('vtx', 'elem', 'fresh', 'idx'):
                # lookup in a local table (e.g. a vertex map): symbolic element named table[key]
                return Val('elem', Val('coll', bl[0], Val('vtx', '')), '%s[%s]' % (bl[0], show(i)))
            return Val('unk', 'index')
        if k == 'Unary' and e['op'] == 'Neg':
            x = self.ev(e['e'])
            if isinstance(x, Val) and x.tag in ('phase', 'int'):
                return Val(x.tag, -x.a[0])
            if isinstance(x, Val) and x.tag == 'scalar':
                return Val('scalar', '-(%s)' % x.a[0])
            return self.unk('neg', e)
        if k == 'Unary' and e['op'] == 'Not':
            x = self.ev(e['e'])
            return Val('cond', 'not ' + show(x))
        if k == 'Binary':
            return self.binary(e)
        if k == 'MethodCall':
            return self.method(e)
        if k == 'Call':
            items = hir.vec_literal(e)
            if items == []:
                return Val('built', ())
            if items:
                return Val('tuple', [self.ev(x) for x in items])
            c_ = hir.callee(e) or ''
            if not e['args'] and (e.get('ty') or '').replace('std::vec::', '').replace('alloc::vec::', '').startswith('Vec<') and c_.endswith(('::new', '::default')):
                return Val('built', ())      # Vec::new() is vec![]
            return self.call(e)
        if k == 'Array':
            return Val('tuple', [self.ev(x) for x in e['items']])
        if k == 'Struct':
            return Val('struct', e['ctor'].get('path'), dict((n, self.ev(x)) for n, x in e['fields']))
        if k == 'Block':
            st = hir.stmts_of(e)
            if len(st) == 1:
                return self.ev(st[0])
        if k == 'If':
            # value-producing if: both branches as alternatives
            c = self.cond_text(e['cond'])
            a = self.ev(e['then'])
            b2 = self.ev(e['else']) if e.get('else') else Val('unk', 'no-else')
            return Val('ite', c, a, b2)
        if k == 'Match':
            sc = self.ev(e['scrut'])
            arms = []
            for a in e['arms']:
                div = hir.diverges(hir.strip(a['body'])) or any('panic' in (hir.callee(c) or '') for c in hir.calls(a['body']))
                arms.append((hir.pp_pat(a['pat']), '!' if div else show(self.ev(a['body']))))
            tbl = self._match_table(e, arms)
            if tbl is not None:
                return Val('match', show(sc), tuple(tbl))
            return Val('match', show(sc), tuple(arms))
        return Val('unk', k)

    def as_phase(self, v):
        if isinstance(v, Val) and v.tag == 'phase':
            return v
        if isinstance(v, Val) and v.tag == 'int' and v.a[0].is_const():
            return Val('phase', Poly.const(v.a[0].const_val()))
        if isinstance(v, Val) and v.tag == 'ratio':
            return Val('phase', Poly.const(v.a[0]))
        return v

    def binary(self, e):
        op = e['op']
        l, r = self.ev(e['l']), self.ev(e['r'])
        if op in ('Add', 'Sub', 'Mul', 'Div'):
            if isinstance(l, Val) and isinstance(r, Val) and l.tag == 'idx' and r.tag == 'int' and op in ('Add', 'Sub'):
                return Val('idx', '%s%s%s' % (l.a[0], '+' if op == 'Add' else '-', show(r)))
            if isinstance(l, Val) and isinstance(r, Val):
                if l.tag == 'int' and r.tag == 'int':
                    if op == 'Add':
                        return Val('int', l.a[0] + r.a[0])
                    if op == 'Sub':
                        return Val('int', l.a[0] - r.a[0])
                    if op == 'Mul':
                        return Val('int', l.a[0] * r.a[0])
                    if op == 'Div' and r.a[0].is_const() and r.a[0].const_val() != 0:
                        return Val('int', l.a[0].scale(1 / r.a[0].const_val()))
                lp, rp = self.as_phase(l), self.as_phase(r)
                if lp.tag == 'phase' and rp.tag == 'phase' and (l.tag == 'phase' or r.tag == 'phase'):
                    if op == 'Add':
                        return Val('phase', lp.a[0] + rp.a[0])
                    if op == 'Sub':
                        return Val('phase', lp.a[0] - rp.a[0])
                    if op == 'Mul' and rp.a[0].is_const():
                        return Val('phase', lp.a[0].scale(rp.a[0].const_val()))
                    if op == 'Div' and rp.a[0].is_const() and rp.a[0].const_val() != 0:
                        return Val('phase', lp.a[0].scale(1 / rp.a[0].const_val()))
                if (l.tag in ('scalar', 'slin') or r.tag in ('scalar', 'slin')) and op in ('Add', 'Sub'):
                    # linear combination of atomic scalars: order-independent normal form
                    def terms(x):
                        if x.tag == 'slin':
                            return dict(x.a[0])
                        if x.tag == 'int' and x.a[0].is_const():
                            return {'1': x.a[0].const_val()}
                        return {show(x): Fr(1)}
                    d = terms(l)
                    for k2, c2 in terms(r).items():
                        d[k2] = d.get(k2, 0) + (c2 if op == 'Add' else -c2)
                    d = {k2: c2 for k2, c2 in d.items() if c2 != 0}
                    return Val('slin', tuple(sorted(d.items())))
                if l.tag in ('scalar', 'slin') or r.tag in ('scalar', 'slin'):
                    sym = {'Add': '+', 'Sub': '-', 'Mul': '*', 'Div': '/'}[op]
                    return Val('scalar', '(%s %s %s)' % (show(l), sym, show(r)))
                if l.tag in ('vars', 'varsum') and r.tag in ('vars', 'varsum') and op == 'Add':
                    xs = (list(l.a[0]) if l.tag == 'varsum' else [l]) + (list(r.a[0]) if r.tag == 'varsum' else [r])
                    return Val('varsum', tuple(xs))
            return self.unk('arith %s %s %s' % (show(l), op, show(r)), e)
        if op in ('Eq', 'Ne', 'Lt', 'Le', 'Gt', 'Ge', 'And', 'Or'):
            return Val('cond', self.cond_text(e))
        return self.unk('binary ' + op, e)

    def cond_text(self, e):
        e = hir.strip(e)
        k = e.get('k')
        if k == 'Binary' and e['op'] in ('And', 'Or'):
            parts = sorted([self.cond_text(e['l']), self.cond_text(e['r'])])
            if e['op'] == 'And':
                if 'false' in parts:
                    return 'false'
                parts = [x for x in parts if x != 'true']
                if not parts:
                    return 'true'
            else:
                if 'true' in parts:
                    return 'true'
                parts = [x for x in parts if x != 'false']
                if not parts:
                    return 'false'
            if len(parts) == 1:
                return parts[0]
            return '(%s)' % ({'And': ' and ', 'Or': ' or '}[e['op']].join(parts))
        if self.no_vars and k == 'MethodCall' and e['name'] == 'is_empty' and not e['args']:
            r = self.ev(e['recv'])
            if isinstance(r, Val) and r.tag in ('vars', 'varsum', 'negvars'):
                return 'true'
        if k == 'Unary' and e['op'] == 'Not':
            return _negate(self.cond_text(e['e']))
        if k == 'Binary' and e['op'] in ('Eq', 'Ne', 'Lt', 'Le', 'Gt', 'Ge'):
            l, r = show(self.ev(e['l'])), show(self.ev(e['r']))
            if e['op'] in ('Eq', 'Ne'):
                self.note_enum(l, e['l'])
                self.note_enum(r, e['r'])
            if e['op'] in ('Eq', 'Ne') and l > r:
                l, r = r, l
            return '%s %s %s' % (l, {'Eq': '==', 'Ne': '!=', 'Lt': '<', 'Le': '<=', 'Gt': '>', 'Ge': '>='}[e['op']], r)
        if k == 'MethodCall' and e['name'] in ('is_empty', 'is_zero', 'is_one', 'is_pauli', 'is_some', 'is_none') and not e['args']:
            return '%s.%s' % (show(self.ev(e['recv'])), e['name'])
        if k == 'MethodCall' and e['name'] == 'contains' and len(e['args']) == 1:
            rv, av = self.ev(e['recv']), self.ev(e['args'][0])
            if not (isinstance(rv, Val) and rv.tag == 'unk') and not (isinstance(av, Val) and av.tag == 'unk'):
                return '%s in %s' % (show(av), show(rv))
        if k == 'MethodCall' and not e['args'] and e.get('ty') == 'bool':
            rt = (hir.strip(e['recv']).get('ty') or '').replace('&', '').replace('mut ', '').strip()
            a_ = self.facts.get('adts', {}).get(rt)
            if a_ and a_.get('kind') == 'enum' and all(not v_['fields'] for v_ in a_['variants']) and (e.get('callee') or '').startswith(rt + '::'):
                rv = self.ev(e['recv'])
                if not (isinstance(rv, Val) and rv.tag == 'unk'):
                    self.note_enum(show(rv), e['recv'])
                    return '%s.%s' % (show(rv), e['name'])
        if k == 'LetCond':
            scv = self.ev(e['init'])
            saved = dict(self.env)
            c_ = self.arm_cond(scv, e['init'], e['pat'])
            if c_ is not None and not (isinstance(scv, Val) and scv.tag == 'unk'):
                return c_
            self.env = saved
            return '%s ~ %s' % (show(scv), hir.pp_pat(e['pat']))
        if k == 'Match' and e['arms'] and all(hir.lit_bool(hir.strip(a['body'])) is not None and not a.get('guard') for a in e['arms']) \
                and not all(self._lit_pat(a['pat']) is not None for a in e['arms']):
            # matches!(x, A | B) over enum constants / option shapes: an if-chain of pattern conditions
            scv = self.ev(e['scrut'])
            saved = dict(self.env)
            prev, disj, ok_ = [], [], not (isinstance(scv, Val) and scv.tag == 'unk')
            for a in e['arms']:
                c_ = self.arm_cond(scv, e['scrut'], a['pat']) if ok_ else None
                if c_ is None:
                    ok_ = False
                    break
                if hir.lit_bool(hir.strip(a['body'])):
                    conj = sorted(set([_negate(x) for x in prev] + ([c_] if c_ != 'true' else [])))
                    disj.append('true' if not conj else conj[0] if len(conj) == 1 else '(%s)' % ' and '.join(conj))
                if c_ == 'true':
                    break
                prev.append(c_)
            self.env = saved
            if ok_:
                disj = sorted(set(disj))
                if 'true' in disj:
                    return 'true'
                return 'false' if not disj else disj[0] if len(disj) == 1 else '(%s)' % ' or '.join(disj)
        if k == 'Match' and e['arms'] and all(hir.lit_bool(hir.strip(a['body'])) is not None and not a.get('guard') and self._lit_pat(a['pat']) is not None for a in e['arms']):
            # matches!(x, 3 | 5): a disjunction of equalities (only true-arms before the first wildcard count)
            sc = show(self.ev(e['scrut']))
            parts = []
            seen_false = False
            for a in e['arms']:
                lits = self._lit_pat(a['pat'])
                val = hir.lit_bool(hir.strip(a['body']))
                if lits == 'wild':
                    if val and not seen_false and not parts:
                        return 'true'
                    break
                if val:
                    parts += ['%s == %s' % tuple(sorted([str(v_), sc])) for v_ in lits]
                else:
                    seen_false = True
            if not seen_false or True:
                parts = sorted(set(parts))
                if not parts:
                    return 'false'
                return parts[0] if len(parts) == 1 else '(%s)' % ' or '.join(parts)
        if k == 'Path':
            l = hir.local(e)
            if l and isinstance(self.env.get(l[1]), Val) and self.env[l[1]].tag == 'cond':
                return self.env[l[1]].a[0]
        v = self.ev(e)
        return show(v)

    # ------------------------------------------------------------ calls
    def call(self, e):
        c = hir.callee(e) or ''
        args = e['args']
        short = c.rsplit('::', 1)[-1]
        if c.endswith('Ratio::<T>::new') or c.endswith('Ratio::new') or (short == 'new' and 'Ratio' in c):
            a, b = hir.lit_int(args[0]), hir.lit_int(args[1])
            if a is not None and b:
                return Val('phase', Poly.const(Fr(a, b)))
        if c in ('phase::Phase::new',) or short in ('from', 'into') and len(args) == 1:
            return self.as_phase(self.ev(args[0]))
        if c.endswith('Phase as num::Zero>::zero') or c == 'num::Zero::zero':
            if 'Phase' in (e.get('ty') or ''):
                return Val('phase', Poly.const(0))
            if 'Parity' in (e.get('ty') or ''):
                return Val('varsum', ())
            if 'Scalar' in (e.get('ty') or ''):
                return Val('scalar', '0')
            return Val('int', Poly.const(0))
        if c.endswith('num::One>::one') or c == 'num::One::one':
            if 'Phase' in (e.get('ty') or ''):
                return Val('phase', Poly.const(1))
            if 'Scalar' in (e.get('ty') or ''):
                return Val('scalar', '1')
            return Val('int', Poly.const(1))
        if c.endswith('FromPhase>::from_phase') or c.endswith('FromPhase::from_phase'):
            return Val('scalar', 'e(%s)' % show(self.as_phase(self.ev(args[0]))))
        if c.endswith('FromPhase>::minus_one') or c.endswith('FromPhase::minus_one'):
            return Val('scalar', '-1')
        if c == 'scalar::Scalar4::one_plus_phase':
            return Val('scalar', '1+e(%s)' % show(self.as_phase(self.ev(args[0]))))
        if c.endswith('Sqrt2>::sqrt2_pow') or c.endswith('Sqrt2::sqrt2_pow'):
            return Val('scalar', 'sqrt2^(%s)' % show(self.ev(args[0])))
        if c == 'scalar::Scalar4::new':
            items = hir.vec_literal(args[0]) or []
            return Val('scalar', 'Z[w][%s]*2^%s' % (','.join(str(hir.lit_int(i)) for i in items), hir.lit_int(args[1])))
        if c == 'params::Expr::linear':
            return Val('expr', 'linear', [self.ev(args[0])])
        if c == 'params::Expr::quadratic':
            return Val('expr', 'quadratic', [self.ev(args[0]), self.ev(args[1])])
        if c == 'params::Parity::zero':
            return Val('varsum', ())
        if short == 'from_iter' and len(args) == 1:
            return self.ev(args[0])
        if c in self.facts['fns'] and c.startswith(('basic_rules::', 'simplify::', 'decompose::')) and self.depth < 1 and self.is_graph(args[0]) if args else False:
            # call of another local rule: recorded as one effect (its own schema is checked separately)
            self.emit('call %s(%s)' % (short, ', '.join(show(self.ev(a)) for a in args[1:])))
            self.mutated = True
            return Val('unit')
        if c == 'graph::EType::merge':
            return Val('merge', self.ev(args[0]), self.ev(args[1]))
        if c.endswith('mem::swap'):
            return self.unk('mem::swap', e)
        if short in ('default',):
            return Val('default')
        for a in args:
            self.ev(a)     # nested calls may carry effects
        return self.unk('call ' + short, e)

    def method(self, e):
        c = e.get('callee') or ''
        n = e['name']
        args = e['args']
        recv = e['recv']
        if c.startswith(GL) and self.is_graph(recv):
            m = c[len(GL):]
            a = [self.ev(x) for x in args]
            gn = self.gname(recv)
            if gn:
                # a second (read-only) graph: only queries
                if m in ('incident_edges', 'incident_edge_vec'):
                    return Val('coll', gn + 'inc', a[0])
                if m in ('neighbors', 'neighbor_vec'):
                    return Val('coll', gn + 'N', a[0])
                if m in ('inputs', 'outputs', 'vertices', 'edges', 'vertex_vec', 'edge_vec'):
                    return Val('coll', gn + m, Val('vtx', ''))
                return Val('q', '%s%s(%s)' % (gn, m, ', '.join(show(x) for x in a)))
            # queries
            if m == 'phase':
                return Val('phase', Poly.sym('phase(%s)%s' % (show(a[0]), '')))
            if m == 'vars':
                return Val('vars', a[0])
            if m == 'phase_and_vars':
                return Val('tuple', [Val('phase', Poly.sym('phase(%s)' % show(a[0]))), Val('vars', a[0])])
            if m == 'degree':
                return Val('int', Poly.sym('deg(%s)%s' % (show(a[0]), self.post())))
            if m in ('neighbors', 'neighbor_vec'):
                return Val('coll', 'N' + self.post(), a[0])
            if m in ('incident_edges', 'incident_edge_vec'):
                return Val('coll', 'inc' + self.post(), a[0])
            if m in ('vertices', 'vertex_vec'):
                return Val('coll', 'V', Val('vtx', 'g'))
            if m == 'vertex_type':
                return Val('ty_of', a[0])
            if m == 'edge_type':
                return Val('etype_of', a[0], a[1])
            if m in ('inputs', 'outputs'):
                return Val('coll', m + ("'" if m in self.io_set else ''), Val('vtx', ''))
            if m in ('row', 'qubit', 'coord', 'vertex_data', 'scalar', 'num_vertices', 'num_edges', 'contains_vertex', 'connected', 'edge_type_opt', 'vertex_type_opt', 'vertex_data_opt'):
                return Val('q', '%s(%s)' % (m, ', '.join(sorted(show(x) for x in a)) if m in ('edge_type_opt', 'connected') else ', '.join(show(x) for x in a)))
            if m == 'scalar_mut':
                return Val('scalar_mut')
            # effects
            txt = None
            if m in ('add_to_phase', 'set_phase'):
                txt = '%s(%s, %s)' % (m, show(a[0]), show(self.as_phase(a[1])))
            elif m in ('add_to_vars', 'set_vars'):
                txt = '%s(%s, %s)' % (m, show(a[0]), show(a[1]))
            elif m in ('add_edge_smart', 'add_edge_with_type', 'set_edge_type'):
                ends = sorted([show(a[0]), show(a[1])])
                txt = '%s(%s, %s, %s)' % (m, ends[0], ends[1], show(a[2]))
                self.mutated = True
            elif m in ('add_edge', 'remove_edge', 'toggle_edge_type'):
                ends = sorted([show(a[0]), show(a[1])])
                txt = '%s(%s, %s)' % (m, ends[0], ends[1])
                self.mutated = True
            elif m == 'remove_vertex':
                txt = 'remove_vertex(%s)' % show(a[0])
                self.mutated = True
            elif m == 'set_vertex_type':
                txt = 'set_vertex_type(%s, %s)' % (show(a[0]), show(a[1]))
            elif m in ('add_vertex', 'add_vertex_with_phase', 'add_vertex_with_data'):
                self.fresh_n += 1
                desc = ''
                if m == 'add_vertex_with_data' and isinstance(a[0], Val) and a[0].tag == 'struct':
                    flds = a[0].a[1]
                    desc = ', '.join('%s=%s' % (k2, show(flds[k2])) for k2 in sorted(flds) if k2 in ('ty', 'phase'))
                elif a:
                    desc = ', '.join(show(x) for x in a)
                self.emit('fresh#%d = add_vertex(%s)' % (self.fresh_n, desc))
                self.mutated = True
                return Val('fresh', self.fresh_n)
            elif m == 'mul_scalar_factor':
                txt = 'scalar_factor(%s, %s)' % (show(a[0]), show(a[1]))
            elif m in ('set_inputs', 'set_outputs'):
                txt = '%s(%s)' % (m, show(a[0]))
                self.io_set.add(m[4:])
            elif m in ('x_to_z', 'pack', 'plug_vertex', 'adjoint'):
                txt = '%s(%s)' % (m, ', '.join(show(x) for x in a))
            elif m == 'append_graph':
                self.emit('append_graph(%s)' % ', '.join(show(x) for x in a))
                self.mutated = True
                return Val('coll', 'vmap', Val('vtx', ''))
            elif m in ('inputs_mut', 'outputs_mut'):
                return Val('iomut', m[:-4])
            if txt is not None:
                self.emit(txt)
                self.atoms.append((tuple(self.ctx), m, a))
                return Val('unit')
            return self.unk('GraphLike::' + m, e)
        r = self.ev(recv)
        # scalar operations on g.scalar_mut()
        if isinstance(r, Val) and r.tag == 'scalar_mut':
            a = [self.ev(x) for x in args]
            if n == 'mul_sqrt2_pow':
                self.emit('scalar *= sqrt2^(%s)' % show(a[0]))
                return Val('unit')
            if n == 'mul_phase':
                self.emit('scalar *= e(%s)' % show(self.as_phase(a[0])))
                return Val('unit')
            if n == 'mul_one_plus_phase':
                self.emit('scalar *= 1+e(%s)' % show(self.as_phase(a[0])))
                return Val('unit')
            if n == 'conj':
                return Val('scalar', 'conj(scalar)')
            return self.unk('scalar.' + n, e)
        if isinstance(r, Val) and r.tag == 'iomut' and n in ('remove', 'push', 'insert', 'clear', 'swap_remove'):
            self.emit('%s.%s(%s)' % (r.a[0], n, ', '.join(show(self.ev(x)) for x in args)))
            self.io_set.add(r.a[0])
            return Val('unit')
        if n in ('clone', 'copied', 'cloned', 'iter', 'into_iter', 'collect', 'to_vec', 'by_ref', 'into') and len(args) == 0:
            return self.as_phase(r) if n == 'into' else r
        if n == 'len' and isinstance(r, Val) and r.tag == 'coll':
            return Val('int', Poly.sym('|%s|' % show(r)))
        if n == 'negated' and isinstance(r, Val) and r.tag in ('vars', 'varsum'):
            return Val('negvars', r)
        if n == 'opposite':
            return Val('opp', r)
        if n == 'merge' and len(args) == 1:
            return Val('merge', r, self.ev(args[0]))
        if n in ('is_empty', 'is_zero', 'is_one', 'is_pauli'):
            return Val('cond', '%s.%s' % (show(r), n))
        if isinstance(r, Val) and r.tag == 'param' and not args and n.startswith('is_'):
            return Val('cond', '%s.%s' % (r.a[0], n))
        if n == 'retain' and isinstance(r, Val) and r.tag == 'coll' and args and hir.strip(args[0]).get('k') == 'Closure':
            cl = hir.strip(args[0])
            saved = dict(self.env)
            self.bind(cl['params'][0], Val('elem', r, 'x'))
            c = self.cond_text(cl['body'])
            self.env = saved
            l = hir.local(recv)
            if l:
                self.env[l[1]] = Val('coll', 'filter[%s] %s' % (c, r.a[0]), r.a[1])
                return Val('unit')
        if n == 'filter' and isinstance(r, Val) and r.tag == 'coll' and args and hir.strip(args[0]).get('k') == 'Closure':
            # iterator form of retain: the same filtered collection
            cl = hir.strip(args[0])
            saved = dict(self.env)
            self.bind(cl['params'][0], Val('elem', r, 'x'))
            c = self.cond_text(cl['body'])
            self.env = saved
            return Val('coll', 'filter[%s] %s' % (c, r.a[0]), r.a[1])
        if n in ('sort', 'sort_unstable', 'dedup', 'reverse', 'truncate', 'clear', 'pop', 'remove', 'swap_remove', 'insert', 'append', 'extend', 'drain', 'push') and isinstance(r, Val) and r.tag == 'coll':
            l = hir.local(recv)
            if l and n not in ('sort', 'sort_unstable'):
                self.env[l[1]] = Val('unk', 'collection mutated by .%s()' % n)
            return Val('unit')
        if n == 'count' and isinstance(r, Val) and r.tag == 'coll' and not args:
            return Val('int', Poly.sym('|%s|' % show(r)))
        if n == 'rev':
            return r
        if n == 'enumerate' and isinstance(r, Val) and r.tag == 'coll':
            return Val('coll', 'enumerate ' + show(r), Val('vtx', ''))
        if n == 'len' and isinstance(r, Val) and r.tag == 'param':
            return Val('int', Poly.sym('|%s|' % r.a[0]))
        if n == 'get' and len(args) == 1 and isinstance(r, Val) and r.tag in ('param', 'coll') and 'Option<' in (e.get('ty') or ''):
            iv = self.ev(args[0])
            if isinstance(iv, Val) and (iv.tag in ('idx', 'vtx', 'elem') or (iv.tag == 'int' and iv.a[0].is_const())):
                nm_ = r.a[0] if r.tag == 'param' else show(r)
                cv_ = r if r.tag == 'coll' else Val('coll', r.a[0], Val('vtx', ''))
                return Val('optget', Val('int', Poly.sym('|%s|' % nm_)), iv, Val('elem', cv_, '%s[%s]' % (nm_, show(iv))))
        if n == 'push' and isinstance(r, Val) and r.tag == 'built' and len(args) == 1:
            l = hir.local(recv)
            if l:
                loopctx = ' | '.join(self.ctx)
                self.env[l[1]] = Val('built', r.a[0] + (('%s : %s' % (loopctx, show(self.ev(args[0])))) if loopctx else show(self.ev(args[0])),))
                return Val('unit')
        if n == 'skip' and isinstance(r, Val) and r.tag in ('coll', 'elem'):
            base = r if r.tag == 'coll' else Val('coll', r.a[1], Val('vtx', ''))
            return Val('coll', 'skip%s:%s' % (show(self.ev(args[0])), base.a[0]), base.a[1])
        if n == 'len' and isinstance(r, Val) and r.tag == 'elem':
            return Val('int', Poly.sym('|%s|' % r.a[1]))
        if n in ('next',) and isinstance(r, Val) and r.tag == 'coll':
            if 'inc' in r.a[0]:
                return Val('tuple', [Val('elem', r, 'first(%s).v' % show(r)), Val('elem', r, 'first(%s).et' % show(r))])
            return Val('elem', r, 'first(%s)' % show(r))
        if n in ('unwrap', 'expect', 'unwrap_or_else'):
            return r
        if n == 'map' and isinstance(r, Val) and r.tag == 'coll' and args and hir.strip(args[0]).get('k') == 'Closure':
            cl = hir.strip(args[0])
            saved = dict(self.env)
            self.bind(cl['params'][0], Val('elem', r, 'x'))
            body = show(self.ev(cl['body']))
            self.env = saved
            return Val('coll', 'map[x -> %s] %s' % (body, show(r)), Val('vtx', ''))
        if n == 'conj' and isinstance(r, Val) and r.tag == 'q' and r.a[0].startswith('scalar'):
            return Val('scalar', 'conj(scalar)')
        if n == 'phase' and not args:
            return Val('phase', Poly.sym('%s.phase' % show(r)))
        if n == 'find' and isinstance(r, Val) and r.tag == 'coll' and args and hir.strip(args[0]).get('k') == 'Closure':
            cl = hir.strip(args[0])
            sub_env = dict(self.env)
            for _nm, i in hir.bindings(cl['params'][0]):
                self.env[i] = Val('elem', r, 'x')
            c = self.cond_text(cl['body'])
            self.env = sub_env
            return Val('elem', r, 'the x in %s with %s' % (show(r), c))
        return self.unk('method ' + n, e)

    # ------------------------------------------------------------ statements
    def run(self):
        self.block(hir.stmts_of(self.f['hir']))
        return self

    def block(self, stmts, loop_body=False):
        depth0 = len(self.ctx)
        self._bdepth = getattr(self, '_bdepth', 0) + 1
        if loop_body:
            self._loop_bodies = getattr(self, '_loop_bodies', []) + [self._bdepth]
        for s in stmts:
            self.stmt(s)
        if loop_body:
            self._loop_bodies = self._loop_bodies[:-1]
        self._bdepth -= 1
        if self._bdepth > 0:
            # guard contexts opened inside this block (early continue / break / nested return guards) end with it
            del self.ctx[depth0:]

    def bind(self, pat, val):
        k = pat.get('k')
        if k == 'Bind':
            self.env[pat['id']] = val
        elif k == 'Ref':
            self.bind(pat['sub'], val)
        elif k == 'Tuple':
            for i, sp in enumerate(pat['sub']):
                if isinstance(val, Val) and val.tag == 'tuple' and i < len(val.a[0]):
                    self.bind(sp, val.a[0][i])
                elif isinstance(val, Val) and val.tag == 'elem':
                    self.bind(sp, Val('elem', val.a[0], '%s.%d' % (val.a[1], i)))
                else:
                    self.bind(sp, Val('unk', 'tuple-part'))
        elif k == 'Wild':
            pass
        else:
            for _n, i in hir.bindings(pat):
                self.env[i] = Val('unk', 'pattern')

    def stmt(self, s):
        k = s.get('k')
        if k == 'Let':
            if s.get('init') is not None:
                i0 = hir.strip(s['init'])
                if i0.get('ty') == 'bool' and s['pat'].get('k') == 'Bind' and 'Mut' not in (s['pat'].get('mode') or '') and i0.get('k') in ('Binary', 'Unary', 'MethodCall'):
                    self.env[s['pat']['id']] = Val('cond', self.cond_text(i0))
                    return
                v = self.ev(s['init'])
                if isinstance(v, Val) and v.tag in ('slin',) and s['pat'].get('k') == 'Bind':
                    # name compound scalar values: keeps guards and effects readable
                    self.emit('let %s = %s' % (s['pat']['name'], show(v)))
                    v = Val('scalar', s['pat']['name'])
                self.bind(s['pat'], v)
            return
        if k == 'If':
            c0 = hir.strip(s['cond'])
            if c0.get('k') == 'LetCond':
                v = self.ev(c0['init'])
                for nm, i in hir.bindings(c0['pat']):
                    self.env[i] = Val('elem', Val('coll', 'bound', Val('vtx', '')), nm)
            c = self.cond_text(s['cond'])
            if c == 'true':
                self.block(hir.stmts_of(s['then']))
                return
            if c == 'false':
                if s.get('else'):
                    self.block(hir.stmts_of(s['else']))
                return
            # early return guard: `if cond { return; }` → the rest runs under not cond
            tb = hir.stmts_of(s['then'])
            if tb and hir.strip(tb[-1]).get('k') in ('Continue', 'Break') and not s.get('else') and getattr(self, '_loop_bodies', []) and self._loop_bodies[-1] == self._bdepth \
                    and hir.strip(tb[-1]).get('k') == 'Continue':
                # `if cond { ..; continue; }` directly in a loop body: the rest of this iteration runs under not cond
                self.ctx.append('if ' + c)
                self.block(tb[:-1])
                self.ctx.pop()
                self.ctx.append('if ' + _negate(c))
                return
            if any(n.get('k') in ('Continue', 'Break') for n in hir.nodes(s, into_closures=False)) and not any(n.get('k') in ('For', 'While', 'Loop') for n in hir.nodes(s, into_closures=False)):
                self.unknown.append('conditional continue/break in an unrecognised position @%d' % hir.line(s))
            if tb and hir.strip(tb[-1]).get('k') == 'Ret' and not s.get('else'):
                self.ctx.append('if ' + c)
                self.block(tb[:-1])
                self.ctx.pop()
                self.ctx.append('if ' + _negate(c))
                self._pending_pop = getattr(self, '_pending_pop', 0) + 1
                return
            self.ctx.append('if ' + c)
            self.block(tb)
            self.ctx.pop()
            if s.get('else'):
                self.ctx.append('if ' + _negate(c))
                self.block(hir.stmts_of(s['else']))
                self.ctx.pop()
            return
        if k == 'For':
            it = self.ev(s['iter'])
            self.loopn += 1
            rb = hir.range_bounds(s['iter'])
            if rb and rb[0] is not None and rb[1] is not None:
                lo, hi = self.ev(rb[0]), self.ev(rb[1])
                name = hir.bindings(s['pat'])[0][0] if hir.bindings(s['pat']) else 'i'
                self.bind(s['pat'], Val('idx', name))
                self.ctx.append('for %s in %s..%s' % (name, show(lo), show(hi)))
                self.block(hir.stmts_of(s['body']), loop_body=True)
                self.ctx.pop()
                return
            if isinstance(it, Val) and it.tag == 'coll':
                names = [n for n, _i in hir.bindings(s['pat'])]
                if it.a[0].startswith('inc') or 'inc' in it.a[0]:
                    if len(names) == 2:
                        self.bind(s['pat'], Val('tuple', [Val('elem', it, names[0]), Val('elem', it, 'et_' + names[0])]))
                        self.ctx.append('each (%s, et_%s) in %s' % (names[0], names[0], show(it)))
                    else:
                        self.bind(s['pat'], Val('elem', it, names[0] if names else 'x'))
                        self.ctx.append('each %s in %s' % (names[0] if names else 'x', show(it)))
                elif len(names) >= 2:
                    self.bind(s['pat'], Val('tuple', [Val('elem', it, n) for n in names]))
                    self.ctx.append('each (%s) in %s' % (', '.join(names), show(it)))
                else:
                    self.bind(s['pat'], Val('elem', it, names[0] if names else 'x'))
                    self.ctx.append('each %s in %s' % (names[0] if names else 'x', show(it)))
                self.block(hir.stmts_of(s['body']), loop_body=True)
                self.ctx.pop()
                return
            # opaque collection: iterate symbolically, named after the iterated expression
            names = [n for n, _i in hir.bindings(s['pat'])]
            src = hir.strip(s['iter'])
            while src.get('k') == 'MethodCall' and src['name'] in ('iter', 'into_iter', 'copied', 'cloned', 'values', 'keys', 'iter_mut'):
                src = hir.strip(src['recv'])
            cname = hir.local_name(src) or show(it)
            coll = Val('coll', cname, Val('vtx', ''))
            if s['pat'].get('k') in ('Tuple',) or (s['pat'].get('k') == 'Ref' and s['pat']['sub'].get('k') == 'Tuple'):
                self.bind(s['pat'], Val('tuple', [Val('elem', coll, n) for n in names]))
                self.ctx.append('each (%s) in %s' % (', '.join(names), cname))
            else:
                self.bind(s['pat'], Val('elem', coll, names[0] if names else 'x'))
                self.ctx.append('each %s in %s' % (names[0] if names else 'x', cname))
            self.block(hir.stmts_of(s['body']), loop_body=True)
            self.ctx.pop()
            return
        if k == 'Ret':
            self.ctx.append('unreachable-after-return')
            return
        if k in ('Assign', 'AssignOp'):
            l0 = hir.strip(s['l'])
            if l0.get('k') == 'Field' and l0['name'] == 'phase':
                base = hir.strip(l0['e'])
                if base.get('k') == 'MethodCall' and (base.get('callee') or '') == GL + 'vertex_data_mut' and self.is_graph(base['recv']):
                    tgt = self.ev(base['args'][0])
                    r = self.as_phase(self.ev(s['r']))
                    if k == 'AssignOp' and s['op'] == 'AddAssign':
                        self.emit('add_to_phase(%s, %s)' % (show(tgt), show(r)))
                        self.atoms.append((tuple(self.ctx), 'add_to_phase', [tgt, r]))
                        return
                    if k == 'Assign':
                        self.emit('set_phase(%s, %s)' % (show(tgt), show(r)))
                        return
            l = hir.strip(s['l'])
            tgt = self.ev(l) if l.get('k') != 'Unary' else self.ev(l)
            r = self.ev(s['r'])
            if isinstance(tgt, Val) and tgt.tag == 'scalar_mut':
                op = {'Assign': '=', 'AssignOp': {'MulAssign': '*=', 'AddAssign': '+='}.get(s.get('op'), '?=')}[k]
                self.emit('scalar %s %s' % (op, show(r)))
                return
            ll = hir.local(l)
            if ll and k == 'AssignOp' and isinstance(self.env.get(ll[1]), Val) and self.env[ll[1]].tag == 'phase' and s['op'] == 'AddAssign':
                # accumulator: ph += phase(x) inside a loop → sum over the loop context
                acc = self.env[ll[1]]
                rp = self.as_phase(r)
                if rp.tag == 'phase':
                    loopctx = [c for c in self.ctx if c.startswith(('each', 'for'))]
                    sym = 'sum[%s](%s)' % ('; '.join(loopctx), show(rp)) if loopctx else show(rp)
                    self.env[ll[1]] = Val('phase', acc.a[0] + (Poly.sym(sym) if loopctx else rp.a[0]))
                    return
            if ll and k == 'AssignOp' and s['op'] in ('AddAssign', 'SubAssign') and isinstance(self.env.get(ll[1]), Val) and self.env[ll[1]].tag == 'int' and isinstance(r, Val) and r.tag == 'int':
                ctxs = ' | '.join(self.ctx)
                only_ifs = all(c.startswith('if ') for c in self.ctx)
                inc = r.a[0] * Poly.sym(('[%s]' % ctxs) if only_ifs else ('count[%s]' % ctxs)) if ctxs else r.a[0]
                self.env[ll[1]] = Val('int', self.env[ll[1]].a[0] + (inc if s['op'] == 'AddAssign' else -inc))
                return
            if ll and k == 'Assign' and isinstance(r, Val) and r.tag in ('varsum', 'vars'):
                loopctx = [c for c in self.ctx if c.startswith(('each', 'for'))]
                if loopctx:
                    self.env[ll[1]] = Val('vars', Val('vtx', 'sum[%s](%s)' % ('; '.join(loopctx), show(r))))
                else:
                    self.env[ll[1]] = r
                return
            if ll and k == 'Assign':
                self.env[ll[1]] = r
                return
            self.unk_stmt('assignment to %s' % hir.pp(l)[:30], s)
            return
        if k in ('Block',):
            self.block(hir.stmts_of(s))
            return
        if k == 'Match' and all(self._lit_pat(a['pat']) is not None and not a.get('guard') for a in s['arms']):
            # a match on literals is an if / else-if chain on equalities
            sc = self.ev(s['scrut'])
            prev = []
            for a in s['arms']:
                lits = self._lit_pat(a['pat'])
                if lits == 'wild':
                    c = 'true'
                else:
                    parts = sorted('%s == %s' % tuple(sorted([str(v_), show(sc)])) for v_ in lits)
                    c = parts[0] if len(parts) == 1 else '(%s)' % ' or '.join(parts)
                for pc in prev:
                    self.ctx.append('if ' + _negate(pc))
                if c != 'true':
                    self.ctx.append('if ' + c)
                body = hir.strip(a['body'])
                if hir.diverges(body) or (any('panic' in (hir.callee(c2) or '') for c2 in hir.calls(a['body'])) and not any(
                        (n.get('callee') or '').startswith(GL) for n in hir.nodes(a['body']) if n.get('k') == 'MethodCall')):
                    self.emit('panic')
                elif body.get('k') == 'Ret' or (hir.stmts_of(a['body']) and hir.strip(hir.stmts_of(a['body'])[-1]).get('k') == 'Ret'):
                    self.block([x for x in hir.stmts_of(a['body']) if hir.strip(x).get('k') != 'Ret'])
                    # an arm that returns: the rest of the function runs under its negation
                    self._ret_arm_conds = getattr(self, '_ret_arm_conds', []) + [c]
                else:
                    self.block(hir.stmts_of(a['body']))
                del self.ctx[len(self.ctx) - len(prev) - (1 if c != 'true' else 0):]
                if c != 'true':
                    prev.append(c)
            for c in getattr(self, '_ret_arm_conds', []):
                self.ctx.append('if ' + _negate(c))
            self._ret_arm_conds = []
            return
        if k == 'Match' and self._match_as_chain(s):
            return
        if k == 'Match':
            sc = self.ev(s['scrut'])
            for a in s['arms']:
                body = hir.strip(a['body'])
                if hir.diverges(body) or (any('panic' in (hir.callee(c) or '') for c in hir.calls(a['body'])) and not any(
                        (n.get('callee') or '').startswith(GL) for n in hir.nodes(a['body']) if n.get('k') == 'MethodCall')):
                    self.ctx.append('case %s ~ %s' % (show(sc), hir.pp_pat(a['pat'])))
                    self.emit('panic')
                    self.ctx.pop()
                    continue
                self.ctx.append('case %s ~ %s' % (show(sc), hir.pp_pat(a['pat'])))
                for nm, i in hir.bindings(a['pat']):
                    self.env[i] = Val('elem', Val('coll', 'match', Val('vtx', '')), nm)
                self.block(hir.stmts_of(a['body']))
                self.ctx.pop()
            return
        if k in ('While', 'Loop'):
            self.unk_stmt('while/loop', s)
            return
        if k == 'Item':
            return
        if k in ('Continue', 'Break'):
            if not getattr(self, '_in_guard', False):
                self.unknown.append('continue/break outside the recognised guard form @%d' % hir.line(s))
            return
        if hir.diverges(hir.strip(s)) or (hir.strip(s).get('k') == 'Call' and 'panic' in (hir.callee(hir.strip(s)) or '')):
            self.emit('panic')
            return
        v = self.ev(s)
        return

    def summary(self):
        """canonical effect lines: 'ctx1 | ctx2 : effect' sorted"""
        out = []
        for ctx, text in self.effects:
            c = [x for x in ctx if x != 'unreachable-after-return']
            out.append((' | '.join(c) + ' : ' if c else '') + text)
        return sorted(out)


def _negate(c):
    if c == 'true':
        return 'false'
    if c == 'false':
        return 'true'
    if c.startswith('not '):
        return c[4:]
    simple = '[' not in c and not c.startswith('(') and sum(c.count(o) for o in (' == ', ' != ', ' < ', ' > ', ' <= ', ' >= ', ' and ', ' or ', ' ~ ')) == 1
    if ' == ' in c and simple:
        return c.replace(' == ', ' != ')
    if ' != ' in c and simple:
        return c.replace(' != ', ' == ')
    if c.endswith('.is_empty'):
        return c[:-9] + '.nonempty'
    if c.endswith('.nonempty'):
        return c[:-9] + '.is_empty'
    return 'not ' + c


def _split_and(c):
    c = c.strip()
    if c.startswith('(') and c.endswith(')'):
        # outer parentheses that wrap the whole expression
        depth = 0
        wraps = True
        for i, ch in enumerate(c):
            depth += ch == '('
            depth -= ch == ')'
            if depth == 0 and i < len(c) - 1:
                wraps = False
                break
        if wraps:
            inner = c[1:-1]
            parts, depth, cur = [], 0, ''
            i = 0
            while i < len(inner):
                ch = inner[i]
                depth += ch in '(['
                depth -= ch in ')]'
                if depth == 0 and inner.startswith(' and ', i):
                    parts.append(cur)
                    cur = ''
                    i += 5
                    continue
                if depth == 0 and inner.startswith(' or ', i):
                    return [c]
                cur += ch
                i += 1
            parts.append(cur)
            if len(parts) > 1:
                return [q for p_ in parts for q in _split_and(p_)]
    return [c]


def _norm_ctx_parts(parts):
    keep = [p_ for p_ in parts if not p_.startswith('if ')]
    conds = sorted(set(q for p_ in parts if p_.startswith('if ') for q in _split_and(p_[3:])))
    conds = [c_ for c_ in conds if c_ != 'true']
    if conds:
        keep.append('if ' + (conds[0] if len(conds) == 1 else '(%s)' % ' and '.join(conds)))
    return keep


def _norm_embedded(text):
    """contexts quoted inside a value (`count[each .. | if a | if b]`, `[if a | if b]`) get the same normal form as the contexts of a line"""
    out, i = '', 0
    while i < len(text):
        if text[i] == '[' and text.startswith(('each ', 'for ', 'if ', 'case '), i + 1):
            depth, j = 0, i
            while j < len(text):
                depth += text[j] in '[('
                depth -= text[j] in '])'
                if depth == 0:
                    break
                j += 1
            inner = text[i + 1:j]
            parts, d2, cur, k2 = [], 0, '', 0
            while k2 < len(inner):
                ch = inner[k2]
                d2 += ch in '[('
                d2 -= ch in '])'
                if d2 == 0 and inner.startswith(' | ', k2):
                    parts.append(cur)
                    cur = ''
                    k2 += 3
                    continue
                cur += ch
                k2 += 1
            parts.append(cur)
            if all(p_.startswith(('each ', 'for ', 'case ', 'if ')) for p_ in parts):
                inner = ' | '.join(_norm_ctx_parts([_norm_embedded(p_) for p_ in parts]))
            out += '[' + inner + ']'
            i = j + 1
            continue
        out += text[i]
        i += 1
    return out


_FRAME_BIND = re.compile(r'^(each|for) (\(([^)]*)\)|[A-Za-z_][A-Za-z0-9_]*) in ')


def alpha_line(line):
    """loop-bound names are renamed to $1, $2, .. in order of binding (a renamed loop variable is the same summary)"""
    if ' : ' in line:
        ctx, eff = line.split(' : ', 1)
        parts = ctx.split(' | ')
    else:
        return line
    if not all(p_.startswith(('each ', 'for ', 'case ', 'if ')) for p_ in parts):
        return line
    ren = []
    for p_ in parts:
        m = _FRAME_BIND.match(p_)
        if m:
            names = [x.strip() for x in m.group(3).split(',')] if m.group(3) is not None else [m.group(2)]
            for nm in names:
                if nm and nm != '_' and nm not in [a for a, _b in ren]:
                    ren.append((nm, '$%d' % (len(ren) + 1)))
    if not ren:
        return line

    def sub(t):
        for a, b in ren:
            t = re.sub(r'(?<![A-Za-z0-9_$])(et_)?%s(?![A-Za-z0-9_])' % re.escape(a), lambda m_: (m_.group(1) or '') + b, t)
        return t
    return ' | '.join(sub(p_) for p_ in parts) + ' : ' + sub(eff)


def norm_line(line):
    return _norm_line(alpha_line(line))


def inline_lets(lines):
    """`let NAME = VALUE` lines name compound scalar values for readability: they are definitions, not effects.  They are substituted into the
    lines that use the name and dropped, so that neither the name nor the place of the definition matters."""
    defs = {}
    rest = []
    for l in lines:
        eff = l.split(' : ', 1)[1] if ' : ' in l else l
        m = re.match(r'^let ([A-Za-z_][A-Za-z0-9_]*) = (.*)$', eff)
        if m and m.group(1) not in defs:
            defs[m.group(1)] = m.group(2)
        elif m and defs.get(m.group(1)) == m.group(2):
            pass
        else:
            rest.append(l)
    if not defs:
        return list(lines)
    out = []
    for l in rest:
        for _round in range(3):
            for nm, val in defs.items():
                l = re.sub(r'(?<![A-Za-z0-9_$.])%s(?![A-Za-z0-9_(])' % re.escape(nm), lambda _m: val, l)
        out.append(l)
    return out


def _norm_line(line):
    """normal form of one effect line `ctx1 | ctx2 : effect`: loop / case contexts keep their order, every `if` context is moved behind them and all
    conditions are merged into one sorted conjunction (an `if` that does not depend on an inner loop may stand outside it or inside it, and
    `if a { if b {..} }` is `if a && b {..}`: the summaries are equal)"""
    if ' : ' not in line:
        return _norm_embedded(line)
    ctx, eff = line.split(' : ', 1)
    parts = ctx.split(' | ')
    if not all(p_.startswith(('each ', 'for ', 'case ', 'if ')) for p_ in parts):
        return line
    keep = _norm_ctx_parts(parts)
    return ' | '.join(keep) + ' : ' + _norm_embedded(eff)


def effects_of(facts, key, param_names=None, no_vars=False, full=False):
    ex = Exec(facts, key, param_names, no_vars=no_vars).run()
    lines = ex.summary()
    if no_vars:
        lines = [l for l in lines if not any(x in l for x in ('add_to_vars(', 'set_vars(', 'scalar_factor('))]
    if full:
        return lines, ex.unknown, ex.enum_subjects
    return lines, ex.unknown


_UNK_MARK = re.compile(r'<[a-zA-Z][a-zA-Z0-9_ :.-]*>')


def compare_summaries(facts, got, ref, enum_subjects):
    """three-valued comparison of two effect summaries: (verdict, message).  Equal normal forms are equal; otherwise the guards of every
    (frames, effect) pair are compared as boolean functions (guardsem): True when all are equivalent, False with a witness when some pair is
    separated by a consistent valuation of understood conditions, None when the difference involves conditions that are not understood."""
    from . import guardsem
    gs, rs = set(norm_line(x) for x in inline_lets(got)), set(norm_line(x) for x in inline_lets(ref))
    if gs == rs:
        return True, ''
    th = guardsem.Theory(facts, enum_subjects)
    res = guardsem.compare(sorted(gs), sorted(rs), th)
    # a loop over a collection that the other side never mentions (an iterator adaptor, a literal list of cases, a zip ..) may be the same loop spelled
    # differently: such one-sided effects are not refutations
    def colls(lines):
        out = set()
        for l in lines:
            for fr in (l.split(' : ', 1)[0].split(' | ') if ' : ' in l else []):
                m = re.match(r'^(?:each|for) .*? in (.*)$', fr)
                if m:
                    out.add(re.sub(r'^enumerate ', '', m.group(1)).strip())
        return out
    cg, cr = colls(gs), colls(rs)
    fixed = []
    for (fr, eff), v, d in res:
        if v is False:
            mine = set(re.sub(r'^enumerate ', '', m_.group(1)).strip() for m_ in (re.match(r'^(?:each|for) .*? in (.*)$', f_) for f_ in fr) if m_)
            if mine and (not mine <= cr or not mine <= cg):
                v, d = None, 'the loop over `%s` has no counterpart with the same collection on the other side; whether it is the same iteration spelled differently is not decided' % sorted(mine - (cr & cg))[0]
        fixed.append(((fr, eff), v, d))
    res = fixed
    bad = [r for r in res if r[1] is False]
    und = [r for r in res if r[1] is None]
    missing, extra = sorted(rs - gs), sorted(gs - rs)
    if bad:
        (fr, eff), _v, wit = bad[0]
        return False, 'the effect `%s`%s happens under different conditions than in the schema (e.g. when %s) — missing: %s ; unexpected: %s' % (
            eff, (' in ' + ' | '.join(fr)) if fr else '', wit, missing[:3], extra[:3])
    if und:
        (fr, eff), _v, why = und[0]
        return None, 'the guard of `%s` differs in spelling from the schema and equivalence is not decided: %s — schema: %s ; found: %s' % (eff, why, missing[:2], extra[:2])
    return True, ''


def check_schema(ck, rule, key, ref, facts=None, no_vars=True):
    facts = facts or ck.facts
    got, unknown, subjects = effects_of(facts, key, no_vars=no_vars, full=True)
    ck.fn(key)
    unknown = unknown + [g for g in got if _UNK_MARK.search(g)][:3]
    ok_u = not unknown
    verdict, msg = compare_summaries(facts, got, ref, subjects)
    if not ok_u:
        # the executor met constructs it cannot summarise: neither the summary nor its difference to the schema means anything
        ck.ob3(rule, key + '/schema', True if verdict is True else None, ck.site(key), 'the body contains constructs the effect executor does not understand (%s); conformance to the schema is not decided' % unknown[:2])
        return got
    ck.ob(rule, key + '/understood', True, ck.site(key), '', sample={'effects': len(got)})
    ck.ob3(rule, key + '/schema', verdict, ck.site(key), 'rule body does not conform to its schema — ' + msg, sample={'effects': got[:12]})
    return got


def check_c01_schemas(ck):
    sys.path.insert(0, os.path.dirname(os.path.dirname(os.path.abspath(__file__))))
    from refs import effects_ref as E
    n = 0
    for key, ref in sorted(E.C01_SCHEMAS.items()):
        check_schema(ck, 'R-EFFECT', key, ref)
        n += 1
    ck.floor('R-EFFECT', n, 12)
