"""vars-consistency of scalar effects (C10-D2, DESIGN 4.3).

The parameter-free scalar effect S(p, ..) of a rule is the oracle for its boolean-variable effect: a
spider with parity b behaves as phase p + b*pi, so for every combination of parities the product of
the scalar effects taken with parameters present must equal the parameter-free product evaluated
at the shifted phases.  Decided by exact algebra in Q(omega) with Laurent polynomials in formal
symbols E_v = e(phase(v)); phases confined to a finite set by the matcher are enumerated.
Algebra on the extracted effect summary only — nothing of QuiZX is executed.
"""
import itertools
import json
from fractions import Fraction as Fr

from . import hir

GL = 'graph::GraphLike::'

# ---------- Q(omega): a + b w + c w^2 + d w^3, w^4 = -1
class Qw:
    def __init__(s, c=(0,0,0,0)): s.c=tuple(Fr(x) for x in c)
    def __add__(s,o): return Qw(tuple(a+b for a,b in zip(s.c,o.c)))
    def __neg__(s): return Qw(tuple(-a for a in s.c))
    def __sub__(s,o): return s+(-o)
    def __mul__(s,o):
        if not isinstance(o,Qw): return Qw(tuple(a*o for a in s.c))
        r=[Fr(0)]*4
        for i,a in enumerate(s.c):
            for j,b in enumerate(o.c):
                k=i+j
                if k<4: r[k]+=a*b
                else: r[k-4]-=a*b
        return Qw(r)
    def __eq__(s,o): return s.c==o.c
    def __hash__(s): return hash(s.c)
    def iszero(s): return all(x==0 for x in s.c)
    def __repr__(s): return 'Qw'+str(tuple(str(x) for x in s.c))
ONE=Qw((1,0,0,0)); ZERO=Qw()
def e_const(q):   # e(q) = exp(i pi q) for q multiple of 1/4
    k=q*4
    assert k.denominator==1, f"phase {q} not a multiple of 1/4"
    k=int(k)%8
    c=[0,0,0,0]
    if k<4: c[k]=1
    else: c[k-4]=-1
    return Qw(c)
SQRT2=Qw((0,1,0,-1)); ISQRT2=SQRT2*Fr(1,2)
# ---------- Laurent polynomials in formal symbols E_v over Qw : dict{ monomial(tuple of (sym,exp)) : Qw }
def P(coef, mono=()): return {tuple(sorted(mono)): coef} if not coef.iszero() else {}
def padd(a,b):
    r=dict(a)
    for m,c in b.items():
        r[m]=r.get(m,ZERO)+c
        if r[m].iszero(): del r[m]
    return r
def pmul(a,b):
    r={}
    for m1,c1 in a.items():
        for m2,c2 in b.items():
            d=dict(m1)
            for s,x in m2: d[s]=d.get(s,0)+x
            m=tuple(sorted((s,x) for s,x in d.items() if x!=0))
            r[m]=r.get(m,ZERO)+c1*c2
            if r[m].iszero(): del r[m]
    return r
def pscale_sign(p, flips):  # substitute E_s -> (-1)^{flip_s} E_s
    r={}
    for m,c in p.items():
        sgn=1
        for s,x in m:
            if flips.get(s,0) and x%2: sgn=-sgn
        r[m]=c*sgn
    return r
PONE=P(ONE)

# ---------- linear phase forms: {sym: Fr} + const
class Lin:
    def __init__(s, t=None, k=0): s.t=dict(t or {}); s.k=Fr(k)
    def __add__(s,o):
        t=dict(s.t)
        for a,b in o.t.items(): t[a]=t.get(a,0)+b
        return Lin({a:b for a,b in t.items() if b!=0}, s.k+o.k)
    def __neg__(s): return Lin({a:-b for a,b in s.t.items()}, -s.k)
    def scale(s,f): return Lin({a:b*f for a,b in s.t.items()}, s.k*f)
    def __repr__(s): return f"Lin({s.t},{s.k})"
def norm_phase(q):  # representative in (-1,1]
    q=Fr(q); q=q-2*((q+1)//2) if True else q
    # map to (-1,1]
    while q>1: q-=2
    while q<=-1: q+=2
    return q
def e_of(lin, conc):
    """e(lin) as Laurent polynomial; symbols in `conc` are concrete Fractions"""
    k=lin.k; mono=[]
    for sym,c in lin.t.items():
        if sym in conc: k+=c*conc[sym]
        else:
            assert c.denominator==1, f"non-integer coefficient {c} on formal phase {sym}"
            mono.append((sym,int(c)))
    # halving must act on the normalised representative: handled by caller for finite domains via conc values in (-1,1]
    return P(e_const(k), mono)

def strip(e):
    return hir.strip(e)

class Rule:
    def __init__(s, fn):
        s.fn=fn; s.env={}   # local id -> ('phase',sym) / ('vars',sym) / ('scalar',expr) / ...
        s.effects=[]        # (guards, kind, payload)
    # ---- expression evaluators to symbolic values
    def val(s,e):
        e=strip(e); k=e['k']
        if k=='Path' and e['res']['k']=='Local': return s.env.get(e['res']['id'], ('unk',e['res']['name']))
        if k=='MethodCall':
            c=e.get('callee') or ''
            if c==GL+'phase': return ('ph', Lin({s.vname(e['args'][0]):1}))
            if c==GL+'vars': return ('vars', frozenset([(s.vname(e['args'][0]),)]), False)
            if c==GL+'phase_and_vars':
                v=s.vname(e['args'][0]); return ('tuple',[('ph',Lin({v:1})),('vars',frozenset([(v,)]),False)])
            if e['name']=='negated':
                r=s.val(e['recv']); return ('vars', r[1], not r[2])
            if e['name']=='into':
                return s.val(e['recv'])
        if k=='Unary' and e['op']=='Neg':
            r=s.val(e['e']);
            if r[0]=='ph': return ('ph', -r[1])
        if k=='Binary' and e['op'] in ('Add','Sub','Div','Mul'):
            l=s.val(e['l']); r=s.val(e['r'])
            if l[0]=='ph' and r[0]=='ph' and e['op'] in ('Add','Sub'): return ('ph', l[1]+(r[1] if e['op']=='Add' else -r[1]))
            if l[0]=='ph' and r[0]=='int' and e['op']=='Div': return ('ph', l[1].scale(Fr(1,r[1])))
            if l[0]=='vars' and r[0]=='vars' and e['op']=='Add': return ('vars', l[1]^r[1], l[2]^r[2])
            if l[0]=='sc' and r[0]=='sc':
                if e['op']=='Add': return ('sc', ('add',l[1],r[1]))
                if e['op']=='Sub': return ('sc', ('sub',l[1],r[1]))
                if e['op']=='Mul': return ('sc', ('mul',l[1],r[1]))
        if k=='Tup': return ('tuple',[s.val(x) for x in e['items']])
        if hir.lit_int(e) is not None:
            return ('int', hir.lit_int(e))
        if k=='Call':
            p=hir.callee(e) or ''
            a=e['args']
            if (p.endswith('One>::one') or p.endswith('::one')) and 'Phase' in (e.get('ty') or ''): return ('ph', Lin({},1))
            if 'from_phase' in p: return ('sc',('e', s.val(a[0])[1]))
            if 'one_plus_phase' in p: return ('sc',('1+e', s.val(a[0])[1]))
            if p.endswith('minus_one'): return ('sc',('const',-1))
            if p.endswith('::one') : return ('sc',('const',1))
            if p.endswith('Expr::linear'): return ('key',[s.val(a[0])])
            if p.endswith('Expr::quadratic'): return ('key',[s.val(a[0]),s.val(a[1])])
        return ('unk', k, e.get('name'))
    def vname(s,e):
        e=strip(e)
        return e['res']['name'] if e['k']=='Path' else '?'
    def bind(s,pat,v):
        if pat['k']=='Bind': s.env[pat['id']]=v
        elif pat['k']=='Tuple' and v[0]=='tuple':
            for p,x in zip(pat['sub'],v[1]): s.bind(p,x)
    # ---- guards
    def guard(s,e):
        e=strip(e); k=e['k']
        if k=='Unary' and e['op']=='Not':
            g=s.guard(e['e']); return ('not',g)
        if k=='Binary' and e['op'] in ('And','Or'): return (e['op'].lower(), s.guard(e['l']), s.guard(e['r']))
        if k=='MethodCall' and e['name']=='is_empty':
            r=s.val(e['recv'])
            if r[0]=='vars': return ('vars_empty', r[1])
        if k=='MethodCall' and e['name']=='is_zero':
            r=s.val(e['recv'])
            if r[0]=='ph': return ('ph_zero', r[1])
        if k=='Binary' and e['op']=='Eq' and s.val(e['l'])[0]=='sc' and s.val(e['r'])[0]=='sc': return ('dead',)
        if k=='Path' and e['res'].get('k')=='Local' and e['res'].get('id') in getattr(s,'genv',{}):
            return s.genv[e['res']['id']]          # a boolean local: the condition it was initialised with
        return ('opaque', hir.pp(e)[:50])
    # ---- walk
    def walk(s, e, guards):
        if isinstance(e,list):
            for x in e: s.walk(x,guards)
            return
        if not isinstance(e,dict): return
        k=e.get('k')
        if k=='Let' and e.get('init') is not None:
            i0=strip(e['init'])
            if i0.get('ty')=='bool' and e['pat'].get('k')=='Bind' and 'Mut' not in (e['pat'].get('mode') or '') and i0.get('k') in ('Binary','Unary','MethodCall','Path'):
                if not hasattr(s,'genv'): s.genv={}
                s.genv[e['pat']['id']]=s.guard(i0)
            s.bind(e['pat'], s.val(e['init'])); s.walk(e['init'],guards); return
        if k=='If' and not e.get('else') and any(n.get('k') in ('Ret','Continue','Break') for n in hir.nodes(e['then'], into_closures=False)):
            # an early exit: what follows is conditioned on its negation, which this walker does not track
            s.early_exits = getattr(s,'early_exits',0)+1
        if k=='If':
            g=s.guard(e['cond'])
            s.walk(e['then'], guards+[g])
            if e.get('else'): s.walk(e['else'], guards+[('not',g)])
            return
        if k=='MethodCall':
            c=e.get('callee') or ''; nm=e['name']
            recv=strip(e['recv'])
            on_scalar = recv.get('k')=='MethodCall' and recv.get('callee')==GL+'scalar_mut'
            if on_scalar and nm=='mul_phase': s.effects.append((guards,'mul',('e',s.val(e['args'][0])[1])))
            elif on_scalar and nm=='mul_one_plus_phase': s.effects.append((guards,'mul',('1+e',s.val(e['args'][0])[1])))
            elif on_scalar and nm=='mul_sqrt2_pow': s.effects.append((guards,'sqrt2',None))   # phase independent
            elif c==GL+'mul_scalar_factor':
                s.effects.append((guards,'factor',(s.val(e['args'][0]), s.val(e['args'][1]))))
        if k=='AssignOp' and e['op']=='MulAssign':
            l=strip(e['l'])
            if l.get('k')=='MethodCall' and l.get('callee')==GL+'scalar_mut':
                s.effects.append((guards,'mul', s.val(e['r'])[1]))
        if k=='Call':
            # a private helper of the crate that is handed the graph: its scalar effects are the caller's (parameters bound to the arguments' symbolic values)
            c=hir.callee(e) or ''
            facts=getattr(s,'facts',None)
            takes_graph=any('GraphLike' in (strip(a).get('ty') or a.get('ty') or '') or (strip(a).get('k')=='Path' and strip(a)['res'].get('name') in ('g','graph')) for a in e['args'])
            if facts is not None and c in facts['fns'] and takes_graph and not c.startswith(('graph::','vec_graph::','hash_graph::','<')) and getattr(s,'depth',0) < 2:
                hf=facts['fns'][c]
                ps=[p for p in hf['params']]
                if len(ps)==len(e['args']) and all(p.get('k')=='Bind' for p in ps):
                    for p,a in zip(ps,e['args']):
                        s.env[p['id']]=s.val(a)
                    for a in e['args']:
                        s.walk(a,guards)
                    s.depth=getattr(s,'depth',0)+1
                    s.walk(hf['hir'],guards)
                    s.depth-=1
                    return
            if takes_graph and c and not c.startswith(('graph::','<')) and 'GraphLike' not in c and facts is not None and c.split('::')[0] in ('basic_rules','simplify') and c not in facts['fns']:
                s.effects.append((guards,'mul',('unk','call',c)))
        for key,v in e.items():
            if key in ('ty','sp'): continue
            s.walk(v,guards)

def sc_eval(sc, conc):
    t=sc[0]
    if t=='const': return P(ONE*sc[1])
    if t=='e': return e_of(sc[1],conc)
    if t=='1+e': return padd(PONE, e_of(sc[1],conc))
    if t in ('add','sub','mul'):
        a=sc_eval(sc[1],conc); b=sc_eval(sc[2],conc)
        if t=='add': return padd(a,b)
        if t=='sub': return padd(a,{m:-c for m,c in b.items()})
        return pmul(a,b)
    raise Exception(f"scalar term {sc}")

def geval(g, conc, vars_present):
    """evaluate a guard; returns True/False/None(opaque)"""
    t=g[0]
    if t=='not':
        r=geval(g[1],conc,vars_present); return None if r is None else (not r)
    if t in ('and','or'):
        a=geval(g[1],conc,vars_present); b=geval(g[2],conc,vars_present)
        if a is None or b is None: return None
        return (a and b) if t=='and' else (a or b)
    if t=='dead': return False
    if t=='vars_empty': return not any(vars_present.get(v, False) for (v,) in g[1])
    if t=='opaque': return BR.get(json.dumps(g,default=str))
    if t=='ph_zero':
        lin=g[1]; k=lin.k
        for sym,c in lin.t.items():
            if sym not in conc: return None
            k+=c*conc[sym]
        return norm_phase(k)==0
    return None

def total(rule, conc, vars_present, beta, branch):
    """product of scalar effects under an assignment; `branch` fixes opaque guards (tuple of (line,bool))"""
    tot=PONE
    for guards,kind,payload in rule.effects:
        ok=True
        for g in guards:
            r=geval(g,conc,vars_present)
            if r is None: return None
            if not r: ok=False; break
        if not ok: continue
        if kind=='sqrt2': continue
        if kind=='mul': tot=pmul(tot, sc_eval(payload,conc))
        if kind=='factor':
            key,sc=payload
            # key true?
            truth=True
            for par in key[1]:
                _,syms,neg=par
                b=neg
                for (v,) in syms: b^=bool(beta.get(v,0))
                truth = truth and b
            if truth: tot=pmul(tot, sc_eval(sc[1],conc))
    return tot


BR = {}


def check_rule(facts, key, dom):
    """returns dict(effects=n, symbols=[..], checked=n, mismatches=[..], opaque=n)"""
    r = Rule(key)
    r.facts = facts
    body = facts['fns'][key]['hir']
    r.walk(body, [])
    syms = set()

    def collect(x):
        if isinstance(x, Lin):
            syms.update(x.t.keys())
        elif isinstance(x, (tuple, list)):
            for y in x:
                collect(y)
    for g, k, p in r.effects:
        collect(p)
        collect(g)
    vsyms = set()
    for g, k, p in r.effects:
        if k == 'factor':
            for par in p[0][1]:
                for (v,) in par[1]:
                    vsyms.add(v)
    syms = sorted(syms | vsyms)

    def base_atoms(g):
        if g[0] == 'not':
            return base_atoms(g[1])
        if g[0] in ('and', 'or'):
            return base_atoms(g[1]) | base_atoms(g[2])
        return {json.dumps(g, default=str)} if g[0] == 'opaque' else set()
    opaque = sorted(set().union(*[base_atoms(g) for gs, _, _ in r.effects for g in gs]) if r.effects else set())
    bad = []
    checked = 0
    doms = [dom.get(s, [None]) for s in syms]
    unknown = [p for g, k, p in r.effects if _has_unk(p)]
    early_exits = getattr(r, 'early_exits', 0)
    for branch_bits in itertools.product([True, False], repeat=len(opaque)):
        branch = dict(zip(opaque, branch_bits))
        BR.clear()
        BR.update(branch)
        for pv in itertools.product(*doms):
            conc = {s: v for s, v in zip(syms, pv) if v is not None}
            none_present = {s: False for s in syms}
            for present_bits in itertools.product([False, True], repeat=len(syms)):
                present = dict(zip(syms, present_bits))
                if not any(present_bits):
                    continue
                for bits in itertools.product([0, 1], repeat=len(syms)):
                    beta = dict(zip(syms, bits))
                    if any(beta[s] and not present[s] for s in syms):
                        continue
                    try:
                        SB = total(r, conc, present, beta, branch)
                        conc2 = {s: norm_phase(conc[s] + beta[s]) for s in conc}
                        flips = {s: beta[s] for s in syms if s not in conc}
                        S0s = total(r, conc2, none_present, {}, branch)
                    except AssertionError as ex:
                        bad.append('not analysable: %s' % ex)
                        continue
                    except Exception as ex:
                        bad.append('not analysable: %r' % ex)
                        continue
                    if SB is None or S0s is None:
                        continue
                    S0s = pscale_sign(S0s, flips)
                    checked += 1
                    if SB != S0s:
                        bad.append('phases=%s present=%s parities=%s' % ({k: str(v) for k, v in conc.items()}, [s for s in syms if present[s]], [s for s in syms if beta[s]]))
    return {'effects': len(r.effects), 'symbols': syms, 'checked': checked, 'mismatches': bad, 'opaque': len(opaque), 'unknown': len(unknown), 'early_exits': early_exits}


def _has_unk(p):
    if isinstance(p, tuple):
        if p and p[0] == 'unk':
            return True
        return any(_has_unk(x) for x in p)
    if isinstance(p, list):
        return any(_has_unk(x) for x in p)
    return False
