"""Bounded differential exploration of the two graph back ends (C09, DESIGN 10.1 E3b).

Both `vec_graph::Graph` and `hash_graph::Graph` are interpreted from their HIR (minirust) under every sequence of editing operations, up to a
depth, that a small model graph admits; after every operation the observable graph of each back end — counts, vertices with their data, edges
with types, adjacency (degree / neighbours / incident edges / edge_type_opt in both directions), membership, inputs and outputs — is read
through the back end's own query methods and compared with the model, through a bijection between the model's vertex names and the names the
back end chose.  States are deduplicated on the concrete representation of both back ends, so the exploration covers every reachable pair of
representations (free-list contents and order, fresh counter) within the depth.  Nothing of the analysed crate is compiled or run."""
import json
from fractions import Fraction as Fr

from . import minirust, circsem as cs

VEC, HASH = 'vec_graph::Graph', 'hash_graph::Graph'
GL = 'graph::GraphLike'
INLINE = ('vec_graph::', '<vec_graph::', 'hash_graph::', '<hash_graph::', 'graph::', '<graph::')


class Mismatch(Exception):
    pass


def _interp(facts):
    it = cs.interp(facts, 300000)
    it.inline = lambda c: c.startswith(INLINE)
    base = it.host_call
    one = minirust.Obj('scalar', {'clone': lambda a: one}, strict=False)
    par = minirust.Obj('parity', {'is_empty': lambda a: True, 'clone': lambda a: par}, strict=False)

    def hc(c, e, args):
        t = (e.get('ty') or '')
        last = c.rsplit('::', 1)[-1]
        if t.endswith('scalar::Scalar4') and last in ('one', 'into', 'from', 'default'):
            return one
        if t.endswith('params::Parity') and last in ('zero', 'default', 'new'):
            return par
        if t.endswith('phase::Phase') and last == 'default':
            return cs.Ph(0)
        return base(c, e, args)
    it.host_call = hc
    hm0 = it.host_method

    def hm(callee, nm, recv, args):
        if nm == 'into' and isinstance(recv, int) and not isinstance(recv, bool) and callee.endswith('into'):
            return NotImplemented
        return hm0(callee, nm, recv, args)
    it.host_method = hm
    return it


class Backend:
    def __init__(self, facts, ty, state=None):
        self.facts, self.ty = facts, ty
        self.g = state if state is not None else self.call_static('new', [])

    def key(self, name):
        k = '<%s as %s>::%s' % (self.ty, GL, name)
        if k in self.facts['fns']:
            return k
        k = '%s::%s' % (GL, name)
        if k in self.facts['fns']:
            return k
        raise minirust.NoEval('no method %s for %s' % (name, self.ty))

    def call_static(self, name, args):
        return _interp(self.facts).local_call(self.key(name), args)

    def call(self, name, *args):
        it = _interp(self.facts)
        it.self_ty.append(self.ty)
        return it.local_call(self.key(name), [self.g] + list(args))

    def clone(self):
        return Backend(self.facts, self.ty, minirust.deep_clone(self.g))

    def rep(self):
        return json.dumps(_plain(self.g), sort_keys=True)


def _plain(v):
    if isinstance(v, dict):
        return dict((str(k), _plain(x)) for k, x in sorted(v.items(), key=lambda z: str(z[0])))
    if isinstance(v, (list, tuple)):
        return [_plain(x) for x in v]
    if isinstance(v, cs.Ph):
        return 'ph:%s' % v.v
    if isinstance(v, minirust.Obj):
        return '<%s>' % v.name
    if isinstance(v, float):
        return v
    return v


def vt(name):
    return ('const', 'graph::VType::' + name)


def et(name):
    return ('const', 'graph::EType::' + name)


def _short(c):
    return c[1].rsplit('::', 1)[-1] if isinstance(c, tuple) and len(c) == 2 and c[0] == 'const' else c


class Model:
    def __init__(self):
        self.v = {}          # name -> (type, phase)
        self.e = {}          # frozenset({a, b}) -> etype
        self.inputs, self.outputs = [], []
        self.fresh = 0

    def clone(self):
        m = Model()
        m.v, m.e, m.inputs, m.outputs, m.fresh = dict(self.v), dict(self.e), list(self.inputs), list(self.outputs), self.fresh
        return m


def observe(be, m2b, model, tag):
    """compare the observable graph of a back end with the model; m2b: model name -> back-end name"""
    def fail(what):
        raise Mismatch('%s: %s' % (tag, what))
    b2m = dict((b, m) for m, b in m2b.items())
    if len(b2m) != len(m2b):
        fail('two vertices share the name %s' % sorted(m2b.values()))
    nv, ne = be.call('num_vertices'), be.call('num_edges')
    if nv != len(model.v):
        fail('num_vertices() = %s, the graph has %d vertices' % (nv, len(model.v)))
    if ne != len(model.e):
        fail('num_edges() = %s, the graph has %d edges' % (ne, len(model.e)))
    vs = sorted(be.call('vertices'))
    if vs != sorted(m2b.values()):
        fail('vertices() enumerates %s, expected %s' % (vs, sorted(m2b.values())))
    es = sorted((min(a, b), max(a, b), _short(t)) for a, b, t in be.call('edges'))
    want_es = sorted((min(m2b[a], m2b[b]), max(m2b[a], m2b[b]), t) for (a, b), t in ((tuple(sorted(k)), t) for k, t in model.e.items()))
    if es != want_es:
        fail('edges() enumerates %s, expected %s' % (es, want_es))
    for mname, (ty, ph) in model.v.items():
        b = m2b[mname]
        if _short(be.call('vertex_type', b)) != ty:
            fail('vertex_type(%d) = %s, expected %s' % (b, _short(be.call('vertex_type', b)), ty))
        p_ = be.call('phase', b)
        if not (isinstance(p_, cs.Ph) and p_.v == ph):
            fail('phase(%d) = %s, expected %s' % (b, p_, ph))
        nb = sorted(m2b[x] for k in model.e if mname in k for x in k if x != mname)
        got_nb = sorted(be.call('neighbors', b))
        if got_nb != nb:
            fail('neighbors(%d) = %s, expected %s' % (b, got_nb, nb))
        if be.call('degree', b) != len(nb):
            fail('degree(%d) = %s, expected %d' % (b, be.call('degree', b), len(nb)))
        inc = sorted((x, _short(t)) for x, t in be.call('incident_edges', b))
        want_inc = sorted((m2b[x], model.e[k]) for k in model.e if mname in k for x in k if x != mname)
        if inc != want_inc:
            fail('incident_edges(%d) = %s, expected %s' % (b, inc, want_inc))
        if be.call('contains_vertex', b) is not True:
            fail('contains_vertex(%d) is false for a vertex of the graph' % b)
    names = sorted(model.v)
    for i, a in enumerate(names):
        for b in names[i + 1:]:
            want = model.e.get(frozenset((a, b)))
            for x, y in ((a, b), (b, a)):
                got = be.call('edge_type_opt', m2b[x], m2b[y])
                g_ = _short(got[1]) if (isinstance(got, tuple) and got[0] == 'Some') else None
                if g_ != want:
                    fail('edge_type_opt(%d, %d) = %s, expected %s' % (m2b[x], m2b[y], g_, want))
    free = [x for x in range(0, max(list(m2b.values()) + [0]) + 3) if x not in b2m]
    for x in free:
        if be.call('contains_vertex', x) is not False:
            fail('contains_vertex(%d) is true for a name that is not in the graph' % x)
        if be.call('vertex_data_opt', x) != minirust.NONE:
            fail('vertex_data_opt(%d) is not None for a name that is not in the graph' % x)
        for y in sorted(b2m)[:2]:
            for a_, b_ in ((x, y), (y, x)):
                if be.call('edge_type_opt', a_, b_) != minirust.NONE:
                    fail('edge_type_opt(%d, %d) is not None although %d is not in the graph' % (a_, b_, x))
    # vindex() is the next FRESH vertex index: never the name of a vertex of the graph, and above every one of them (a named insertion at vindex() succeeds)
    vx = be.call('vindex')
    if not (isinstance(vx, int) and not isinstance(vx, bool)) or vx in b2m or (b2m and vx <= max(b2m)):
        fail('vindex() = %s is not a fresh vertex index: the graph has the vertices %s' % (vx, sorted(b2m)))
    # searches: find_vertex / find_edge visit exactly the vertices / edges of the graph (each edge once, smaller name first)
    it = _interp(be.facts)
    it.self_ty.append(be.ty)
    seen_v, seen_e = [], []
    it.local_call(be.key('find_vertex'), [be.g, lambda v: (seen_v.append(v), False)[1]])
    it.local_call(be.key('find_edge'), [be.g, lambda a, b, t: (seen_e.append((a, b, _short(t))), False)[1]])
    if sorted(seen_v) != vs:
        fail('find_vertex visits %s, the vertices are %s' % (sorted(seen_v), vs))
    if sorted(seen_e) != want_es:
        fail('find_edge visits %s, the edges are %s' % (sorted(seen_e), want_es))
    gi, go = list(be.call('inputs')), list(be.call('outputs'))
    if gi != [m2b[x] for x in model.inputs] or go != [m2b[x] for x in model.outputs]:
        fail('inputs / outputs are %s / %s, expected %s / %s' % (gi, go, [m2b[x] for x in model.inputs], [m2b[x] for x in model.outputs]))


def operations(model, maps, max_v):
    """the editing operations with valid arguments that the model admits: (label, kind, args in model names)"""
    ops = []
    names = sorted(model.v)
    if len(names) < max_v:
        ops.append(('add_vertex(Z)', 'add_vertex', ('Z',)))
        ops.append(('add_vertex(B)', 'add_vertex', ('B',)))
        # named insertion with a concrete name whose status agrees in both back ends
        for x in range(0, 5):
            st = [x in set(m.values()) for m in maps]
            if not any(st):
                ops.append(('add_named_vertex_with_data(%d)' % x, 'add_named', (x,)))
    for x in range(0, 4):
        owners = [dict((b, m_) for m_, b in m.items()).get(x) for m in maps]
        if all(o is not None for o in owners) and len(set(owners)) == 1:
            ops.append(('add_named_vertex_with_data(%d) [taken]' % x, 'add_named_taken', (x,)))
            break
    for v in names:
        ops.append(('remove_vertex(%s)' % v, 'remove_vertex', (v,)))
        ops.append(('set_phase(%s, 1/4)' % v, 'set_phase', (v,)))
        ops.append(('set_vertex_type(%s, X)' % v, 'set_vertex_type', (v,)))
    for i, a in enumerate(names):
        for b in names[i + 1:]:
            k = frozenset((a, b))
            if k in model.e:
                ops.append(('remove_edge(%s, %s)' % (b, a), 'remove_edge', (b, a)))
                ops.append(('set_edge_type(%s, %s, %s)' % (b, a, 'H' if model.e[k] == 'N' else 'N'), 'set_edge_type', (b, a, 'H' if model.e[k] == 'N' else 'N')))
            else:
                ops.append(('add_edge_with_type(%s, %s, H)' % (a, b), 'add_edge', (a, b, 'H')))
                ops.append(('add_edge(%s, %s)' % (b, a), 'add_edge', (b, a, 'N')))
    if names:
        ops.append(('set_inputs / set_outputs', 'set_io', (tuple(names[:1]), tuple(reversed(names[-2:])))))
        ops.append(('outputs_mut().push(%s)' % names[0], 'push_output', (names[0],)))
        ops.append(('set_qubit / set_row / set_coord(%s)' % names[-1], 'coords', (names[-1],)))
    ops.append(('pack(true)', 'pack', ()))
    return ops


def apply(op, model, bes, maps):
    """apply one operation to the model and to both back ends (all in place); raises Mismatch on a disagreement in results"""
    label, kind, args = op
    if kind == 'add_vertex':
        name = 'm%d' % model.fresh
        model.fresh += 1
        model.v[name] = (args[0], Fr(0))
        for be, m in zip(bes, maps):
            r = be.call('add_vertex', vt(args[0]))
            if not isinstance(r, int) or r in m.values():
                raise Mismatch('%s on %s returns the name %r, which is %s' % (label, be.ty, r, 'not a vertex name' if not isinstance(r, int) else 'already the name of another vertex'))
            m[name] = r
    elif kind in ('add_named', 'add_named_taken'):
        x = args[0]
        d = {'__struct__': 'graph::VData', 'ty': vt('Z'), 'phase': cs.Ph(Fr(1, 2)), 'vars': minirust.Obj('parity', {'is_empty': lambda a: True}, strict=False), 'qubit': 0.0, 'row': 0.0}
        res = []
        for be in bes:
            r = be.call('add_named_vertex_with_data', x, minirust.deep_clone(d))
            res.append('Ok' if (isinstance(r, tuple) and r and r[0] == 'Ok') else 'Err' if (isinstance(r, tuple) and r and r[0] == 'Err') else repr(r))
        want = 'Ok' if kind == 'add_named' else 'Err'
        if res != [want, want]:
            raise Mismatch('%s answers %s on the vector back end and %s on the hash back end, expected %s' % (label, res[0], res[1], want))
        if kind == 'add_named':
            name = 'm%d' % model.fresh
            model.fresh += 1
            model.v[name] = ('Z', Fr(1, 2))
            for m in maps:
                m[name] = x
    elif kind == 'remove_vertex':
        v = args[0]
        for be, m in zip(bes, maps):
            be.call('remove_vertex', m[v])
            del m[v]
        del model.v[v]
        model.e = dict((k, t) for k, t in model.e.items() if v not in k)
        model.inputs = [x for x in model.inputs]
        model.outputs = [x for x in model.outputs]
    elif kind == 'set_phase':
        v = args[0]
        model.v[v] = (model.v[v][0], Fr(1, 4))
        for be, m in zip(bes, maps):
            be.call('set_phase', m[v], cs.Ph(Fr(1, 4)))
    elif kind == 'set_vertex_type':
        v = args[0]
        model.v[v] = ('X', model.v[v][1])
        for be, m in zip(bes, maps):
            be.call('set_vertex_type', m[v], vt('X'))
    elif kind == 'add_edge':
        a, b, t = args
        model.e[frozenset((a, b))] = t
        for be, m in zip(bes, maps):
            if t == 'N':
                be.call('add_edge', m[a], m[b])
            else:
                be.call('add_edge_with_type', m[a], m[b], et(t))
    elif kind == 'remove_edge':
        a, b = args
        del model.e[frozenset((a, b))]
        for be, m in zip(bes, maps):
            be.call('remove_edge', m[a], m[b])
    elif kind == 'set_edge_type':
        a, b, t = args
        model.e[frozenset((a, b))] = t
        for be, m in zip(bes, maps):
            be.call('set_edge_type', m[a], m[b], et(t))
    elif kind == 'set_io':
        ins, outs = args
        model.inputs, model.outputs = list(ins), list(outs)
        for be, m in zip(bes, maps):
            be.call('set_inputs', [m[x] for x in ins])
            be.call('set_outputs', [m[x] for x in outs])
    elif kind == 'push_output':
        v = args[0]
        model.outputs.append(v)
        for be, m in zip(bes, maps):
            be.call('outputs_mut').append(m[v])
    elif kind == 'coords':
        v = args[0]
        for be, m in zip(bes, maps):
            be.call('set_qubit', m[v], 2.0)
            be.call('set_row', m[v], 5.0)
            got = (be.call('qubit', m[v]), be.call('row', m[v]))
            if got != (2.0, 5.0):
                raise Mismatch('%s on %s: after set_qubit(2) and set_row(5) the vertex has qubit %s and row %s' % (label, be.ty, got[0], got[1]))
            c = be.call('coord', m[v])
            if not (isinstance(c, dict) and (c.get('x'), c.get('y')) == (5.0, 2.0)):
                raise Mismatch('%s on %s: coord() of a vertex with qubit 2 and row 5 is %s (x is the row, y the qubit)' % (label, be.ty, c))
    elif kind == 'pack':
        for be, m in zip(bes, maps):
            before = sorted(m.values())
            be.call('pack', True)
            after = sorted(be.call('vertices'))
            if len(after) != len(before):
                raise Mismatch('pack(true) on %s changes the number of vertices (%s -> %s)' % (be.ty, before, after))
            if after != before:
                # compaction renames: order preserving (the i-th smallest old name becomes the i-th smallest new one)
                ren = dict(zip(before, after))
                for k in list(m):
                    m[k] = ren[m[k]]
    else:
        raise minirust.NoEval('operation %s' % kind)


SEEDS = {
    'empty': [],
    'hole-and-edges': [('add_vertex(Z)', 'add_vertex', ('Z',)), ('add_vertex(Z)', 'add_vertex', ('Z',)), ('add_vertex(B)', 'add_vertex', ('B',)),
                       ('add_edge_with_type(m0, m1, H)', 'add_edge', ('m0', 'm1', 'H')), ('add_edge(m2, m1)', 'add_edge', ('m2', 'm1', 'N')),
                       ('remove_vertex(m0)', 'remove_vertex', ('m0',))],
    'named-beyond-the-end': [('add_named_vertex_with_data(3)', 'add_named', (3,)), ('add_vertex(Z)', 'add_vertex', ('Z',)),
                             ('add_edge(m1, m0)', 'add_edge', ('m1', 'm0', 'N'))],
}


def explore(facts, depth=3, max_v=3, limit=4000, seed='empty'):
    """-> (first mismatch or None, number of states, number of operations applied).  States live in a removal-closed model: inputs / outputs
    are only set on graphs whose listed vertices are not removed afterwards (removing a boundary vertex leaves a dangling name in both back ends
    alike; that is outside the valid-argument quantifier)."""
    start = (Model(), [Backend(facts, VEC), Backend(facts, HASH)], [{}, {}], [])
    observe(start[1][0], {}, start[0], 'new vector graph')
    observe(start[1][1], {}, start[0], 'new hash graph')
    for op in SEEDS[seed]:
        try:
            apply(op, start[0], start[1], start[2])
            start[3].append(op[0])
            for be, m in zip(start[1], start[2]):
                observe(be, m, start[0], 'after %s on the %s back end' % (' ; '.join(start[3]), 'vector' if be.ty == VEC else 'hash'))
        except Mismatch as ex:
            return str(ex), 0, len(start[3])
        except minirust.Panics as ex:
            return 'after %s: an operation with valid arguments panics (%s)' % (' ; '.join(start[3] + [op[0]]), ex), 0, len(start[3])
    seen = set()
    frontier = [start]
    nstates = nops = 0
    for d in range(depth):
        nxt = []
        for model, bes, maps, trace in frontier:
            for op in operations(model, maps, max_v):
                if op[1] == 'remove_vertex' and (op[2][0] in model.inputs or op[2][0] in model.outputs):
                    continue
                m2 = model.clone()
                b2 = [b.clone() for b in bes]
                mp2 = [dict(m) for m in maps]
                tr2 = trace + [op[0]]
                nops += 1
                try:
                    apply(op, m2, b2, mp2)
                    for be, m in zip(b2, mp2):
                        observe(be, m, m2, 'after %s on the %s back end' % (' ; '.join(tr2), 'vector' if be.ty == VEC else 'hash'))
                except Mismatch as ex:
                    return str(ex), nstates, nops
                except minirust.Panics as ex:
                    return 'after %s: an operation with valid arguments panics (%s)' % (' ; '.join(tr2), ex), nstates, nops
                key = (b2[0].rep(), b2[1].rep(), json.dumps(sorted(mp2[0].items())), json.dumps(sorted(mp2[1].items())))
                if key in seen:
                    continue
                seen.add(key)
                nstates += 1
                if nstates > limit:
                    raise minirust.NoEval('more than %d states' % limit)
                nxt.append((m2, b2, mp2, tr2))
        frontier = nxt
    return None, nstates, nops
