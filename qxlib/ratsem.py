"""Host model of num::rational::Ratio<i64> (Rational64) for the source-level interpreter: an exact fraction that is kept reduced with a positive
denominator, like the external type.  Used to evaluate phase.rs (C16) — the external crate is modelled, never run."""
from fractions import Fraction as Fr

from . import minirust

I64 = (64, True)


class Rat(minirust.Obj):
    def __init__(self, v):
        self.v = Fr(v)
        if not (minirust.in_range(self.v.numerator, I64) and minirust.in_range(self.v.denominator, I64)):
            raise minirust.Panics('Rational64 overflow')
        v_ = self.v
        minirust.Obj.__init__(self, 'rational', {
            'numer': lambda a: v_.numerator, 'denom': lambda a: v_.denominator, 'is_zero': lambda a: v_ == 0, 'is_one': lambda a: v_ == 1,
            'is_integer': lambda a: v_.denominator == 1, 'to_integer': lambda a: int(v_.numerator / v_.denominator) if v_.denominator != 1 else v_.numerator,
            'clone': lambda a: self, 'abs': lambda a: Rat(abs(v_)), 'neg': lambda a: Rat(-v_),
            'floor': lambda a: Rat(v_.numerator // v_.denominator), 'ceil': lambda a: Rat(-((-v_.numerator) // v_.denominator)),
            'trunc': lambda a: Rat(int(v_)), 'recip': self._recip, 'to_f64': lambda a: minirust.some(float(v_)), 'reduced': lambda a: self,
            'is_positive': lambda a: v_ > 0, 'is_negative': lambda a: v_ < 0, 'signum': lambda a: Rat((v_ > 0) - (v_ < 0)),
            'cmp': lambda a: ('const', 'std::cmp::Ordering::' + ('Less' if v_ < _f(a[0]) else 'Greater' if v_ > _f(a[0]) else 'Equal')),
            'partial_cmp': lambda a: minirust.some(('const', 'std::cmp::Ordering::' + ('Less' if v_ < _f(a[0]) else 'Greater' if v_ > _f(a[0]) else 'Equal'))),
            'pow': lambda a: Rat(v_ ** a[0]),
        }, strict=True)

    def _recip(self, a):
        if self.v == 0:
            raise minirust.Panics('reciprocal of zero')
        return Rat(1 / self.v)

    def __add__(self, o):
        return Rat(self.v + _f(o))
    __radd__ = __add__

    def __sub__(self, o):
        return Rat(self.v - _f(o))

    def __rsub__(self, o):
        return Rat(_f(o) - self.v)

    def __mul__(self, o):
        return Rat(self.v * _f(o))
    __rmul__ = __mul__

    def __truediv__(self, o):
        if _f(o) == 0:
            raise minirust.Panics('division by zero')
        return Rat(self.v / _f(o))
    __floordiv__ = __truediv__

    def __neg__(self):
        return Rat(-self.v)

    def __eq__(self, o):
        try:
            return self.v == _f(o)
        except TypeError:
            return False

    def __ne__(self, o):
        return not self == o

    def __lt__(self, o):
        return self.v < _f(o)

    def __le__(self, o):
        return self.v <= _f(o)

    def __gt__(self, o):
        return self.v > _f(o)

    def __ge__(self, o):
        return self.v >= _f(o)
    __hash__ = None

    def fmt_display(self):
        return str(self.v.numerator) if self.v.denominator == 1 else '%d/%d' % (self.v.numerator, self.v.denominator)

    def __repr__(self):
        return 'Rat(%s)' % self.v


def _f(o):
    if isinstance(o, minirust.Cell):
        o = o.get()
    if isinstance(o, Rat):
        return o.v
    if isinstance(o, int) and not isinstance(o, bool):
        return Fr(o)
    raise TypeError('rational with %r' % (o,))


def host_call(c, e, args):
    """constructors and conversions of Ratio<i64>; NotImplemented for anything else"""
    t = (e.get('ty') or '')
    last = c.rsplit('::', 1)[-1]
    is_ratio = 'Ratio<' in t or 'Rational' in t
    if is_ratio and last in ('new', 'new_raw') and len(e['args']) == 2:
        a = args()
        if not all(isinstance(x, int) and not isinstance(x, bool) for x in a):
            raise minirust.NoEval('Ratio::new(%r)' % (a,))
        if a[1] == 0:
            raise minirust.Panics('denominator == 0')
        return Rat(Fr(a[0], a[1]))
    if is_ratio and last in ('zero', 'one', 'default') and not e['args']:
        return Rat(1 if last == 'one' else 0)
    if is_ratio and last in ('from_integer', 'from') and len(e['args']) == 1:
        a = args()
        if isinstance(a[0], int) and not isinstance(a[0], bool):
            return Rat(a[0])
        if isinstance(a[0], Rat):
            return a[0]
        if isinstance(a[0], tuple) and len(a[0]) == 2 and all(isinstance(x, int) for x in a[0]):
            if a[0][1] == 0:
                raise minirust.Panics('denominator == 0')
            return Rat(Fr(a[0][0], a[0][1]))
    if last in ('from_i64', 'from_u64', 'from_i32') and 'Option<' in t and 'Ratio' in t and len(e['args']) == 1:
        a = args()
        if isinstance(a[0], int) and not isinstance(a[0], bool):
            return minirust.some(Rat(a[0]))
    return NotImplemented


def host_into(recv, ty):
    if 'Ratio<' in ty or 'Rational' in ty:
        if isinstance(recv, tuple) and len(recv) == 2 and all(isinstance(x, int) and not isinstance(x, bool) for x in recv):
            if recv[1] == 0:
                raise minirust.Panics('denominator == 0')
            return Rat(Fr(recv[0], recv[1]))
        if isinstance(recv, int) and not isinstance(recv, bool):
            return Rat(recv)
        if isinstance(recv, Rat):
            return recv
    return NotImplemented
