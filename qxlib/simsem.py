"""The `sim` queries evaluated end to end on a concrete state (DESIGN 10.1 E3b, C06).

`amplitude`, `expectation_value`, `sample` and `decomp_graph` of cli/sim.rs are interpreted from their HIR by minirust.  The circuit is a host whose
diagram denotes a fixed state psi = C|0..0> with exact amplitudes in Q(i); the host graph gives every diagram operation the queries use its meaning
on that state (plugging a basis element projects, a spider inserted into a boundary edge multiplies by its 2x2 matrix over Q(sqrt2, i), plugging the
adjoint copy takes the inner product), the decomposer host returns the scalar the fully plugged diagram denotes, and sampling runs over every outcome
of its Bernoulli draws (rngsem) with the parameter of each draw recorded.  The numbers the functions return are compared with the amplitude,
expectation value and conditional probabilities computed here directly from psi.  Nothing of the analysed crate is compiled or run."""
from fractions import Fraction as Fr
import itertools
from . import minirust, rngsem

SIM = 'cli::sim::'


class K:
    """a + b*sqrt2 + c*i + d*i*sqrt2 with rational a, b, c, d"""
    __slots__ = ('v',)

    def __init__(self, a=0, b=0, c=0, d=0):
        self.v = (Fr(a), Fr(b), Fr(c), Fr(d))

    def __add__(self, o):
        return K(*[x + y for x, y in zip(self.v, o.v)])

    def __sub__(self, o):
        return K(*[x - y for x, y in zip(self.v, o.v)])

    def __mul__(self, o):
        a, b, c, d = self.v
        e, f, g, h = o.v
        return K(a * e + 2 * b * f - c * g - 2 * d * h, a * f + b * e - c * h - d * g, a * g + 2 * b * h + c * e + 2 * d * f, a * h + b * g + c * f + d * e)

    def conj(self):
        a, b, c, d = self.v
        return K(a, b, -c, -d)

    def __eq__(self, o):
        return isinstance(o, K) and self.v == o.v

    def __hash__(self):
        return hash(self.v)

    def is_zero(self):
        return not any(self.v)

    def rational_parts(self):
        """(re, im) when no sqrt2 is involved, else None"""
        a, b, c, d = self.v
        return (a, c) if (b == 0 and d == 0) else None

    def __repr__(self):
        return 'K%s' % (tuple(str(x) for x in self.v),)


ONE, ZERO, I_ = K(1), K(0), K(0, 0, 1)
INV_SQRT2 = K(0, Fr(1, 2))


def expi(ph):
    """e^{i pi ph} for ph a multiple of 1/4"""
    ph = Fr(ph) % 2
    if (ph * 4).denominator != 1:
        raise minirust.NoEval('phase %s' % ph)
    k = int(ph * 4)
    base = K(0, Fr(1, 2), 0, Fr(1, 2))      # e^{i pi/4} = (1 + i)/sqrt2
    r = ONE
    for _ in range(k):
        r = r * base
    return r


def mat_mul(A, B):
    return [[A[i][0] * B[0][j] + A[i][1] * B[1][j] for j in range(2)] for i in range(2)]


def mat_eq(A, B):
    return all(A[i][j] == B[i][j] for i in range(2) for j in range(2))


IDM = [[ONE, ZERO], [ZERO, ONE]]
HM = [[INV_SQRT2, INV_SQRT2], [INV_SQRT2, ZERO - INV_SQRT2]]


def spider(vtype, ph):
    """the 1 -> 1 spider of that colour and phase"""
    z = [[ONE, ZERO], [ZERO, expi(ph)]]
    if vtype == 'Z':
        return z
    if vtype == 'X':
        return mat_mul(HM, mat_mul(z, HM))
    raise minirust.NoEval('spider type %s' % vtype)


PAULI = {'I': IDM, 'X': [[ZERO, ONE], [ONE, ZERO]], 'Y': [[ZERO, ZERO - I_], [I_, ZERO]], 'Z': [[ONE, ZERO], [ZERO, ZERO - ONE]]}


def states():
    """the fixed states: {qubits: {bits: K}} with dyadic probabilities, normalised, complex amplitudes"""
    s2 = {(0, 0): K(Fr(4, 8), 0, Fr(4, 8)), (0, 1): K(Fr(4, 8)), (1, 0): K(Fr(2, 8), 0, Fr(2, 8)), (1, 1): K(Fr(2, 8), 0, Fr(-2, 8))}
    # three qubits, amplitudes over 16: 128 + 32 + 32 + 16 + 16 + 16 + 16 + 0 = 256 (|111> has amplitude 0: a draw with probability exactly 0)
    raw = [(8, 8), (4, 4), (4, -4), (4, 0), (0, 4), (4, 0), (0, -4), (0, 0)]
    tot = sum(p * p + q * q for p, q in raw)
    assert tot == 256
    s3 = {}
    for bits, (p, q) in zip(itertools.product((0, 1), repeat=3), raw):
        s3[bits] = K(Fr(p, 16), 0, Fr(q, 16))
    s1 = {(0,): K(Fr(1, 2), 0, Fr(1, 2)), (1,): K(Fr(1, 2), 0, Fr(-1, 2))}
    return {1: s1, 2: s2, 3: s3}


STATES = states()


class Scalar(minirust.Obj):
    def __init__(self, val):
        self.val = val
        minirust.Obj.__init__(self, 'scalar', {'conj': lambda a: Scalar(self.val.conj()), 'complex_value': lambda a: self._cv(),
                                               'clone': lambda a: self}, strict=True)

    def _cv(self):
        rp = self.val.rational_parts()
        if rp is None:
            raise minirust.NoEval('an irrational scalar')
        return {'__struct__': 'num::Complex<f64>', 're': float(rp[0]), 'im': float(rp[1])}

    def __mul__(self, o):
        if isinstance(o, Scalar):
            return Scalar(self.val * o.val)
        return NotImplemented

    def mr_clone(self):
        return self


def _elem(x):
    nm = str(x[1]).rsplit('::', 1)[-1] if (isinstance(x, tuple) and x and x[0] == 'const') else None
    if nm not in ('Z0', 'Z1'):
        raise minirust.NoEval('basis element %r' % (x,))
    return 0 if nm == 'Z0' else 1


class Graph(minirust.Obj):
    """the diagram of C with its inputs open; see the module docstring"""

    def __init__(self, q, hadamard_outputs=(), log=None):
        self.q = q
        self.vec = None                      # {bits over all q qubits: K} once the inputs are plugged
        self.outs = list(range(q))           # qubits whose outputs are still open, in output order
        self.had = set(hadamard_outputs)     # qubits whose boundary edge is a Hadamard edge (the state psi includes that Hadamard)
        self.scalar = ONE
        self.fresh = {}                      # vertex id -> (type, phase)
        self.edges = {}                      # frozenset(ends) -> type name, for the edges touched by the query
        self.removed = set()
        self.nextv = 1000
        self.log = log if log is not None else []
        self.closed = None                   # the value once the adjoint has been plugged
        minirust.Obj.__init__(self, 'graph', {
            'plug_inputs': self._plug_inputs, 'plug_outputs': self._plug_outputs, 'plug_output': self._plug_output, 'to_adjoint': self._to_adjoint,
            'plug': self._plug, 'outputs': lambda a: [100 + j for j in self.outs], 'incident_edge_vec': self._incident,
            'add_vertex_with_phase': self._add_vertex, 'remove_edge': self._remove_edge, 'add_edge_with_type': self._add_edge, 'add_edge': self._add_edge,
            'scalar_mut': lambda a: minirust.Obj('scalar_mut', {'mul_phase': self._mul_phase}, strict=True), 'clone': lambda a: self._copy(),
            'num_outputs': lambda a: len(self.outs),
        }, strict=True)

    def _copy(self):
        g = Graph(self.q, self.had, self.log)
        g.vec = dict(self.vec) if self.vec is not None else None
        g.outs = list(self.outs)
        g.scalar = self.scalar
        g.fresh = dict(self.fresh)
        g.edges = dict(self.edges)
        g.removed = set(self.removed)
        g.nextv = self.nextv
        g.closed = self.closed
        return g

    def mr_clone(self):
        return self._copy()

    def _plug_inputs(self, a):
        els = [_elem(x) for x in a[0]]
        if self.vec is not None:
            raise minirust.Panics('inputs plugged twice')
        if len(els) != self.q:
            raise minirust.Panics('plug_inputs with %d elements on %d inputs' % (len(els), self.q))
        if any(els):
            raise minirust.NoEval('an input state other than |0..0>')
        self.vec = dict(STATES[self.q])
        self.log.append(('plug_inputs', tuple(els)))
        return ()

    def _project(self, qubit, bit):
        self.vec = dict((b, (v if b[qubit] == bit else ZERO)) for b, v in self.vec.items())

    def _plug_output(self, a):
        i, el = a[0], _elem(a[1])
        if self.vec is None:
            raise minirust.NoEval('an output plugged before the inputs')
        if not (isinstance(i, int) and 0 <= i < len(self.outs)):
            raise minirust.Panics('plug_output(%r) with %d outputs left' % (i, len(self.outs)))
        qb = self.outs.pop(i)
        if self._chain(qb) is not None and not mat_eq(self._operator(qb), IDM):
            raise minirust.NoEval('an output plugged after a spider was inserted on it')
        self._project(qb, el)
        self.log.append(('plug_output', qb, el))
        return ()

    def _plug_outputs(self, a):
        els = [_elem(x) for x in a[0]]
        if self.vec is None:
            raise minirust.NoEval('outputs plugged before the inputs')
        if len(els) != len(self.outs):
            raise minirust.Panics('plug_outputs with %d elements on %d outputs' % (len(els), len(self.outs)))
        for qb, el in zip(list(self.outs), els):
            self._project(qb, el)
            self.log.append(('plug_output', qb, el))
        self.outs = []
        return ()

    # -- boundary surgery ------------------------------------------------------------------------------------------------
    def _incident(self, a):
        b = a[0]
        if not (isinstance(b, int) and 100 <= b < 100 + self.q):
            raise minirust.NoEval('incident edges of %r' % (b,))
        qb = b - 100
        nb = [(tuple(e - {b})[0], t) for e, t in self.edges.items() if b in e and e not in self.removed]
        if not nb and frozenset((200 + qb, b)) not in self.removed:
            nb = [(200 + qb, self._etype(qb))]
        return [(v, ('const', 'graph::EType::' + t)) for v, t in nb]

    def _etype(self, qb):
        return 'H' if qb in self.had else 'N'

    def _add_vertex(self, a):
        ty = str(a[0][1]).rsplit('::', 1)[-1] if (isinstance(a[0], tuple) and a[0][0] == 'const') else None
        ph = a[1]
        ph = getattr(ph, 'v', ph)
        if ty not in ('X', 'Z') or isinstance(ph, bool) or not isinstance(ph, (int, Fr)):
            raise minirust.NoEval('add_vertex_with_phase(%r, %r)' % (a[0], a[1]))
        self.nextv += 1
        self.fresh[self.nextv] = (ty, Fr(ph))
        return self.nextv

    def _remove_edge(self, a):
        e = frozenset((a[0], a[1]))
        if len(e) != 2:
            raise minirust.NoEval('remove_edge(%r, %r)' % (a[0], a[1]))
        known = e in self.edges and e not in self.removed
        orig = any(e == frozenset((200 + qb, 100 + qb)) for qb in range(self.q)) and e not in self.removed
        if not (known or orig):
            raise minirust.Panics('remove_edge(%r, %r): no such edge' % (a[0], a[1]))
        if known:
            del self.edges[e]
        else:
            self.removed.add(e)
        return ()

    def _add_edge(self, a):
        e = frozenset((a[0], a[1]))
        t = 'N'
        if len(a) > 2:
            t = str(a[2][1]).rsplit('::', 1)[-1] if (isinstance(a[2], tuple) and a[2][0] == 'const') else None
        if len(e) != 2 or t not in ('N', 'H') or e in self.edges:
            raise minirust.NoEval('add_edge(%r)' % (a,))
        self.edges[e] = t
        return ()

    def _mul_phase(self, a):
        ph = getattr(a[0], 'v', a[0])
        if isinstance(ph, bool) or not isinstance(ph, (int, Fr)):
            raise minirust.NoEval('mul_phase(%r)' % (a[0],))
        self.scalar = self.scalar * expi(ph)
        return ()

    def _chain(self, qb):
        """the path from the circuit's last vertex (200+qb) to the boundary (100+qb) through the fresh vertices: [(edge type, vertex)] or None when
        the original edge is still there"""
        v, b = 200 + qb, 100 + qb
        if frozenset((v, b)) not in self.removed:
            return None
        path, cur, prev = [], v, None
        for _ in range(8):
            nxt = [(tuple(e - {cur})[0], t) for e, t in self.edges.items() if cur in e and tuple(e - {cur})[0] != prev]
            if len(nxt) != 1:
                raise minirust.NoEval('the boundary edge of qubit %d was replaced by something that is not a path' % qb)
            w, t = nxt[0]
            path.append((t, w))
            if w == b:
                return path
            if w not in self.fresh:
                raise minirust.NoEval('the path from qubit %d runs through vertex %r' % (qb, w))
            prev, cur = cur, w
        raise minirust.NoEval('path too long')

    def _operator(self, qb):
        """what stands between the state psi (which includes the original boundary edge) and the output of qubit qb"""
        ch = self._chain(qb)
        if ch is None:
            return IDM
        m = HM if qb in self.had else IDM            # undo the original edge, then read the path
        for t, w in ch:
            if t == 'H':
                m = mat_mul(HM, m)
            if w in self.fresh:
                m = mat_mul(spider(*self.fresh[w]), m)
        return m

    def _applied(self):
        """the state with the inserted operators applied on the open outputs"""
        vec = dict(self.vec)
        for qb in self.outs:
            m = self._operator(qb)
            if mat_eq(m, IDM):
                continue
            new = {}
            for b, v in vec.items():
                for out in (0, 1):
                    c = m[out][b[qb]]
                    if c.is_zero() or v.is_zero():
                        continue
                    nb = b[:qb] + (out,) + b[qb + 1:]
                    new[nb] = new.get(nb, ZERO) + c * v
            vec = new
        return vec

    def _to_adjoint(self, a):
        if self.vec is None:
            raise minirust.NoEval('the adjoint of a diagram with open inputs')
        g = self._copy()
        g.is_adjoint = True
        self.log.append(('to_adjoint',))
        return g

    def _plug(self, a):
        o = a[0]
        if not (isinstance(o, Graph) and getattr(o, 'is_adjoint', False)) or self.vec is None:
            raise minirust.NoEval('plug of %r' % (o,))
        if o.outs != self.outs:
            raise minirust.Panics('plug: the open outputs %s do not match the inputs %s of the other diagram' % (self.outs, o.outs))
        mine, theirs = self._applied(), o._applied()
        tot = ZERO
        for b, v in mine.items():
            w = theirs.get(b)
            if w is not None:
                tot = tot + w.conj() * v
        self.closed = tot * self.scalar * o.scalar.conj()
        self.outs = []
        self.log.append(('plug-adjoint',))
        return ()

    def value(self):
        if self.outs:
            raise minirust.NoEval('the scalar of a diagram with open outputs')
        if self.closed is not None:
            return self.closed
        if self.vec is None:
            raise minirust.NoEval('the scalar of a diagram with open inputs')
        nz = [v for v in self.vec.values() if not v.is_zero()]
        if len(nz) > 1:
            raise minirust.NoEval('not fully plugged')
        return (nz[0] if nz else ZERO) * self.scalar


class _Recording(dict):
    """method table of a host that records every method it does not model (by name) and returns the host itself"""

    def __init__(self, host, known):
        dict.__init__(self, known)
        self.host = host

    def __contains__(self, k):
        return True

    def __missing__(self, k):
        def rec(a, k=k):
            self.host.config.append(k)
            self.host.log.append(('decomposer.' + k,))
            return self.host
        return rec


class Decomposer(minirust.Obj):
    def __init__(self, log):
        self.target = None
        self.log = log
        self.config = []                     # every other method called on the decomposer, in order
        minirust.Obj.__init__(self, 'decomposer', {}, strict=True)
        self.methods = _Recording(self, {
            'set_target': self._set, 'decompose': lambda a: self._run('decompose'), 'decompose_parallel': lambda a: self._run('decompose_parallel'),
            'scalar': self._scalar,
        })

    def _set(self, a):
        if not isinstance(a[0], Graph):
            raise minirust.NoEval('set_target(%r)' % (a[0],))
        self.target = a[0]
        self.ran = None
        return self

    def _run(self, how):
        if self.target is None:
            raise minirust.NoEval('decompose without a target')
        self.ran = how
        self.log.append((how,))
        return self

    def _scalar(self, a):
        if self.target is None or not getattr(self, 'ran', None):
            raise minirust.NoEval('scalar() before a decomposition')
        return Scalar(self.target.value())


class LogRng(rngsem.Rng):
    def __init__(self):
        rngsem.Rng.__init__(self)
        self.params = []

    def _bool(self, a):
        self.params.append(a[0])
        return rngsem.Rng._bool(self, a)


def interp(facts, rng=None):
    it = minirust.Interp(400000, facts=facts)
    it.inline = lambda c: c.startswith(SIM)

    def hc(c, e, a):
        if c.endswith(('Ratio::<T>::new', 'Ratio::new', 'Rational64::new')):
            n, d = a()
            return Fr(n, d)
        if c.endswith('simplify::full_simp') or c.endswith('::full_simp'):
            g = a()[0]
            if not isinstance(g, Graph):
                raise minirust.NoEval('full_simp(%r)' % (g,))
            return True
        if c in ('rand::rng', 'rand::thread_rng') or c.endswith(('::rng', '::thread_rng')) and not e['args']:
            if rng is None:
                raise minirust.NoEval('a random number generator')
            return rng
        return NotImplemented
    it.host_call = hc
    return it


def circuit(q, had, log):
    return minirust.Obj('circuit', {'num_qubits': lambda a: q, 'to_graph': lambda a: Graph(q, had, log)}, strict=True)


def call(facts, name, q, query, parallel, had=(), rng=None):
    """-> (result, log)"""
    log = []
    f = facts['fns'][SIM + name]
    args = []
    for p_, t in zip(f['params'], f['inputs']):
        if 'Circuit' in t:
            args.append(circuit(q, had, log))
        elif 'Decomposer' in t:
            args.append(Decomposer(log))
        elif 'Vec<' in t:
            args.append(list(query))
        elif 'Option<usize>' in t:
            args.append(parallel)
        else:
            args.append(minirust.Obj(p_.get('name') or 'driver', {}, strict=True))
    return interp(facts, rng).local_call(SIM + name, args), log


def _path_events(log):
    """what was done to the decomposer, apart from the choice between decompose and decompose_parallel"""
    return [ev[0] for ev in log if ev[0].startswith('decomposer.')]


def _paths_differ(outs, logs):
    if outs[0] != outs[1]:
        return 'the results differ: %s without and %s with the parallel option' % (_show(outs[0]), _show(outs[1]))
    a, b = _path_events(logs[0]), _path_events(logs[1])
    if a != b:
        return 'the decomposer is set up differently: %s without and %s with the parallel option (the two paths may differ in decompose / decompose_parallel only)' % (a or 'nothing further', b or 'nothing further')
    return None


def _prob(q, fixed):
    """probability that the qubits in `fixed` ({qubit: bit}) are measured so, in psi"""
    tot = Fr(0)
    for b, v in STATES[q].items():
        if all(b[k] == x for k, x in fixed.items()):
            re, im = v.rational_parts()
            tot += re * re + im * im
    return tot


def _expect(q, paulis, had=()):
    """<psi| P |psi>"""
    vec = dict(STATES[q])
    for qb, p in enumerate(paulis):
        m = PAULI[p]
        new = {}
        for b, v in vec.items():
            for out in (0, 1):
                c = m[out][b[qb]]
                if c.is_zero() or v.is_zero():
                    continue
                nb = b[:qb] + (out,) + b[qb + 1:]
                new[nb] = new.get(nb, ZERO) + c * v
        vec = new
    tot = ZERO
    for b, v in vec.items():
        tot = tot + STATES[q][b].conj() * v
    return tot


def ev_amplitude(facts):
    """-> ({clause: (ok, detail)}, cases)"""
    res = {'value': [True, ''], 'rejects-wrong-length': [True, ''], 'same-on-both-decomposition-paths': [True, '']}
    n = 0
    T, F = True, False
    for q in (1, 2, 3):
        for L in range(0, q + 3):
            for bits in itertools.product((F, T), repeat=L):
                outs, logs = [], []
                for par in (minirust.NONE, minirust.some(2)):
                    r, log = call(facts, 'amplitude', q, bits, par)
                    outs.append(r)
                    logs.append(log)
                    n += 1
                    accept = L == q or L == 1
                    if not accept:
                        if not (isinstance(r, tuple) and r and r[0] == 'Err' and 'StringWrongLen' in str(r[1])):
                            if res['rejects-wrong-length'][0]:
                                res['rejects-wrong-length'] = [False, 'on %d qubits the bit string %s gives %s (diagram operations performed: %s); it must be rejected with the error StringWrongLen'
                                                               % (q, [int(b) for b in bits], _show(r), log)]
                        continue
                    full = tuple(int(b) for b in (bits if L == q else bits * q))
                    a = STATES[q][full]
                    re, im = a.rational_parts()
                    want = float(re * re + im * im)
                    if not (isinstance(r, tuple) and r and r[0] == 'Ok' and r[1] == want):
                        if res['value'][0]:
                            res['value'] = [False, 'on %d qubits the amplitude query for %s returns %s; |<%s|C|0..0>|^2 of the evaluated state is %s'
                                            % (q, [int(b) for b in bits], _show(r), ''.join(map(str, full)), want)]
                d = _paths_differ(outs, logs) if (L == q or L == 1) else None
                if d and res['same-on-both-decomposition-paths'][0]:
                    res['same-on-both-decomposition-paths'] = [False, 'amplitude of %s on %d qubits: %s' % ([int(b) for b in bits], q, d)]
    return res, n


def _show(r):
    if isinstance(r, tuple) and r and r[0] in ('Ok', 'Err'):
        return '%s(%s)' % (r[0], _show(r[1]) if len(r) > 1 else '')
    if isinstance(r, tuple) and len(r) == 3 and r[0] == 'ctor':
        return '%s%s' % (str(r[1]).rsplit('::', 1)[-1], tuple(r[2]))
    return str(r)


def ev_expectation(facts):
    res = {'value': [True, ''], 'value-with-hadamard-boundary-edges': [True, ''], 'rejects-wrong-length': [True, ''], 'same-on-both-decomposition-paths': [True, '']}
    n = 0

    def P(x):
        return ('const', SIM + 'Pauli::' + x)
    for q in (1, 2, 3):
        for L in range(0, q + 2):
            for ps in itertools.product('IXYZ', repeat=L):
                accept = L == q or L == 1
                if not accept and L > 0 and ps != ('X',) * L:
                    continue           # one wrong-length string per length is enough
                for had in ((), tuple(range(0, q, 2))):
                    outs, logs = [], []
                    for par in ((minirust.NONE, minirust.some(2)) if not had else (minirust.NONE,)):
                        r, log = call(facts, 'expectation_value', q, [P(x) for x in ps], par, had)
                        outs.append(r)
                        logs.append(log)
                        n += 1
                        if not accept:
                            if not (isinstance(r, tuple) and r and r[0] == 'Err' and 'StringWrongLen' in str(r[1])):
                                if res['rejects-wrong-length'][0]:
                                    res['rejects-wrong-length'] = [False, 'on %d qubits the Pauli string %s gives %s (diagram operations performed: %s); it must be rejected with the error StringWrongLen'
                                                                   % (q, ''.join(ps), _show(r), log)]
                            continue
                        full = ps if L == q else ps * q
                        w = _expect(q, full).rational_parts()
                        want = float(w[0])
                        cl = 'value-with-hadamard-boundary-edges' if had else 'value'
                        if not (isinstance(r, tuple) and r and r[0] == 'Ok' and r[1] == want):
                            if res[cl][0]:
                                res[cl] = [False, 'on %d qubits%s the expectation value of %s comes out as %s; <psi|%s|psi> of the evaluated state is %s'
                                           % (q, (' (boundary edges of the qubits %s are Hadamard edges)' % list(had)) if had else '', ''.join(ps), _show(r), ''.join(full), want)]
                    d = _paths_differ(outs, logs) if (len(outs) == 2 and accept) else None
                    if d and res['same-on-both-decomposition-paths'][0]:
                        res['same-on-both-decomposition-paths'] = [False, 'expectation value of %s on %d qubits: %s' % (''.join(ps), q, d)]
    return res, n


def ev_sample(facts):
    """every outcome of the Bernoulli draws: the parameter of the k-th draw must be P(bit k = 1 | bits drawn so far) and the string returned must be the bits drawn"""
    res = {'conditional-probability': [True, ''], 'returns-the-drawn-bits': [True, ''], 'every-outcome-reachable': [True, '']}
    n = 0
    for q in (1, 2, 3):
        rng = LogRng()
        seen = set()

        def run():
            rng.params = []
            r, _log = call(facts, 'sample', q, (), minirust.NONE, rng=rng)
            return r, list(rng.params)
        for (r, params), tr in rngsem.explore(run, rng):
            n += 1
            # the draws: a recorded parameter of exactly 0 or 1 makes no choice point; rebuild the bits from the parameters and the choices
            bits, ci = [], 0
            for p in params:
                if p == 0:
                    bits.append(0)
                elif p == 1:
                    bits.append(1)
                else:
                    bits.append(tr[ci][0])
                    ci += 1
            for k, p in enumerate(params[:q]):
                prefix = dict((j, bits[j]) for j in range(k))
                den = _prob(q, prefix)
                if den == 0:
                    continue
                one = dict(prefix)
                one[k] = 1
                want = float(_prob(q, one) / den)
                if p != want and res['conditional-probability'][0]:
                    res['conditional-probability'] = [False, 'on %d qubits, after drawing %s, bit %d is drawn with probability %s; P(1 | %s) of the evaluated state is %s'
                                                      % (q, bits[:k], k, p, ''.join(map(str, bits[:k])) or 'nothing', want)]
            if len(params) != q and res['conditional-probability'][0]:
                res['conditional-probability'] = [False, 'on %d qubits %d bits are drawn' % (q, len(params))]
            if r != ''.join(map(str, bits)) and res['returns-the-drawn-bits'][0]:
                res['returns-the-drawn-bits'] = [False, 'on %d qubits the draws %s are reported as %r' % (q, bits, r)]
            seen.add(tuple(bits))
        want_seen = set(b for b, v in STATES[q].items() if not v.is_zero())
        if seen != want_seen and res['every-outcome-reachable'][0]:
            res['every-outcome-reachable'] = [False, 'on %d qubits the reachable samples are %s, the support of the state is %s' % (q, sorted(seen), sorted(want_seen))]
    return res, n
