"""Semantic comparison of the guards of effect summaries (DESIGN 4.3, round 2).

Two effect summaries (lists of normalised lines `frame | frame | if <cond> : effect`) are compared per (frames, effect): the disjunction of the
guards under which the effect happens must be the same boolean function on both sides.  Conditions are parsed from their printed normal form and
their atoms are grouped into small theories so that differently spelled but equal guards compare equal and really different guards are refuted
with a witness valuation:

  * order atoms `A < B`, `A == B`, ... over the same two terms: trichotomy; over a term and integer literals: representative integers around the
    literals (lengths, degrees and counts are non-negative); `X.is_empty` / `X.nonempty` are `|X| == 0` / `|X| != 0`
  * enum atoms on a subject of a fieldless enum of the crate: `V == b`, `b != V`, `b.pred` (a bool method of the enum, tabulated from its source by
    enumeval) — the domain is the list of variants
  * phase-class atoms `P.is_zero / is_one / is_pauli / is_clifford / is_proper_clifford / is_t` on the same phase term: the five classes
    0, 1, +-1/2, odd/4, other
  * option atoms `X.is_some`, `X.is_none`
  * anything else is an opaque boolean

`compare(got, ref, ...)` answers per key: True (equivalent on every valuation), False with a witness (the atoms of both sides are understood and
shared, and some consistent valuation separates them) or None (undecided: an opaque atom occurs on one side only, a subject is used in two
theories, or the valuation space is too large)."""
import itertools
import re

from . import enumeval


def _top_split(s, sep):
    parts, depth, cur, i = [], 0, '', 0
    while i < len(s):
        ch = s[i]
        if ch in '([{':
            depth += 1
        elif ch in ')]}':
            depth -= 1
        if depth == 0 and s.startswith(sep, i):
            parts.append(cur)
            cur = ''
            i += len(sep)
            continue
        cur += ch
        i += 1
    parts.append(cur)
    return parts


def _wrapped(c):
    if not (c.startswith('(') and c.endswith(')')):
        return False
    depth = 0
    for i, ch in enumerate(c):
        depth += ch == '('
        depth -= ch == ')'
        if depth == 0 and i < len(c) - 1:
            return False
    return True


def parse(c):
    c = c.strip()
    if c == 'true':
        return ('const', True)
    if c == 'false':
        return ('const', False)
    if c.startswith('not '):
        return ('not', parse(c[4:]))
    if _wrapped(c):
        inner = c[1:-1]
        a = _top_split(inner, ' and ')
        o = _top_split(inner, ' or ')
        if len(a) > 1 and len(o) == 1:
            return ('and', [parse(x) for x in a])
        if len(o) > 1 and len(a) == 1:
            return ('or', [parse(x) for x in o])
        if len(a) == 1 and len(o) == 1:
            return parse(inner)
        # mixed without parentheses: `and` binds tighter
        return ('or', [('and', [parse(y) for y in _top_split(x, ' and ')]) for x in o])
    return ('atom', c)


def atoms_of(t, out=None):
    out = out if out is not None else []
    if t[0] == 'atom':
        out.append(t[1])
    elif t[0] == 'not':
        atoms_of(t[1], out)
    elif t[0] in ('and', 'or'):
        for x in t[1]:
            atoms_of(x, out)
    return out


_CMP = re.compile(r'^(.*?) (==|!=|<=|>=|<|>) (.*)$')
_PHASE_PREDS = {'is_zero': {'zero'}, 'is_one': {'one'}, 'is_pauli': {'zero', 'one'}, 'is_clifford': {'zero', 'one', 'half'},
                'is_proper_clifford': {'half'}, 'is_t': {'quarter'}}
_PHASE_DOM = ('zero', 'one', 'half', 'quarter', 'other')
_NONNEG = re.compile(r'^(\|.*\||deg\(.*\)|count\[.*\]|num_[a-z_]+(\(.*\))?)$')


def _int(s):
    return int(s) if re.match(r'^-?\d+$', s) else None


class Theory:
    """classification of atoms: atom text -> (group key, domain tuple, truth function value -> bool)"""

    def __init__(self, facts=None, enum_subjects=None):
        self.facts = facts
        self.enum_subjects = enum_subjects or {}
        self._pred_cache = {}

    def variants(self, subject):
        adt = self.enum_subjects.get(subject)
        if adt and self.facts and adt in self.facts['adts']:
            return adt, [v['name'] for v in self.facts['adts'][adt]['variants']]
        return None, None

    def enum_pred(self, adt, name, variants):
        k = (adt, name)
        if k not in self._pred_cache:
            key = adt + '::' + name
            try:
                if key not in self.facts['fns']:
                    raise enumeval.NotEvaluable('no such method')
                t = enumeval.table(self.facts, key, [[adt + '::' + v for v in variants]])
                if not all(isinstance(x, bool) for x in t.values()):
                    raise enumeval.NotEvaluable('not a predicate')
                self._pred_cache[k] = set(kk[0].rsplit('::', 1)[1] for kk, x in t.items() if x)
            except Exception:
                self._pred_cache[k] = None
        return self._pred_cache[k]

    def classify(self, a):
        """-> (group, kind, payload) ; kind in order2 / orderk / enum / phase / option / opaque"""
        m = None
        parts = _top_split(a, ' == ')
        for op in (' == ', ' != ', ' <= ', ' >= ', ' < ', ' > '):
            parts = _top_split(a, op)
            if len(parts) == 2:
                m = (parts[0].strip(), op.strip(), parts[1].strip())
                break
        if a.endswith('.is_empty') or a.endswith('.nonempty'):
            m = ('|%s|' % a[:-9], '==' if a.endswith('.is_empty') else '!=', '0')
        if m:
            l, op, r = m
            # enum equality
            for subj, other in ((l, r), (r, l)):
                adt, vs = self.variants(subj)
                if vs and other in vs and op in ('==', '!='):
                    return (('enum', subj), 'enum', ({other} if op == '==' else set(vs) - {other}, tuple(vs)))
            li, ri = _int(l), _int(r)
            if li is not None and ri is not None:
                val = {'==': li == ri, '!=': li != ri, '<': li < ri, '<=': li <= ri, '>': li > ri, '>=': li >= ri}[op]
                return (('const', a), 'const', val)
            if ri is not None:
                return (('num', l), 'orderk', (op, ri))
            if li is not None:
                flip = {'<': '>', '<=': '>=', '>': '<', '>=': '<=', '==': '==', '!=': '!='}[op]
                return (('num', r), 'orderk', (flip, li))
            if l > r:
                l, r = r, l
                op = {'<': '>', '<=': '>=', '>': '<', '>=': '<=', '==': '==', '!=': '!='}[op]
            return (('pair', l, r), 'order2', op)
        mm = re.match(r'^(.*)\.([a-z_]+)$', a)
        if mm:
            subj, pred = mm.group(1), mm.group(2)
            adt, vs = self.variants(subj)
            if vs:
                s = self.enum_pred(adt, pred, vs)
                if s is not None:
                    return (('enum', subj), 'enum', (s, tuple(vs)))
            if pred in _PHASE_PREDS:
                return (('phase', subj), 'phase', _PHASE_PREDS[pred])
            if pred in ('is_some', 'is_none'):
                return (('option', subj), 'option', pred == 'is_some')
        mm = re.match(r'^(.*) ~ (Some\(.*\)|None)$', a)
        if mm and (mm.group(2) == 'None' or re.match(r'^Some\(&?(mut )?[a-z_][a-z0-9_]*\)$|^Some\(_\)$', mm.group(2))):
            return (('option', mm.group(1)), 'option', mm.group(2) != 'None')
        return (('opaque', a), 'opaque', None)


def _eval(t, val):
    k = t[0]
    if k == 'const':
        return t[1]
    if k == 'not':
        return not _eval(t[1], val)
    if k == 'and':
        return all(_eval(x, val) for x in t[1])
    if k == 'or':
        return any(_eval(x, val) for x in t[1])
    return val[t[1]]


def _frame_nonempty(frames):
    """collections a frame iterates over: inside `each x in C` the collection C is not empty"""
    out = set()
    for fr in frames or ():
        m = re.match(r'^each .*? in (?:enumerate )?(.*)$', fr)
        if m:
            out.add('|%s|' % m.group(1).strip())
    return out


def equivalent(conds_a, conds_b, theory, cap=20000, frames=()):
    """conds_*: list of condition texts (a disjunction: the effect happens if any holds); a = found, b = reference.
    -> (True|False|None, detail)"""
    fa = ('or', [parse(c) for c in conds_a]) if conds_a else ('const', False)
    fb = ('or', [parse(c) for c in conds_b]) if conds_b else ('const', False)
    aa, ab = set(atoms_of(fa)), set(atoms_of(fb))
    cls = {a: theory.classify(a) for a in aa | ab}
    groups = {}
    for a, (g, kind, payload) in cls.items():
        groups.setdefault(g, []).append((a, kind, payload))
    # a subject used in two different theories is not comparable
    subj_kinds = {}
    for g in groups:
        if g[0] in ('enum', 'phase', 'option', 'num'):
            subj_kinds.setdefault(g[1], set()).add(g[0])
    mixed = [s for s, ks in subj_kinds.items() if len(ks) > 1]
    nonempty = _frame_nonempty(frames)
    doms = []
    for g, members in groups.items():
        kind = members[0][1]
        if kind == 'const':
            doms.append((g, members, (None,)))
        elif kind == 'order2':
            doms.append((g, members, ('lt', 'eq', 'gt')))
        elif kind == 'orderk':
            ks = sorted(set(p[1] for _a, _k, p in members))
            pts = sorted(set(x for k_ in ks for x in (k_ - 1, k_, k_ + 1)))
            if _NONNEG.match(g[1]):
                pts = [x for x in pts if x >= 0] or [0]
            if g[1] in nonempty:
                pts = [x for x in pts if x >= 1] or [1]
            doms.append((g, members, tuple(pts)))
        elif kind == 'enum':
            doms.append((g, members, members[0][2][1]))
        elif kind == 'phase':
            doms.append((g, members, _PHASE_DOM))
        elif kind == 'option':
            doms.append((g, members, (True, False)))
        else:
            doms.append((g, members, (True, False)))
    size = 1
    for _g, _m, d in doms:
        size *= len(d)
    if size > cap:
        return None, 'valuation space too large (%d)' % size
    witness = None
    for choice in itertools.product(*[d for _g, _m, d in doms]):
        val = {}
        for (g, members, _d), x in zip(doms, choice):
            for a, kind, payload in members:
                if kind == 'const':
                    val[a] = payload
                elif kind == 'order2':
                    val[a] = {'==': x == 'eq', '!=': x != 'eq', '<': x == 'lt', '<=': x in ('lt', 'eq'), '>': x == 'gt', '>=': x in ('gt', 'eq')}[payload]
                elif kind == 'orderk':
                    op, k_ = payload
                    val[a] = {'==': x == k_, '!=': x != k_, '<': x < k_, '<=': x <= k_, '>': x > k_, '>=': x >= k_}[op]
                elif kind == 'enum':
                    val[a] = x in payload[0]
                elif kind == 'phase':
                    val[a] = x in payload
                elif kind == 'option':
                    val[a] = (x == payload)
                else:
                    val[a] = x
        if _eval(fa, val) != _eval(fb, val):
            witness = dict((str(g[1:]), x) for (g, _m, _d), x in zip(doms, choice))
            break
    if witness is None:
        return True, None
    if mixed:
        return None, 'the term %s is tested in two different ways that this comparison cannot relate' % mixed[0]
    ga = set(cls[a][0] for a in aa if cls[a][1] != 'const')
    gb = set(cls[a][0] for a in ab if cls[a][1] != 'const')
    added, dropped = ga - gb, gb - ga
    if added and dropped:
        # a tested term disappeared and another one appeared: possibly the same test spelled through a different accessor
        return None, 'the test on `%s` was replaced by a test on `%s`; whether they agree is not decided' % (sorted(dropped, key=str)[0][1], sorted(added, key=str)[0][1])
    return False, witness


def split_line(line):
    """normalised line -> (frames tuple, condition text or 'true', effect)"""
    if ' : ' not in line:
        return (), 'true', line
    ctx, eff = line.split(' : ', 1)
    parts = ctx.split(' | ')
    if not all(p_.startswith(('each ', 'for ', 'case ', 'if ')) for p_ in parts):
        return (ctx,), 'true', eff
    frames = tuple(p_ for p_ in parts if not p_.startswith('if '))
    conds = [p_[3:] for p_ in parts if p_.startswith('if ')]
    c = 'true' if not conds else conds[0] if len(conds) == 1 else '(%s)' % ' and '.join(conds)
    return frames, c, eff


def compare(got, ref, theory):
    """-> list of (key, verdict, detail): key = 'frames : effect'; verdict True / False / None"""
    ga, ra = {}, {}
    for lines, acc in ((got, ga), (ref, ra)):
        for l in lines:
            fr, c, eff = split_line(l)
            acc.setdefault((fr, eff), []).append(c)
    out = []
    for k in sorted(set(ga) | set(ra), key=str):
        a, b = ga.get(k, []), ra.get(k, [])
        if sorted(a) == sorted(b):
            out.append((k, True, None))
            continue
        v, d = equivalent(a, b, theory, frames=k[0])
        out.append((k, v, d))
    return out
