"""Evaluation of the gate / circuit level functions of gate.rs and circuit.rs on small concrete circuits (DESIGN 10.1 E3b).

Gates are structs {t: kind constant, qs: [..], phase: Ph, vars: ..}; circuits {nqubits, gates: [..]}.  Functions of the `gate::` and `circuit::`
modules are interpreted from their HIR by minirust (crate-local calls are followed); phases are exact fractions of pi behind a small host
object.  Nothing of the analysed crate is compiled or run.  Everything outside the interpreter's subset raises minirust.NoEval / Proceed and the
calling rule falls back to its syntactic reading or reports `undecided`."""
from fractions import Fraction as Fr

from . import minirust

GT = 'gate::GType'
DECLINED = (minirust.NoEval, minirust.Proceed, TypeError, KeyError, IndexError, AttributeError, ValueError, ZeroDivisionError)


class Ph(minirust.Obj):
    """a phase: an exact fraction of pi modulo 2"""

    def __init__(self, v):
        self.v = Fr(v) % 2
        v_ = self.v
        minirust.Obj.__init__(self, 'phase', {
            'is_zero': lambda a: v_ == 0, 'is_one': lambda a: v_ == 1, 'is_pauli': lambda a: v_.denominator == 1,
            'is_clifford': lambda a: v_.denominator <= 2, 'is_proper_clifford': lambda a: v_.denominator == 2, 'is_t': lambda a: v_.denominator == 4,
            'clone': lambda a: self, 'into': lambda a: self, 'to_rational': lambda a: self, 'neg': lambda a: -self, 'normalize': lambda a: self,
        }, strict=False)

    def __neg__(self):
        return Ph(-self.v)

    def __mul__(self, k):
        if isinstance(k, int) and not isinstance(k, bool):
            return Ph(self.v * k)
        if isinstance(k, Ph):
            raise minirust.NoEval('phase * phase')
        raise minirust.NoEval('phase * %r' % (k,))
    __rmul__ = __mul__

    def __add__(self, o):
        if isinstance(o, Ph):
            return Ph(self.v + o.v)
        if isinstance(o, int) and not isinstance(o, bool):
            return Ph(self.v + o)
        raise minirust.NoEval('phase + %r' % (o,))
    __radd__ = __add__

    def __sub__(self, o):
        return self + (-o if isinstance(o, Ph) else -int(o))

    def __eq__(self, o):
        if isinstance(o, Ph):
            return o.v == self.v
        if isinstance(o, int) and not isinstance(o, bool):
            return self.v == Fr(o) % 2
        return False

    def __ne__(self, o):
        return not self == o
    __hash__ = None

    def __repr__(self):
        return 'Ph(%s)' % self.v


def interp(facts, fuel=20000):
    it = minirust.Interp(fuel=fuel, facts=facts, inline=lambda c: c.startswith(('gate::', 'circuit::', '<gate::', '<circuit::')))

    def host_call(c, e, args):
        t = (e.get('ty') or '')
        last = c.rsplit('::', 1)[-1]
        if last in ('zero', 'one') and ('Phase' in t or 'Ratio' in t):
            return Ph(0 if last == 'zero' else 1)
        if last == 'zero' and 'Parity' in t:
            return minirust.Obj('parity', {'is_empty': lambda a: True, 'is_zero': lambda a: True}, strict=False)
        if last == 'new' and ('Ratio' in c or 'Ratio' in t) and len(e['args']) == 2:
            a = args()
            if all(isinstance(x, int) and not isinstance(x, bool) for x in a) and a[1] != 0:
                return Ph(Fr(a[0], a[1]))
        if c in ('phase::Phase::new',) and len(e['args']) == 1:
            a = args()
            return a[0] if isinstance(a[0], Ph) else Ph(a[0])
        if last in ('from', 'into') and len(e['args']) == 1 and ('Phase' in t or 'Parity' in t):
            a = args()
            if isinstance(a[0], (Ph, minirust.Obj)):
                return a[0]
            if isinstance(a[0], int) and not isinstance(a[0], bool) and 'Phase' in t:
                return Ph(a[0])
        return NotImplemented
    it.host_call = host_call

    def host_method(callee, nm, recv, args):
        if nm == 'into' and isinstance(recv, Ph):
            return recv
        return NotImplemented
    it.host_method = host_method
    return it


def kind_const(kind):
    return ('const', GT + '::' + kind)


def gate(kind, qs, phase=0):
    return {'__struct__': 'gate::Gate', 't': kind_const(kind), 'qs': list(qs), 'phase': phase if isinstance(phase, Ph) else Ph(phase),
            'vars': minirust.Obj('parity', {'is_empty': lambda a: True, 'is_zero': lambda a: True}, strict=False)}


def circuit(n, gates, split=None):
    """`split`: lay the gate deque out as two ring-buffer slices [0, split) + [split, len) (what push_front after push_back produces)"""
    return {'__struct__': 'circuit::Circuit', 'nqubits': n, 'gates': minirust.Deque(list(gates), split)}


def out_gate(g):
    """(kind, qubits, phase fraction) of an evaluated gate struct"""
    if not (isinstance(g, dict) and isinstance(g.get('t'), tuple) and g['t'][0] == 'const'):
        raise minirust.NoEval('not a gate: %r' % (g,))
    ph = g.get('phase')
    if not isinstance(ph, Ph):
        raise minirust.NoEval('phase of an emitted gate is %r' % (ph,))
    if not (isinstance(g.get('qs'), list) and all(isinstance(q, int) for q in g['qs'])):
        raise minirust.NoEval('qubits of an emitted gate are %r' % (g.get('qs'),))
    return (g['t'][1].rsplit('::', 1)[1], tuple(g['qs']), ph.v)


def call(facts, key, args, fuel=20000):
    """evaluate function `key` on host arguments; returns its value (arguments are mutated in place like &mut)"""
    it = interp(facts, fuel)
    return it.local_call(key, list(args))
