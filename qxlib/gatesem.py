"""Semantic descriptors of gate kinds extracted from the two implementations of "what this gate means":
the tensor side (Circuit::to_tensor) and the diagram side (Gate::add_to_graph).  DESIGN 4.7 / A.2."""
from fractions import Fraction as Fr

from . import hir, rtable

GT = 'gate::GType'


def _phase_desc(e):
    """'param' if the gate's own phase is read, a Fraction for a constant, None otherwise"""
    e = hir.strip(e)
    if e.get('k') == 'Field' and e['name'] == 'phase':
        return 'param'
    v = hir.lit_int(e)
    if v is not None:
        return Fr(v)
    if e.get('k') == 'Call':
        c = hir.callee(e) or ''
        if c.endswith('::new') and len(e['args']) == 2:
            a, b = hir.lit_int(e['args'][0]), hir.lit_int(e['args'][1])
            if a is not None and b:
                return Fr(a, b)
        if c.endswith('One>::one') or c.endswith('::one'):
            return Fr(1)
        if c.endswith('Zero>::zero') or c.endswith('::zero'):
            return Fr(0)
    if e.get('k') == 'MethodCall' and e['name'] in ('into',):
        return _phase_desc(e['recv'])
    return None


def _subst(e, env):
    """follow a local that names a helper's parameter (or a plain `let x = <expr>` copy) back to the caller's expression"""
    seen = 0
    while env and seen < 8:
        e0 = hir.strip(e)
        l = hir.local(e0)
        if l and l[1] in env:
            e = env[l[1]]
            seen += 1
            continue
        break
    return e


def _qpos(e, env=None):
    """position i of `g.qs[i]` / `self.qs[i]`"""
    e = hir.strip(_subst(e, env))
    if e.get('k') == 'Index':
        b = hir.strip(_subst(e['e'], env))
        if b.get('k') == 'Field' and b['name'] == 'qs':
            return hir.lit_int(_subst(e['i'], env))
    return None


def tensor_arm(arm_body, facts=None, env=None, depth=0):
    """sequence of tensor operations of one arm of Circuit::to_tensor; calls of free helper functions of the crate that take the tensor are
    followed (parameters replaced by the caller's arguments)"""
    ops = []
    env = dict(env or {})
    st = hir.stmts_of(arm_body)
    for s in st:
        if s.get('k') == 'Let' and s['pat'].get('k') == 'Bind' and s.get('init') is not None and (s['pat'].get('mode') or '') == 'BindingMode(No, Not)':
            env[s['pat']['id']] = s['init']
            continue
        s0 = hir.strip(s)
        if hir.diverges(s0) or any('panic' in (hir.callee(c) or '') for c in hir.calls(s0)):
            ops.append(('panic',))
            continue
        if s0.get('k') == 'Block':
            ops += tensor_arm(s0, facts, env, depth)
            continue
        if s0.get('k') == 'Call' and facts is not None and depth < 3:
            cal = hir.callee(s0) or ''
            hf = facts['fns'].get(cal)
            if hf is not None and len([p for p in hf['params']]) == len(s0['args']) and all(p.get('k') == 'Bind' for p in hf['params']):
                e2 = dict(env)
                for p, a in zip(hf['params'], s0['args']):
                    e2[p['id']] = a
                ops += tensor_arm(hf['hir'], facts, e2, depth + 1)
                continue
        if s0.get('k') != 'MethodCall':
            ops.append(('?', hir.pp(s0)[:40]))
            continue
        n = s0['name']
        if n == 'hadamard_at':
            ops.append(('H', _qpos(s0['args'][0], env)))
        elif n == 'cphase_at':
            qs = hir.strip(_subst(s0['args'][1], env))
            allq = qs.get('k') == 'Field' and qs['name'] == 'qs'
            ops.append(('cphase', _phase_desc(_subst(s0['args'][0], env)), 'all' if allq else hir.pp(qs)[:20]))
        elif n == 'swap_axes':
            ops.append(('swap', _qpos(s0['args'][0], env), _qpos(s0['args'][1], env)))
        else:
            ops.append(('?', n))
    return ops


def tensor_descriptor(ops):
    """(class, hset, phase) from an operation sequence: H^hset . cphase . H^hset"""
    if not ops:
        return ('nothing',)
    if ops == [('panic',)]:
        return ('panic',)
    if len(ops) == 1 and ops[0][0] == 'H':
        return ('had', ops[0][1])
    if len(ops) == 1 and ops[0][0] == 'swap':
        return ('perm', tuple(sorted(ops[0][1:])))
    cps = [i for i, o in enumerate(ops) if o[0] == 'cphase']
    if len(cps) != 1 or ops[cps[0]][2] != 'all':
        return ('?', ops)
    i = cps[0]
    pre, post = ops[:i], ops[i + 1:]
    if any(o[0] != 'H' for o in pre + post):
        return ('?', ops)
    hp, hq = sorted(o[1] for o in pre), sorted(o[1] for o in post)
    if hp != hq or len(set(hp)) != len(hp) or None in hp:
        return ('not-a-conjugation', ops)
    return ('diag', tuple(hp), ops[i][1])


def tensor_table(facts, key):
    f = facts['fns'][key]
    variants = rtable.enum_variants(facts, GT)
    ms = rtable.enum_matches(f, GT)
    if len(ms) != 1:
        return None
    t, _ = rtable.match_table(ms[0], GT, variants)
    return {v: tensor_descriptor(tensor_arm(t[v]['body'], facts)) for v in variants if v in t}, ms[0]


# ---------------------------------------------------------------- diagram side

def _const_name(e):
    p = hir.def_path(e) or ''
    return p.rsplit('::', 1)[-1] if p else None


def graph_arm(arm_body, facts=None, depth=0):
    """spiders added (position, colour, incoming edge type, phase), connecting edge, sqrt2 power, other notable calls
    (private helpers of gate.rs called from the arm contribute their notable calls as well)"""
    d = {'spiders': [], 'edge': None, 'sqrt2': 0, 'other': []}
    for c in hir.calls(arm_body):
        cal = hir.callee(c) or ''
        if facts is not None and depth < 2 and cal.startswith('gate::Gate::') and cal in facts['fns'] and cal not in (
                'gate::Gate::add_spider', 'gate::Gate::push_basic_gates', 'gate::Gate::add_ccz_postselected', 'gate::Gate::add_to_graph', 'gate::Gate::new', 'gate::Gate::new_with_phase'):
            sub = graph_arm(facts['fns'][cal]['hir'], facts, depth + 1)
            d['other'] += sub['other']
        if cal == 'gate::Gate::add_spider':
            a = c['args']
            d['spiders'].append((_qpos(a[2]), _const_name(a[3]), _const_name(a[4]), _phase_desc(a[5])))
        elif c.get('k') == 'MethodCall' and c['name'] == 'add_edge' and len(c['args']) == 2:
            d['edge'] = 'N'
        elif c.get('k') == 'MethodCall' and c['name'] == 'add_edge_with_type':
            d['edge'] = _const_name(c['args'][2])
        elif c.get('k') == 'MethodCall' and c['name'] == 'mul_sqrt2_pow':
            v = hir.lit_int(c['args'][0])
            d['sqrt2'] = d['sqrt2'] + v if v is not None else '?'
        elif cal in ('gate::Gate::push_basic_gates', 'gate::Gate::add_ccz_postselected', 'gate::Gate::add_to_graph'):
            d['other'].append(cal.rsplit('::', 1)[1])
        elif c.get('k') == 'MethodCall' and c['name'] in ('set_vertex_type', 'set_vars', 'set_inputs', 'insert', 'remove'):
            d['other'].append(c['name'] + (':' + str(_const_name(c['args'][1])) if c['name'] == 'set_vertex_type' else ''))
    return d


def graph_descriptor(d):
    sp = d['spiders']
    if d['other'] and not sp:
        return ('other', tuple(d['other']), d['sqrt2'])
    if not sp:
        return ('nothing',) if not d['other'] else ('other', tuple(d['other']), d['sqrt2'])
    if len(sp) == 1 and not d['edge']:
        pos, col, et, ph = sp[0]
        if et == 'H' and col == 'Z' and ph == 0:
            return ('had', pos)
        if et == 'N' and col in ('Z', 'X'):
            return ('diag', (pos,) if col == 'X' else (), ph)
        return ('?', sp)
    if len(sp) == 2 and d['edge'] in ('N', 'H') and all(s[2] == 'N' and s[3] == 0 and s[1] in ('Z', 'X') for s in sp):
        # colour-changing every X spider to Z toggles the connecting edge once per X: the result must be a Hadamard edge (CZ between Z spiders)
        toggles = sum(1 for s in sp if s[1] == 'X')
        et = d['edge']
        if toggles % 2:
            et = 'H' if et == 'N' else 'N'
        if et != 'H':
            return ('not-a-controlled-phase', sp, d['edge'])
        hset = tuple(sorted(s[0] for s in sp if s[1] == 'X'))
        if sorted(s[0] for s in sp) != [0, 1]:
            return ('?', sp)
        return ('diag2', hset, Fr(1), d['sqrt2'])
    return ('?', sp, d['edge'])


def graph_table(facts, key='gate::Gate::add_to_graph'):
    f = facts['fns'][key]
    variants = rtable.enum_variants(facts, GT)
    ms = rtable.enum_matches(f, GT)
    if len(ms) != 1:
        return None
    t, _ = rtable.match_table(ms[0], GT, variants)
    return {v: (graph_descriptor(graph_arm(t[v]['body'], facts)), graph_arm(t[v]['body'], facts)) for v in variants if v in t}, t
