"""R-MATCH — what a matcher establishes (must-facts), DESIGN 4.1.

For a boolean function the engine builds the formula "the function returns true" from the HIR-lite
tree (recognised idioms: && || !; if/else; if-let / let-else with Some/tuple patterns; match with
or-patterns and guards; early `return false/true`; `for` over incident edges / neighbours whose
body can only reject (=> universally quantified fact); `for` over an array literal or a constant
range (unrolled); .all()/.any() closures; helper predicates inlined through their own bodies), keeps
it in DNF, and exposes the atom set of every accepting disjunct, closed under the implications of
`closure_lits`.  Contracts are predicates over those atom sets.

Existence typestate: every call of a panicking accessor on a vertex parameter must be dominated by
a fact that implies the vertex exists.
"""
from . import hir

GL = 'graph::GraphLike::'
PANICKY = {'vertex_data', 'phase', 'vertex_type', 'degree', 'neighbors', 'incident_edges', 'vars', 'edge_type',
           'phase_and_vars', 'neighbor_vec', 'incident_edge_vec', 'qubit', 'row', 'coord'}
PHASE_PRED = {'phase::Phase::is_pauli': 'pauli', 'phase::Phase::is_proper_clifford': 'proper_clifford',
              '<phase::Phase as num::Zero>::is_zero': 'zero', '<phase::Phase as num::One>::is_one': 'one',
              'phase::Phase::is_t': 't', 'phase::Phase::is_clifford': 'clifford',
              'num::Zero::is_zero': 'zero', 'num::One::is_one': 'one'}

T = ('T',)
F_ = ('F',)


def AND(*fs):
    out = []
    for f in fs:
        if f == F_:
            return F_
        if f == T:
            continue
        if f[0] == 'and':
            out += f[1]
        else:
            out.append(f)
    return T if not out else (out[0] if len(out) == 1 else ('and', out))


def OR(*fs):
    out = []
    for f in fs:
        if f == T:
            return T
        if f == F_:
            continue
        if f[0] == 'or':
            out += f[1]
        else:
            out.append(f)
    return F_ if not out else (out[0] if len(out) == 1 else ('or', out))


def NOT(f):
    if f == T:
        return F_
    if f == F_:
        return T
    if f[0] == 'lit':
        return ('lit', not f[1], f[2])
    if f[0] == 'and':
        return OR(*[NOT(x) for x in f[1]])
    if f[0] == 'or':
        return AND(*[NOT(x) for x in f[1]])
    raise ValueError(f)


class Blowup(Exception):
    pass


def dnf(f, limit=6000):
    if f == T:
        return [frozenset()]
    if f == F_:
        return []
    if f[0] == 'lit':
        return [frozenset([(f[1], f[2])])]
    if f[0] == 'or':
        return [d for x in f[1] for d in dnf(x, limit)]
    if f[0] == 'and':
        res = [frozenset()]
        for x in f[1]:
            dx = dnf(x, limit)
            res = [a | b for a in res for b in dx if not _contradict(a, b)]
            if len(res) > limit:
                raise Blowup()
        return res
    raise ValueError(f)


def _contradict(a, b):
    for (pol, atom) in b:
        if (not pol, atom) in a:
            return True
    return False


def must(f):
    try:
        ds = dnf(f)
    except Blowup:
        return set()
    if not ds:
        return set()
    s = set(ds[0])
    for d in ds[1:]:
        s &= d
    return s


def freeze(x):
    if isinstance(x, (list, tuple)):
        return tuple(freeze(i) for i in x)
    if isinstance(x, dict):
        return ('node', id(x))
    return x


def thaw_formula(f):
    if f and f[0] in ('and', 'or'):
        return (f[0], [thaw_formula(x) for x in f[1]])
    return f


class Ctx:
    def __init__(self, eng, fn, env=None, params=None):
        self.eng = eng
        self.fn = fn
        self.env = dict(env or {})
        self.params = params or set()     # names of caller's vertex parameters
        self.exist_viol = []
        self.opaque = []

    def sub(self):
        c = Ctx(self.eng, self.fn, self.env, self.params)
        c.exist_viol = self.exist_viol
        c.opaque = self.opaque
        return c


def V(n):
    return ('var', n)


def C(p):
    return ('const', p)


W = ('var', '$w')
ET = ('$et',)


ENUM_VARIANTS = {}     # enum path -> [variant paths]; filled by Engine.__init__ from the ADT table


def closure_lits(known):
    """facts implied by a set of literals"""
    out = set(known)
    changed = True
    while changed:
        changed = False
        new = []
        for (pol, a) in list(out):
            if pol and a[0] == 'cmp' and a[1] == 'Eq':
                # x == Enum::A  implies  x != Enum::B for every other variant B
                for x, y in ((a[2], a[3]), (a[3], a[2])):
                    if isinstance(y, tuple) and y[:1] == ('const',) and isinstance(y[1], str) and '::' in y[1] and x[:1] != ('const',):
                        en = y[1].rsplit('::', 1)[0]
                        for other in ENUM_VARIANTS.get(en, []):
                            if other != y[1]:
                                l2, r2 = sorted([x, ('const', other)], key=str)
                                new.append((False, ('cmp', 'Eq', l2, r2)))
            if pol and a[0] == 'some' and a[1][0] in ('vdata_opt', 'ty_opt'):
                new.append((True, ('exists', a[1][1])))
            if pol and a[0] == 'some' and a[1][0] == 'etype_opt':
                new += [(True, ('exists', a[1][1])), (True, ('exists', a[1][2])), (True, ('adj', a[1][1], a[1][2]))]
            if pol and a[0] == 'cmp' and a[1] == 'Eq':
                l, r = a[2], a[3]
                for x, y in ((l, r), (r, l)):
                    if x[0] == 'etype_opt' and y[0] == 'Some':
                        new += [(True, ('exists', x[1])), (True, ('exists', x[2])), (True, ('adj', x[1], x[2])), (True, ('etype', x[1], x[2], y[1]))]
                    if x[0] == 'ty_opt' and y[0] == 'Some':
                        new += [(True, ('exists', x[1])), (True, ('ty', x[1], y[1]))]
                    if x[0] == 'ty' and y[0] == 'const':
                        new.append((True, ('ty', x[1], y)))
                    if x[0] == 'etype' and y[0] == 'const':
                        new.append((True, ('etype', x[1], x[2], y)))
                    if x[0] == 'deg' and y[0] == 'lit':
                        new.append((True, ('deg', x[1], y[1])))
                    if x[0] == '$et' and y[0] == 'const':
                        new.append((True, ('et', y)))
                    if x[0] == 'len' and y[0] == 'lit':
                        new.append((True, ('len', x[1], y[1])))
            if pol and a[0] == 'cmp' and a[1] == 'Eq' and a[2][0] == 'ty' and a[3][0] == 'ty':
                for x, y in ((a[2], a[3]), (a[3], a[2])):
                    for (p2, b) in list(out):
                        if p2 and b[0] == 'ty' and b[1] == x[1]:
                            new.append((True, ('ty', y[1], b[2])))
                        if p2 and b[0] == 'cmp' and b[1] == 'Eq' and x in (b[2], b[3]):
                            other = b[3] if b[2] == x else b[2]
                            if other[0] == 'const':
                                new.append((True, ('cmp', 'Eq') + tuple(sorted([y, other], key=str))))
            if pol and a[0] == 'cmp' and a[1] == 'Ne':
                l, r = a[2], a[3]
                if l[0] == 'var' and r[0] == 'var':
                    new.append((True, ('ne', ) + tuple(sorted([l, r], key=str))))
                for x, y in ((l, r), (r, l)):
                    if x[0] == 'etype_opt' and y[0] == 'Some':
                        new.append((True, ('etype_not', x[1], x[2], y[1])))
            if pol and a[0] == 'cmp' and a[1] in ('Gt', 'Ge', 'Lt', 'Le'):
                l, r = a[2], a[3]
                if l[0] == 'deg' and r[0] == 'lit':
                    new.append((True, ('deg' + a[1], l[1], r[1])))
            if pol and a[0] == 'connected':
                new += [(True, ('exists', a[1])), (True, ('exists', a[2])), (True, ('adj', a[1], a[2]))]
            if pol and a[0] == 'contains':
                new.append((True, ('exists', a[1])))
            if pol and a[0] == 'adj' and a[1][0] == 'var' and a[2][0] == 'var' and a[1] != a[2]:
                # simple graphs have no self loops: adjacent vertices are distinct
                new.append((True, ('ne',) + tuple(sorted([a[1], a[2]], key=str))))
            if pol and a[0] == 'etype':
                new += [(True, ('adj', a[1], a[2])), (True, ('exists', a[1])), (True, ('exists', a[2]))]
            if (not pol) and a[0] == 'cmp' and a[1] in ('Ne', 'Eq', 'Lt', 'Le', 'Gt', 'Ge'):
                inv = {'Ne': 'Eq', 'Eq': 'Ne', 'Lt': 'Ge', 'Le': 'Gt', 'Gt': 'Le', 'Ge': 'Lt'}[a[1]]
                new.append((True, ('cmp', inv, a[2], a[3])))
            if pol and a[0] == 'pat' and a[1].endswith('::Z') or (pol and a[0] == 'pat' and a[1].endswith('::X')):
                pass
        for n in new:
            if n not in out:
                out.add(n)
                changed = True
    return out


class Engine:
    def __init__(self, facts):
        self.facts = facts
        self.fns = facts['fns']
        for path, adt in (facts.get('adts') or {}).items():
            if adt.get('kind') == 'enum' and path not in ENUM_VARIANTS:
                ENUM_VARIANTS[path] = ['%s::%s' % (path, v['name']) for v in adt['variants']]

    # ------------------------------------------------------------ terms
    def term(self, e, cx, known):
        e = hir.strip(e)
        if e is None:
            return ('unk',)
        k = e['k']
        if k == 'Path':
            r = e['res']
            if r['k'] == 'Local':
                return cx.env.get(r['id'], ('var', r['name']))
            if r['k'] in ('Def', 'SelfCtor'):
                return ('const', r.get('path'))
            return ('unk',)
        if k == 'Lit':
            v = hir.lit_int(e)
            return ('lit', v) if v is not None else ('lit', e['v'])
        if k == 'Field':
            b = self.term(e['e'], cx, known)
            if b[0] == 'vdata':
                return (e['name'], b[1])
            if b[0] == 'tuple' and e['name'].isdigit() and int(e['name']) < len(b[1]):
                return b[1][int(e['name'])]
            return ('field', b, e['name'])
        if k == 'Tup':
            return ('tuple', [self.term(x, cx, known) for x in e['items']])
        if k == 'Array':
            return ('array', [self.term(x, cx, known) for x in e['items']])
        if k == 'Cast':
            return self.term(e['e'], cx, known)
        if k == 'Call':
            a = hir.ctor_call(e, 'Some')
            if a is not None:
                return ('Some', self.term(a[0], cx, known))
            return ('call', hir.callee(e) or '?', tuple(freeze(self.term(a, cx, known)) for a in e['args']))
        if k == 'MethodCall':
            c = e.get('callee') or ''
            args = [self.term(a, cx, known) for a in e['args']]
            if c.startswith(GL):
                m = c[len(GL):]
                if m in PANICKY:
                    for a in args[:2 if m == 'edge_type' else 1]:
                        self.check_exists(a, cx, known, e, m)
                if m == 'vertex_type':
                    return ('ty', args[0])
                if m == 'vertex_type_opt':
                    return ('ty_opt', args[0])
                if m == 'vertex_data_opt':
                    return ('vdata_opt', args[0])
                if m == 'vertex_data':
                    return ('vdata', args[0])
                if m == 'phase':
                    return ('phase', args[0])
                if m == 'vars':
                    return ('vars', args[0])
                if m == 'degree':
                    return ('deg', args[0])
                if m == 'edge_type':
                    return ('etype',) + tuple(sorted(args, key=str))
                if m == 'edge_type_opt':
                    return ('etype_opt',) + tuple(sorted(args, key=str))
                if m in ('neighbors', 'neighbor_vec'):
                    return ('nbrs', args[0])
                if m in ('incident_edges', 'incident_edge_vec'):
                    return ('inc', args[0])
                if m == 'phase_and_vars':
                    return ('tuple', [('phase', args[0]), ('vars', args[0])])
                if m in ('inputs', 'outputs'):
                    return (m,)
                if m in ('num_vertices', 'num_edges'):
                    return (m,)
                return ('gl', m, tuple(freeze(a) for a in args))
            r = self.term(e['recv'], cx, known)
            if e['name'] == 'len':
                return ('len', r)
            if e['name'] == 'next' and r[0] == 'nbrs':
                return ('first_nbr_opt', r[1])
            if e['name'] in ('unwrap', 'expect') and r[0] == 'first_nbr_opt':
                return ('first_nbr', r[1])
            if e['name'] in ('iter', 'into_iter', 'copied', 'cloned', 'by_ref', 'collect', 'to_vec'):
                return r
            return ('m', e['name'], freeze(r), tuple(freeze(a) for a in args))
        if k == 'Index':
            b = self.term(e['e'], cx, known)
            i = self.term(e['i'], cx, known)
            if b[0] == 'array' and i[0] == 'lit' and isinstance(i[1], int) and i[1] < len(b[1]):
                return b[1][i[1]]
            return ('idx', freeze(b), freeze(i))
        if k == 'Binary' and e['op'] in ('Mul', 'Add', 'Sub'):
            return ('arith', e['op'], freeze(self.term(e['l'], cx, known)), freeze(self.term(e['r'], cx, known)))
        return ('unk',)

    def check_exists(self, t, cx, known, e, m):
        if not (t[0] == 'var' and t[1] in cx.params):
            return
        cl = closure_lits(known)
        if (True, ('exists', t)) not in cl:
            cx.exist_viol.append((cx.fn, t[1], m, hir.line(e)))

    # ------------------------------------------------------------ patterns
    def bind_pat(self, p, val, cx):
        k = p['k']
        if k == 'Bind':
            cx.env[p['id']] = val
            if p.get('sub'):
                return self.bind_pat(p['sub'], val, cx)
            return T
        if k == 'Wild':
            return T
        if k == 'Ref':
            return self.bind_pat(p['sub'], val, cx)
        if k == 'Tuple':
            fs = []
            for i, sp in enumerate(p['sub']):
                sub = val[1][i] if val[0] == 'tuple' and i < len(val[1]) else ('proj', freeze(val), i)
                fs.append(self.bind_pat(sp, sub, cx))
            return AND(*fs)
        if k in ('TupleStruct', 'Struct'):
            ctor = p['ctor'].get('path', '')
            subs = p['sub'] if k == 'TupleStruct' else [s for _n, s in p['fields']]
            if ctor.endswith('Some') and len(subs) == 1:
                inner = subs[0]
                if val[0] == 'vdata_opt':
                    return AND(('lit', True, ('some', freeze(val))), self.bind_pat(inner, ('vdata', val[1]), cx))
                if val[0] == 'ty_opt':
                    return AND(('lit', True, ('some', freeze(val))), self.bind_pat(inner, ('ty', val[1]), cx))
                if val[0] == 'etype_opt':
                    return AND(('lit', True, ('some', freeze(val))), self.bind_pat(inner, ('etype', val[1], val[2]), cx))
                if val[0] == 'Some':
                    return self.bind_pat(inner, val[1], cx)
                return AND(('lit', True, ('some', freeze(val))), self.bind_pat(inner, ('unwrap', freeze(val)), cx))
            return ('lit', True, ('pat', ctor, freeze(val)))
        if k == 'Path':
            c = p['res'].get('path', '')
            if c.endswith('::None') or c == 'None':
                return ('lit', False, ('some', freeze(val)))
            return ('lit', True, ('cmp', 'Eq', freeze(val), ('const', c)))
        if k == 'Or':
            return OR(*[self.bind_pat(sp, val, cx) for sp in p['sub']])
        if k == 'Lit':
            return ('lit', True, ('cmp', 'Eq', freeze(val), ('lit', hir.lit_int({'k': 'Lit', 'v': p['v']}))))
        return ('lit', True, ('opaque_pat', id(p)))

    # ------------------------------------------------------------ boolean expressions
    def boolexpr(self, e, cx, known):
        e = hir.strip(e)
        k = e['k']
        b = hir.lit_bool(e)
        if b is not None:
            return T if b else F_
        if k == 'Binary' and e['op'] in ('And', 'Or'):
            l = self.boolexpr(e['l'], cx, known)
            if e['op'] == 'And':
                r = self.boolexpr(e['r'], cx, known | must(l))
                return AND(l, r)
            r = self.boolexpr(e['r'], cx, known | must(NOT(l)))
            return OR(l, r)
        if k == 'Unary' and e['op'] == 'Not':
            return NOT(self.boolexpr(e['e'], cx, known))
        if k == 'Binary' and e['op'] in ('Eq', 'Ne', 'Lt', 'Le', 'Gt', 'Ge'):
            l = freeze(self.term(e['l'], cx, known))
            r = freeze(self.term(e['r'], cx, known))
            if e['op'] in ('Eq', 'Ne') and str(l) > str(r):
                l, r = r, l
            if e['op'] == 'Ne':
                return ('lit', False, ('cmp', 'Eq', l, r))
            return ('lit', True, ('cmp', e['op'], l, r))
        if k == 'If':
            c = self.boolexpr(e['cond'], cx, known)
            t = self.accept_expr(e['then'], cx, known | must(c))
            el = self.accept_expr(e['else'], cx, known | must(NOT(c))) if e.get('else') else T
            return OR(AND(c, t), AND(NOT(c), el))
        if k == 'LetCond':
            v = self.term(e['init'], cx, known)
            return self.bind_pat(e['pat'], v, cx)
        if k == 'Block':
            return self.accept_seq(hir.stmts_of(e), cx, known)
        if k == 'Labeled':
            return self.accept_seq(hir.stmts_of(e['body']), cx, known)
        if k == 'Match':
            sc = self.term(e['scrut'], cx, known)
            alts = []
            prev = []
            for a in e['arms']:
                c = self.bind_pat(a['pat'], sc, cx)
                if a.get('guard'):
                    c = AND(c, self.boolexpr(a['guard'], cx, known | must(c)))
                body = self.accept_expr(a['body'], cx, known | must(c))
                alts.append(AND(*[NOT(p) for p in prev], c, body))
                prev.append(c)
            return OR(*alts)
        if k == 'MethodCall':
            c = e.get('callee') or ''
            rty = (hir.strip(e['recv']).get('ty') or '').replace('&', '').strip()
            if c in PHASE_PRED and (rty == 'phase::Phase' or c.startswith('phase::') or c.startswith('<phase::')):
                t = self.term(e['recv'], cx, known)
                return ('lit', True, ('phase', freeze(t[1]) if t[0] == 'phase' else freeze(t), PHASE_PRED[c]))
            if e['name'] == 'is_empty':
                t = self.term(e['recv'], cx, known)
                if t[0] == 'vars':
                    return ('lit', True, ('vars_empty', freeze(t[1])))
                return ('lit', True, ('cmp', 'Eq', ('len', freeze(t)), ('lit', 0)))
            if c == GL + 'connected':
                a = [freeze(self.term(x, cx, known)) for x in e['args']]
                return ('lit', True, ('connected',) + tuple(sorted(a, key=str)))
            if c == GL + 'contains_vertex':
                return ('lit', True, ('contains', freeze(self.term(e['args'][0], cx, known))))
            if e['name'] in ('all', 'any') and e['args'] and hir.strip(e['args'][0])['k'] == 'Closure':
                it = self.term(e['recv'], cx, known)
                cl = hir.strip(e['args'][0])
                sub = cx.sub()
                if it[0] == 'inc':
                    val = ('tuple', [W, ET])
                elif it[0] == 'nbrs':
                    val = W
                else:
                    val = ('elem', freeze(it))
                self.bind_pat(cl['params'][0], val, sub)
                kn = known | ({(True, ('exists', W))} if it[0] in ('inc', 'nbrs') else set())
                body = self.boolexpr(cl['body'], sub, kn)
                return ('lit', True, ('forall' if e['name'] == 'all' else 'exists_q', freeze(it), freeze(body)))
            if e['name'] in ('is_some', 'is_none'):
                t = self.term(e['recv'], cx, known)
                f = ('lit', True, ('some', freeze(t)))
                return f if e['name'] == 'is_some' else NOT(f)
            if e['name'] == 'contains' and len(e['args']) == 1:
                return ('lit', True, ('contains_elem', freeze(self.term(e['recv'], cx, known)), freeze(self.term(e['args'][0], cx, known))))
        if k == 'Call':
            p = hir.callee(e) or ''
            if p in self.fns and self.fns[p]['output'] == 'bool':
                return self.inline_call(p, e['args'], cx, known)
        if k == 'Path':
            t = self.term(e, cx, known)
            if isinstance(t, tuple) and t and t[0] == 'formula':
                return t[1]
            return ('lit', True, ('boolvar', freeze(t)))
        cx.opaque.append((hir.line(e), hir.pp(e)[:60]))
        return ('lit', True, ('opaque', hir.line(e), hir.pp(e)[:40]))

    def inline_call(self, path, args, cx, known):
        callee = self.fns[path]
        sub = Ctx(self, cx.fn + ' > ' + path.rsplit('::', 1)[-1], {}, cx.params)
        sub.exist_viol = cx.exist_viol
        sub.opaque = cx.opaque
        for p, a in zip(callee['params'], args):
            t = self.term(a, cx, known)
            if p['k'] == 'Bind':
                sub.env[p['id']] = t
        return self.accept_seq(hir.stmts_of(callee['hir']), sub, known)

    def accept_expr(self, e, cx, known):
        e0 = hir.strip(e)
        if e0['k'] == 'Ret':
            return self.boolexpr(e0['e'], cx, known) if e0.get('e') else T
        return self.boolexpr(e0, cx, known)

    # ------------------------------------------------------------ statement sequences
    def accept_seq(self, stmts, cx, known):
        """formula for "this statement list (whose last element is the value) yields true" """
        if not stmts:
            return T
        s = stmts[0]
        rest = stmts[1:]
        k = s['k']
        if not rest and k not in ('Let', 'For', 'While', 'Loop', 'Item'):
            if k == 'If' and s.get('ty') == '()' and not s.get('else'):
                pass
            else:
                return self.accept_expr(s, cx, known)
        if k == 'Let':
            init = s.get('init')
            if init is not None:
                ie = hir.strip(init)
                if ie['k'] == 'Match' and _has_exit(ie):
                    sc = self.term(ie['scrut'], cx, known)
                    ok = []
                    prev = []
                    for a in ie['arms']:
                        c = self.bind_pat(a['pat'], sc, cx)
                        if not _has_exit(a['body']):
                            ok.append(AND(*[NOT(p) for p in prev], c))
                        else:
                            # an exiting arm that returns true would be an accepting path: treat as opaque accept
                            r = [n for n in hir.nodes(a['body']) if n.get('k') == 'Ret']
                            if any(hir.lit_bool(x.get('e')) is not False for x in r):
                                cx.opaque.append((hir.line(ie), 'value-match arm returns non-false'))
                        prev.append(c)
                    cond = OR(*ok)
                    self.bind_pat(s['pat'], ('derived', freeze(sc), hir.line(s)), cx)
                    return AND(cond, self.accept_seq(rest, cx, known | must(cond)))
                if ie.get('ty') == 'bool' and ie['k'] in ('Binary', 'Unary', 'MethodCall', 'Call', 'If', 'Match', 'Block') and s['pat'].get('k') == 'Bind' and 'Mut' not in s['pat'].get('mode', ''):
                    # boolean local: remember its formula
                    f = self.boolexpr(ie, cx, known)
                    cx.env[s['pat']['id']] = ('formula', f)
                    return self.accept_seq(rest, cx, known)
                v = self.term(init, cx, known)
                c = self.bind_pat(s['pat'], v, cx)
                if s.get('els'):
                    els_f = self.accept_seq(hir.stmts_of(s['els']), cx, known | must(NOT(c))) if _returns_true(s['els']) else F_
                    return OR(AND(c, self.accept_seq(rest, cx, known | must(c))), AND(NOT(c), els_f))
            return self.accept_seq(rest, cx, known)
        if k == 'If' and _has_exit(s):
            c = self.boolexpr(s['cond'], cx, known)
            t = self.accept_seq(hir.stmts_of(s['then']) + ([] if _ends_exit(s['then']) else rest), cx.sub() if False else cx, known | must(c))
            if s.get('else'):
                el = self.accept_seq(hir.stmts_of(s['else']) + ([] if _ends_exit(s['else']) else rest), cx, known | must(NOT(c)))
            else:
                el = self.accept_seq(rest, cx, known | must(NOT(c)))
            return OR(AND(c, t), AND(NOT(c), el))
        if k == 'For':
            f = self.for_fact(s, cx, known)
            return AND(f, self.accept_seq(rest, cx, known | must(f)))
        if k == 'Ret':
            return self.boolexpr(s['e'], cx, known) if s.get('e') else T
        if k == 'Block':
            return self.accept_seq(hir.stmts_of(s) + rest, cx, known)
        if k == 'Match' and _has_exit(s):
            sc = self.term(s['scrut'], cx, known)
            alts = []
            prev = []
            for a in s['arms']:
                c = self.bind_pat(a['pat'], sc, cx)
                if a.get('guard'):
                    c = AND(c, self.boolexpr(a['guard'], cx, known | must(c)))
                b = self.accept_seq(hir.stmts_of(a['body']) + ([] if _ends_exit(a['body']) else rest), cx, known | must(c))
                alts.append(AND(*[NOT(p) for p in prev], c, b))
                prev.append(c)
            return OR(*alts)
        if k in ('While', 'Loop') and _has_exit(s):
            cx.opaque.append((hir.line(s), 'loop with exits'))
            return AND(('lit', True, ('opaque', hir.line(s), 'loop')), self.accept_seq(rest, cx, known))
        self.walk_terms(s, cx, known)
        return self.accept_seq(rest, cx, known)

    def for_fact(self, s, cx, known):
        """the fact a `for` statement establishes when control continues after it"""
        it = self.term(s['iter'], cx, known)
        body = s['body']
        rb = hir.range_bounds(s['iter'])
        if it[0] == 'array' or (rb and hir.lit_int(rb[0]) is not None and rb[1] is not None and hir.lit_int(rb[1]) is not None and not rb[2] and hir.lit_int(rb[1]) - hir.lit_int(rb[0]) <= 4):
            elems = it[1] if it[0] == 'array' else [('lit', i) for i in range(hir.lit_int(rb[0]), hir.lit_int(rb[1]))]
            fs = []
            kn = set(known)
            for el in elems:
                sub = cx.sub()
                self.bind_pat(s['pat'], el, sub)
                f = self.survive_seq(hir.stmts_of(body), sub, kn, s['id'])
                fs.append(f)
                kn |= must(f)
            return AND(*fs)
        if not _has_exit(body, loop_id=s['id']):
            self.walk_terms(body, cx, known)
            return T
        sub = cx.sub()
        if it[0] == 'inc':
            val = ('tuple', [W, ET])
        elif it[0] == 'nbrs':
            val = W
        else:
            val = ('elem', freeze(it))
        self.bind_pat(s['pat'], val, sub)
        kn = known | ({(True, ('exists', W))} if it[0] in ('inc', 'nbrs') else set())
        surv = self.survive_seq(hir.stmts_of(body), sub, kn, s['id'])
        return ('lit', True, ('forall', freeze(it), freeze(surv)))

    def survive_seq(self, stmts, cx, known, loop_id, target=None):
        """condition under which one iteration of loop `loop_id` neither rejects (return false) nor leaves
        to an outer loop.  With `target` (a predicate on statements): the condition under which control
        reaches a statement satisfying it ("facts at a program point")."""
        if not stmts:
            return T if target is None else F_
        s = hir.strip(stmts[0]) if stmts[0].get('k') not in ('Let',) else stmts[0]
        rest = stmts[1:]
        k = s['k']
        if target is not None and target(s):
            return T
        if target is not None and k not in ('If', 'Match', 'Block', 'For', 'While', 'Loop', 'Let') and any(target(n) for n in hir.nodes(s, into_closures=False)):
            return T
        if k == 'Ret':
            if target is not None:
                return F_
            return self.boolexpr(s['e'], cx, known) if s.get('e') else T
        if k == 'Continue':
            if target is not None:
                return F_
            return T if s.get('target') == loop_id else F_
        if k == 'Break':
            if target is not None:
                return F_
            return T if s.get('target') == loop_id else F_
        if k == 'If':
            c = self.boolexpr(s['cond'], cx, known)
            tb = hir.stmts_of(s['then'])
            eb = hir.stmts_of(s['else']) if s.get('else') else []
            t = self.survive_seq(tb + ([] if _ends_exit(s['then']) else rest), cx, known | must(c), loop_id, target)
            e = self.survive_seq(eb + ([] if (s.get('else') and _ends_exit(s['else'])) else rest), cx, known | must(NOT(c)), loop_id, target)
            if t == e:
                return t
            return OR(AND(c, t), AND(NOT(c), e))
        if k == 'Match' and (_has_exit(s) or (target is not None and any(target(n) for n in hir.nodes(s, into_closures=False)))):
            sc = self.term(s['scrut'], cx, known)
            alts = []
            prev = []
            for a in s['arms']:
                c = self.bind_pat(a['pat'], sc, cx)
                if a.get('guard'):
                    c = AND(c, self.boolexpr(a['guard'], cx, known | must(c)))
                b = self.survive_seq(hir.stmts_of(a['body']) + ([] if _ends_exit(a['body']) else rest), cx, known | must(c), loop_id, target)
                alts.append(AND(*[NOT(p) for p in prev], c, b))
                prev.append(c)
            return OR(*alts)
        if k == 'For':
            if target is not None and any(target(n) for n in hir.nodes(s['body'], into_closures=False)):
                # the point lies inside this loop: facts = facts before it + reaching the point within one iteration
                sub = cx.sub()
                it = self.term(s['iter'], cx, known)
                if it[0] == 'gl' and it[1] in ('vertices', 'vertex_vec') and s['pat'].get('k') == 'Bind':
                    # a sweep over the vertices of the graph: the element is an existing vertex, named after the loop variable
                    self.bind_pat(s['pat'], ('var', s['pat']['name']), sub)
                    known = known | {(True, ('exists', ('var', s['pat']['name'])))}
                else:
                    self.bind_pat(s['pat'], ('elem', freeze(it)) if it[0] not in ('inc', 'nbrs') else (('tuple', [W, ET]) if it[0] == 'inc' else W), sub)
                return self.survive_seq(hir.stmts_of(s['body']), sub, known, s['id'], target)
            f = self.for_fact(s, cx, known)
            return AND(f, self.survive_seq(rest, cx, known | must(f), loop_id, target))
        if k == 'Let' and s.get('init') is not None:
            ie = hir.strip(s['init'])
            if ie.get('ty') == 'bool' and s['pat'].get('k') == 'Bind' and 'Mut' not in s['pat'].get('mode', '') and ie['k'] in ('Binary', 'Unary', 'MethodCall', 'Call'):
                cx.env[s['pat']['id']] = ('formula', self.boolexpr(ie, cx, known))
            else:
                c = self.bind_pat(s['pat'], self.term(s['init'], cx, known), cx)
                if s.get('els'):
                    return AND(c, self.survive_seq(rest, cx, known | must(c), loop_id, target))
            return self.survive_seq(rest, cx, known, loop_id, target)
        if k == 'Block':
            return self.survive_seq(hir.stmts_of(s) + rest, cx, known, loop_id, target)
        if k in ('If',) and False:
            pass
        self.walk_terms(s, cx, known)
        return self.survive_seq(rest, cx, known, loop_id, target)

    def facts_in(self, key, stmts, target, env=None, known=None, vertex_params=()):
        """like facts_at, for an arbitrary statement list (e.g. a closure body) with pre-bound locals"""
        cx = Ctx(self, key, env or {}, set(vertex_params))
        f = self.survive_seq(list(stmts), cx, set(known or ()), None, target)
        try:
            return dnf(f), cx
        except Blowup:
            return None, cx

    def facts_at(self, key, target, vertex_params=()):
        """DNF of the condition under which control reaches a statement satisfying `target` in function `key`"""
        fn = self.fns[key]
        cx = Ctx(self, key, {}, set(vertex_params))
        f = self.survive_seq(hir.stmts_of(fn['hir']), cx, set(), None, target)
        try:
            return dnf(f), cx
        except Blowup:
            return None, cx

    def walk_terms(self, e, cx, known):
        """evaluate accessor calls inside a statement for the existence typestate"""
        for n in hir.nodes(e, into_closures=True):
            if n.get('k') == 'MethodCall' and (n.get('callee') or '').startswith(GL):
                m = n['callee'][len(GL):]
                if m in PANICKY:
                    for a in n['args'][:2 if m == 'edge_type' else 1]:
                        self.check_exists(self.term(a, cx, known), cx, known, n, m)

    # ------------------------------------------------------------ entry
    def matcher(self, key, vertex_params=None):
        fn = self.fns[key]
        if vertex_params is None:
            vertex_params = {p['name'] for p, t in zip(fn['params'], fn['inputs']) if t == 'usize' and p['k'] == 'Bind'}
        cx = Ctx(self, key, {}, set(vertex_params))
        f = self.accept_seq(hir.stmts_of(fn['hir']), cx, set())
        try:
            ds = dnf(f)
        except Blowup:
            ds = None
        return f, ds, cx


def _has_exit(e, loop_id=None):
    for n in hir.nodes(e, into_closures=False):
        if n.get('k') == 'Ret':
            return True
        if n.get('k') in ('Break', 'Continue') and loop_id is not None and n.get('target') != loop_id:
            # leaving to an outer loop
            inner = False
            if not inner:
                return True
    return False


def _ends_exit(b):
    st = hir.stmts_of(b)
    return bool(st) and hir.strip(st[-1]).get('k') in ('Ret', 'Continue', 'Break')


def _returns_true(b):
    for n in hir.nodes(b, into_closures=False):
        if n.get('k') == 'Ret' and hir.lit_bool(n.get('e')) is not False:
            return True
    return False


# ---------------------------------------------------------------- contract helpers

Z = C('graph::VType::Z')
X = C('graph::VType::X')
B = C('graph::VType::B')
H = C('graph::EType::H')
N = C('graph::EType::N')


def has(fs, atom):
    return (True, atom) in fs


def ty_in(fs, v, tys):
    return any(has(fs, ('ty', V(v), t)) for t in tys)


def ne(fs, a, b):
    return has(fs, ('ne',) + tuple(sorted([V(a), V(b)], key=str)))


def etype(fs, a, b, t):
    return any(has(fs, ('etype', x, y, t)) for x, y in ((V(a), V(b)), (V(b), V(a))))


def ph(fs, v, c):
    return has(fs, ('phase', V(v), c))


def deg_eq(fs, v, n):
    return has(fs, ('deg', V(v), n))


def vars_empty(fs, v):
    return has(fs, ('vars_empty', V(v)))


def forall_inc(fs, v, pred):
    """some universally quantified literal over inc(v)/nbrs(v) whose body implies pred on every disjunct"""
    for (pol, a) in fs:
        if pol and a[0] == 'forall' and a[1][0] in ('inc', 'nbrs') and a[1][1] == V(v):
            try:
                ds = dnf(thaw_formula(a[2]))
            except Blowup:
                continue
            if all(pred(closure_lits(d)) for d in ds):
                return True
    return False


def w_zh(fs):
    return has(fs, ('ty', W, Z)) and has(fs, ('et', H))


def w_zh_or_b(fs):
    return w_zh(fs) or has(fs, ('ty', W, B))


def w_z(fs):
    return has(fs, ('ty', W, Z))


# ---------------------------------------------------------------- how much of an accepting disjunct the engine understood

_KNOWN_TERMS = {'ty', 'ty_opt', 'etype', 'etype_opt', 'deg', 'phase', 'vars', 'var', 'const', 'lit', 'Some', '$et', 'inc', 'nbrs', 'first_nbr', 'first_nbr_opt',
                'derived', 'vdata', 'vdata_opt', 'inputs', 'outputs', 'num_vertices', 'num_edges', 'qubit', 'row'}


def _term_known(t):
    if not isinstance(t, tuple) or not t:
        return True
    h = t[0]
    if h in ('unk', 'call', 'm', 'field', 'gl', 'elem', 'proj', 'unwrap', 'node'):
        return False
    if h == 'idx':
        return False
    if h in ('tuple', 'array'):
        return all(_term_known(x) for x in t[1])
    if h == 'len':
        return _term_known(t[1])
    if h == 'arith':
        return _term_known(t[2]) and _term_known(t[3])
    if h in _KNOWN_TERMS:
        return all(_term_known(x) for x in t[1:] if isinstance(x, tuple))
    return False


def _formula_atoms(f):
    if not isinstance(f, tuple) or not f:
        return
    if f[0] == 'lit':
        yield f[2]
    elif f[0] in ('and', 'or'):
        for x in f[1]:
            yield from _formula_atoms(x)


def atom_known(a):
    """does the engine know what this atom means (so that its absence / presence can be held against a contract)?"""
    h = a[0]
    if h == 'boolvar':
        return isinstance(a[1], tuple) and a[1][:1] == ('lit',)       # a boolean literal flowing through a local
    if h in ('opaque', 'opaque_pat', 'pat', 'contains_elem'):
        return False
    if h == 'cmp':
        if a[2] == a[3]:
            return True                                               # both sides lost to the same opaque term: a tautology as far as the engine can see
        return _term_known(a[2]) and _term_known(a[3])
    if h == 'some':
        return _term_known(a[1])
    if h in ('forall', 'exists_q'):
        if not (isinstance(a[1], tuple) and a[1] and a[1][0] in ('inc', 'nbrs')):
            return False
        return all(atom_known(x) for x in _formula_atoms(a[2]))
    if h in ('phase', 'vars_empty', 'connected', 'contains', 'exists', 'adj', 'ne', 'ty', 'etype', 'etype_not', 'deg', 'degGt', 'degGe', 'degLt', 'degLe', 'et', 'len'):
        return all(_term_known(x) for x in a[1:] if isinstance(x, tuple))
    return False


def foreign_atoms(disjunct):
    """atoms of an accepting disjunct the engine could not interpret: a fact the contract asks for may be hidden in them"""
    return [a for (_pol, a) in disjunct if not atom_known(a)]
