"""R-PATH — enumeration of the return paths of a small decision function with the conditions that
dominate each return site (DESIGN 4.9).

A path is a list of condition items and a returned expression:
  ('cond', expr, polarity)            an `if` / `&&`-chain / guard condition taken with that polarity
  ('pat', pattern, scrutinee, True)   a pattern that matched (if let / match arm / let-else)
  ('nopat', [patterns], scrutinee)    earlier arms / the let-else pattern did not match
  ('loop', node)                      the path runs inside (some iteration of) this loop
  ('after', node)                     the path continues after this loop finished
Loop bodies are explored for one symbolic iteration; statements inside it that fall through end
there (they do not produce a return path).  `?` produces an extra ('try-err', expr) path.
"""
from . import hir


class Path:
    def __init__(self, conds, ret, kind, env):
        self.conds = conds
        self.ret = ret
        self.kind = kind   # 'return' | 'tail' | 'diverge' | 'try-err'
        self.env = env     # local id -> init expr (let bindings seen on the path)

    def cond_texts(self):
        out = []
        for c in self.conds:
            if c[0] == 'cond':
                out.append(('' if c[2] else '!') + hir.pp(c[1])[:90])
            elif c[0] == 'pat':
                out.append('%s ~ %s' % (hir.pp(c[2])[:60], hir.pp_pat(c[1])))
            elif c[0] == 'nopat':
                out.append('%s !~ %s' % (hir.pp(c[2])[:60], ' | '.join(hir.pp_pat(p) for p in c[1])))
            elif c[0] in ('loop', 'after'):
                out.append('%s-loop@%d' % (c[0], hir.line(c[1])))
        return out


def _split_cond(e, pol):
    """Flatten a condition into alternatives of conjunctions: returns list of lists of items."""
    e0 = e
    e = hir.strip(e)
    k = e.get('k')
    if k == 'Binary' and e['op'] == 'And':
        if pol:
            return [a + b for a in _split_cond(e['l'], True) for b in _split_cond(e['r'], True)]
        return _split_cond(e['l'], False) + [a + b for a in _split_cond(e['l'], True) for b in _split_cond(e['r'], False)]
    if k == 'Binary' and e['op'] == 'Or':
        if pol:
            return _split_cond(e['l'], True) + [a + b for a in _split_cond(e['l'], False) for b in _split_cond(e['r'], True)]
        return [a + b for a in _split_cond(e['l'], False) for b in _split_cond(e['r'], False)]
    if k == 'Unary' and e['op'] == 'Not':
        return _split_cond(e['e'], not pol)
    if k == 'LetCond':
        if pol:
            return [[('pat', e['pat'], e['init'], True)]]
        return [[('nopat', [e['pat']], e['init'])]]
    if k == 'Match' and e['arms'] and all(hir.lit_bool(hir.strip(a['body'])) is not None and not a.get('guard') for a in e['arms']):
        # matches!(x, P | Q)  ==  match x { P | Q => true, _ => false }
        alts = []
        prev = []
        for a in e['arms']:
            if hir.lit_bool(hir.strip(a['body'])) == pol:
                item = []
                if prev:
                    item.append(('nopat', list(prev), e['scrut']))
                if a['pat'].get('k') != 'Wild':
                    item.append(('pat', a['pat'], e['scrut'], True))
                alts.append(item)
            prev.append(a['pat'])
        return alts
    b = hir.lit_bool(e)
    if b is not None:
        return [[]] if b == pol else []
    return [[('cond', e, pol)]]


class Enumerator:
    def __init__(self, max_paths=4000):
        self.paths = []
        self.max_paths = max_paths

    def run(self, body):
        self._seq(hir.stmts_of(body), [], {}, True, [])
        return self.paths

    def _emit(self, conds, ret, kind, env):
        if len(self.paths) >= self.max_paths:
            raise RuntimeError('too many paths')
        self.paths.append(Path(list(conds), ret, kind, dict(env)))

    def _seq(self, stmts, conds, env, is_fn_tail, loops):
        """Explore a statement list; the last statement is the value of the function when is_fn_tail."""
        if not stmts:
            if is_fn_tail:
                self._emit(conds, None, 'tail', env)
            return
        s = stmts[0]
        rest = stmts[1:]
        last = not rest
        k = s.get('k')
        if k == 'Let':
            init = s.get('init')
            if init is not None:
                for t in self._tries(init):
                    self._emit(conds + [('try-err', t)], t, 'try-err', env)
                env = dict(env)
                for _n, i in hir.bindings(s['pat']):
                    env[i] = init
                # value-producing if/match with diverging/returning arms
                self._value_exits(init, conds, env, loops)
                if s.get('els'):
                    self._seq(hir.stmts_of(s['els']), conds + [('nopat', [s['pat']], init)], env, False, loops)
                    conds = conds + [('pat', s['pat'], init, True)]
            return self._seq(rest, conds, env, is_fn_tail, loops)
        if k == 'Ret':
            self._emit(conds, s.get('e'), 'return', env)
            return
        if k in ('Break', 'Continue'):
            return
        if hir.diverges(s) and k not in ('If', 'Match', 'Block', 'Loop'):
            self._emit(conds, s, 'diverge', env)
            return
        if k == 'If':
            for alt in _split_cond(s['cond'], True):
                self._seq(hir.stmts_of(s['then']) + rest, conds + alt, env, is_fn_tail, loops)
            for alt in _split_cond(s['cond'], False):
                self._seq((hir.stmts_of(s['else']) if s.get('else') else []) + rest, conds + alt, env, is_fn_tail, loops)
            return
        if k == 'Match':
            prev = []
            for a in s['arms']:
                c = list(conds)
                if prev:
                    c.append(('nopat', list(prev), s['scrut']))
                c.append(('pat', a['pat'], s['scrut'], True))
                e2 = dict(env)
                for _n, i in hir.bindings(a['pat']):
                    e2[i] = ('matched', s['scrut'], a['pat'])
                if a.get('guard'):
                    for alt in _split_cond(a['guard'], True):
                        self._seq(hir.stmts_of(a['body']) + rest, c + alt, e2, is_fn_tail, loops)
                    # guard failed: falls to later arms (approximated: pattern not counted as excluded)
                else:
                    self._seq(hir.stmts_of(a['body']) + rest, c, e2, is_fn_tail, loops)
                    prev.append(a['pat'])
            return
        if k in ('Block', 'Labeled'):
            b = s if k == 'Block' else s['body']
            return self._seq(hir.stmts_of(b) + rest, conds, env, is_fn_tail, loops)
        if k in ('For', 'While', 'Loop'):
            body = s['body']
            c_in = conds + [('loop', s)]
            e2 = dict(env)
            if k == 'For':
                for _n, i in hir.bindings(s['pat']):
                    e2[i] = ('elem', s['iter'])
            if k == 'While':
                for alt in _split_cond(s['cond'], True):
                    self._seq(hir.stmts_of(body), c_in + alt, e2, False, loops + [s])
            else:
                self._seq(hir.stmts_of(body), c_in, e2, False, loops + [s])
            return self._seq(rest, conds + [('after', s)], env, is_fn_tail, loops)
        # plain expression statement
        for t in self._tries(s):
            self._emit(conds + [('try-err', t)], t, 'try-err', env)
        self._value_exits(s, conds, env, loops)
        if last and is_fn_tail:
            self._emit(conds, s, 'tail', env)
            return
        return self._seq(rest, conds, env, is_fn_tail, loops)

    def _tries(self, e):
        return [n for n in hir.nodes(e, into_closures=False) if n.get('k') == 'Try']

    def _value_exits(self, e, conds, env, loops):
        """returns nested inside a value-producing expression (if/match used as a value)"""
        e = hir.strip(e)
        k = e.get('k')
        if k == 'If':
            if any(n.get('k') == 'Ret' for n in hir.nodes(e, into_closures=False)):
                for alt in _split_cond(e['cond'], True):
                    self._seq(hir.stmts_of(e['then']), conds + alt, env, False, loops)
                if e.get('else'):
                    for alt in _split_cond(e['cond'], False):
                        self._seq(hir.stmts_of(e['else']), conds + alt, env, False, loops)
        elif k == 'Match':
            if any(n.get('k') == 'Ret' for n in hir.nodes(e, into_closures=False)):
                prev = []
                for a in e['arms']:
                    c = list(conds)
                    if prev:
                        c.append(('nopat', list(prev), e['scrut']))
                    c.append(('pat', a['pat'], e['scrut'], True))
                    self._seq(hir.stmts_of(a['body']), c, env, False, loops)
                    if not a.get('guard'):
                        prev.append(a['pat'])
        elif k in ('Block', 'Labeled'):
            b = e if k == 'Block' else e['body']
            if any(n.get('k') == 'Ret' for n in hir.nodes(b, into_closures=False)):
                self._seq(hir.stmts_of(b), conds, env, False, loops)


def return_paths(f):
    return Enumerator().run(f['hir'])


# ---------------------------------------------------------------- effect paths

class EPath:
    def __init__(self, conds, events, end, ret=None):
        self.conds = conds
        self.events = events   # list of nodes (or ('loop', node, [EPath...]) tuples)
        self.end = end         # 'end' | 'return' | 'break' | 'continue' | 'diverge'
        self.ret = ret         # returned expression ('return') / last statement executed ('end')

    def cond_texts(self):
        return Path(self.conds, None, 'tail', {}).cond_texts()


def effect_paths(stmts, is_event, max_paths=20000):
    """All paths through a statement list with the events (nodes satisfying is_event) met on each,
    in order.  Nested loops become ('loop', node, paths-of-one-iteration) events.  Paths that diverge
    (panic!, unreachable!) end with 'diverge'."""
    out = []

    def has_interest(e):
        for n in hir.nodes(e, into_closures=False):
            if is_event(n) or n.get('k') in ('Ret', 'Break', 'Continue') or (n.get('ty') == '!' and n.get('k') in ('Call', 'MethodCall')):
                return True
        return False

    def atom_events(e):
        # evaluation order: a call's receiver and arguments are evaluated before the call itself (post-order)
        out_ = []

        def walk(n):
            if isinstance(n, dict):
                if n.get('k') == 'Closure':
                    return
                for ch in hir.children(n):
                    walk(ch)
                if is_event(n):
                    out_.append(n)
            elif isinstance(n, list):
                for x in n:
                    walk(x)
        walk(e)
        return out_

    def seq(stmts, conds, events, last=None):
        if len(out) > max_paths:
            raise RuntimeError('too many paths')
        if not stmts:
            out.append(EPath(conds, events, 'end', last))
            return
        s = stmts[0]
        rest = stmts[1:]
        k = s.get('k')
        if k == 'Let':
            init = s.get('init')
            if init is not None:
                i0 = hir.strip(init)
                if i0.get('k') in ('If', 'Match', 'Block', 'Labeled') and has_interest(i0):
                    # explore the initialiser structurally, then continue
                    return seq([i0] + ([{'k': '_LetElse', 'els': s['els'], 'pat': s['pat'], 'init': init}] if s.get('els') else []) + rest, conds, events, last)
                events = events + atom_events(init)
                if s.get('els'):
                    seq(hir.stmts_of(s['els']), conds + [('nopat', [s['pat']], init)], events, last)
                    conds = conds + [('pat', s['pat'], init, True)]
            return seq(rest, conds, events, s)
        if k == '_LetElse':
            seq(hir.stmts_of(s['els']), conds + [('nopat', [s['pat']], s['init'])], events, last)
            return seq(rest, conds + [('pat', s['pat'], s['init'], True)], events, last)
        if k == 'Ret':
            ev = events + (atom_events(s['e']) if s.get('e') else [])
            out.append(EPath(conds, ev, 'return', s.get('e')))
            return
        if k == 'Break':
            out.append(EPath(conds, events, 'break'))
            return
        if k == 'Continue':
            out.append(EPath(conds, events, 'continue'))
            return
        if k == 'If':
            cev = atom_events(s['cond'])
            for alt in _split_cond(s['cond'], True):
                seq(hir.stmts_of(s['then']) + rest, conds + alt, events + cev, s)
            for alt in _split_cond(s['cond'], False):
                seq((hir.stmts_of(s['else']) if s.get('else') else []) + rest, conds + alt, events + cev, s)
            return
        if k == 'Match':
            sev = atom_events(s['scrut'])
            prev = []
            for a in s['arms']:
                c = list(conds)
                if prev:
                    c.append(('nopat', list(prev), s['scrut']))
                c.append(('pat', a['pat'], s['scrut'], True))
                if a.get('guard'):
                    for alt in _split_cond(a['guard'], True):
                        seq(hir.stmts_of(a['body']) + rest, c + alt, events + sev, s)
                else:
                    seq(hir.stmts_of(a['body']) + rest, c, events + sev, s)
                    prev.append(a['pat'])
            return
        if k in ('Block', 'Labeled'):
            b = s if k == 'Block' else s['body']
            return seq(hir.stmts_of(b) + rest, conds, events, last)
        if k in ('For', 'While', 'Loop'):
            inner = effect_paths(hir.stmts_of(s['body']), is_event, max_paths)
            head = atom_events(s['iter']) if k == 'For' else (atom_events(s['cond']) if k == 'While' else [])
            ev = events + head
            loop_ev = []
            if any(p.events for p in inner) or any(p.end in ('return', 'diverge') for p in inner):
                loop_ev = [('loop', s, inner)]
            # returns inside the loop body end the enclosing function too
            for p in inner:
                if p.end == 'return':
                    out.append(EPath(conds + [('loop', s)] + p.conds, ev + p.events, 'return', p.ret))
            return seq(rest, conds + [('after', s)], ev + loop_ev, s)
        if hir.diverges(s) or (s.get('ty') == '!'):
            out.append(EPath(conds, events + atom_events(s), 'diverge', s))
            return
        s0 = hir.strip(s)
        if s0.get('k') in ('If', 'Match', 'Block') and s0 is not s:
            return seq([s0] + rest, conds, events, last)
        return seq(rest, conds, events + atom_events(s), s)

    seq(list(stmts), [], [])
    return out


# ---------------------------------------------------------------- dominating conditions

def _always_exits(stmts):
    """does every path through the statement list leave (return / break / continue / diverge)?"""
    for s in stmts:
        s0 = hir.strip(s) if s.get('k') not in ('Let',) else s
        k = s0.get('k')
        if k in ('Ret', 'Break', 'Continue'):
            return True
        if hir.diverges(s0) and k not in ('If', 'Match', 'Block'):
            return True
        if k == 'If' and s0.get('else') is not None:
            if _always_exits(hir.stmts_of(s0['then'])) and _always_exits(hir.stmts_of(s0['else'])):
                return True
        if k == 'Match' and s0['arms'] and all(_always_exits(hir.stmts_of(a['body'])) for a in s0['arms']):
            return True
        if k in ('Block', 'Labeled'):
            if _always_exits(hir.stmts_of(s0 if k == 'Block' else s0['body'])):
                return True
    return False


def _fallthrough_facts(s):
    """conditions known to hold after statement s when control falls through it (early-exit idiom)"""
    s0 = hir.strip(s)
    if s0.get('k') != 'If':
        if s0.get('k') == 'Let' and s0.get('els'):
            return [('pat', s0['pat'], s0['init'], True)]
        return []
    then_exits = _always_exits(hir.stmts_of(s0['then']))
    else_st = hir.stmts_of(s0['else']) if s0.get('else') else []
    else_exits = bool(else_st) and _always_exits(else_st)
    out = []
    if then_exits and not else_exits:
        alts = _split_cond(s0['cond'], False)
        if len(alts) == 1:
            out += alts[0]
        # `else if` chains: facts from the else branch when it is a single If statement
        if len(else_st) == 1:
            out += _fallthrough_facts(else_st[0])
    elif else_exits and not then_exits:
        alts = _split_cond(s0['cond'], True)
        if len(alts) == 1:
            out += alts[0]
    return out


def dominating_conds(node, pm):
    """Condition items (see Path) that hold whenever `node` is evaluated: enclosing if/else/match arms,
    `&&`/`||` short-circuit position, and early exits in preceding statements of the enclosing blocks.
    Facts established before a loop are kept inside it only if the loop cannot invalidate them — the
    caller decides (loops crossed are reported as ('loop', node))."""
    out = []
    cur = node
    while id(cur) in pm:
        par, slot = pm[id(cur)]
        k = par.get('k')
        if k == 'If':
            if slot == 'then':
                alts = _split_cond(par['cond'], True)
                if len(alts) == 1:
                    out += alts[0]
            elif slot == 'else':
                alts = _split_cond(par['cond'], False)
                if len(alts) == 1:
                    out += alts[0]
        elif k == 'Binary' and par['op'] == 'And' and slot == 'r':
            alts = _split_cond(par['l'], True)
            if len(alts) == 1:
                out += alts[0]
        elif k == 'Binary' and par['op'] == 'Or' and slot == 'r':
            alts = _split_cond(par['l'], False)
            if len(alts) == 1:
                out += alts[0]
        elif k == 'Match' and slot == 'arms':
            pass
        elif k == 'Block' and slot in ('stmts', 'expr'):
            st = par['stmts'] + ([par['expr']] if par['expr'] is not None else [])
            idx = None
            for i, s in enumerate(st):
                if s is cur:
                    idx = i
                    break
            if idx is not None:
                for s in st[:idx]:
                    out += _fallthrough_facts(s)
        elif k in ('For', 'While', 'Loop') and slot == 'body':
            out.append(('loop', par))
            if k == 'While':
                alts = _split_cond(par['cond'], True)
                if len(alts) == 1:
                    out += alts[0]
        elif k == 'Let' and slot == 'els':
            # the `else` block of `let PAT = init else { .. }` runs exactly when the pattern did not match
            out.append(('nopat', [par['pat']], par['init']))
        elif k == 'Closure':
            out.append(('closure', par))
        elif 'pat' in par and 'body' in par and 'guard' in par and slot == 'body':
            # match arm object
            gp = pm.get(id(par))
            if gp and gp[0].get('k') == 'Match':
                out.append(('pat', par['pat'], gp[0]['scrut'], True))
                if par.get('guard'):
                    alts = _split_cond(par['guard'], True)
                    if len(alts) == 1:
                        out += alts[0]
        cur = par
    return out
