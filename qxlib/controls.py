"""Positive controls: facts of the fixture crate /verif/fixtures/posctl (same driver, every run)."""
from . import extract

_FX = None


def fixture():
    global _FX
    if _FX is None:
        _FX = extract.get_fixture_facts()
    return _FX
