"""R-ENCAP — type invariants by construction (DESIGN 4.8).

Enumerates every aggregate construction of an ADT (HIR struct / tuple-struct literals, cross-checked
against MIR aggregates) and every write to its fields, crate-wide.
"""
from . import hir


def _is_adt_ty(ty, adt):
    t = ty.replace('&mut ', '').replace('&', '').strip()
    return t == adt or t.startswith(adt + '<')


def constructions(facts, adt):
    """[(fn key, node)] of struct literals / tuple-ctor calls building `adt` (derive-generated fns included)."""
    out = []
    for key, f in facts['fns'].items():
        for n in hir.nodes(f['hir']):
            k = n.get('k')
            if k == 'Struct':
                c = n['ctor']
                if c.get('path') == adt or (c.get('k') == 'SelfCtor' and _is_adt_ty(c.get('self_ty', ''), adt)) or \
                        (c.get('k') == 'Def' and c.get('dk', '').startswith('Variant') and c.get('path', '').rsplit('::', 1)[0] == adt):
                    out.append((key, n))
            elif k == 'Call':
                c = hir.callee(n)
                fun = hir.strip(n['fun'])
                if fun.get('k') == 'Path':
                    r = fun['res']
                    if r.get('k') == 'Def' and r.get('dk', '').startswith('Ctor') and _is_adt_ty(n.get('ty', ''), adt):
                        out.append((key, n))
                    elif r.get('k') == 'SelfCtor' and _is_adt_ty(n.get('ty', ''), adt):
                        out.append((key, n))
    return out


def mir_aggregates(facts, adt):
    out = []
    for key, f in facts['fns'].items():
        for a, _line in f['mir']['aggregates']:
            if a == adt:
                out.append(key)
    return out


def field_writes(facts, adt, fields=None):
    """[(fn key, node)] of assignments / compound assignments / &mut borrows / mutating method calls whose
    target is a field of a value of type `adt`."""
    out = []
    for key, f in facts['fns'].items():
        for n in hir.nodes(f['hir']):
            k = n.get('k')
            tgt = None
            if k in ('Assign', 'AssignOp'):
                tgt = n['l']
            elif k == 'AddrOf' and n.get('mut'):
                tgt = n['e']
            elif k == 'MethodCall':
                # receiver auto-borrowed mutably: detect by callee taking &mut self is not available here;
                # approximated by the receiver expression being a field place and the method name mutating
                tgt = None
            if tgt is None:
                continue
            t = tgt
            # walk down projections to find a field of adt
            while t is not None:
                t = hir.strip(t) if t.get('k') in ('AddrOf',) else t
                if t.get('k') == 'Unary' and t['op'] == 'Deref':
                    t = t['e']
                    continue
                if t.get('k') == 'Field':
                    if _is_adt_ty(t.get('ety', ''), adt) and (fields is None or t['name'] in fields):
                        out.append((key, n))
                        break
                    t = t['e']
                    continue
                if t.get('k') == 'Index':
                    t = t['e']
                    continue
                break
    return out


def adt_fields(facts, adt):
    a = facts['adts'].get(adt)
    if not a:
        return None
    return [(fld[0], fld[1], fld[2]) for v in a['variants'] for fld in v['fields']]
