"""Reference equivalence of a small integer algorithm (DESIGN 10.7): the transition function of `limit_denominator` is extracted from the HIR by
symbolic execution on polynomials (floor division is an uninterpreted symbol whose arguments are recorded) and compared, modulo a bijection of
the mutable locals, with the transition function of CPython's Fraction.limit_denominator — the reference the property names.

    p0, q0, p1, q1 = 0, 1, 1, 0 ; n, d = numerator, denominator
    loop:  a = n // d ; q2 = q0 + a*q1 ; if q2 > max: break
           p0, q0, p1, q1 = p1, q1, p0 + a*p1, q2 ; n, d = d, n - a*d
    k = (max - q0) // q1
    if 2*d*(q0 + k*q1) <= denominator: return p1/q1  else: return (p0 + k*p1)/(q0 + k*q1)

The comparison is on normal forms (polynomials, comparison operator with orientation normalised), so renaming, reordering of independent
statements, introduction or removal of temporaries and `.clone()`s are invisible; a changed operator, operand, coefficient or candidate is not."""
import itertools

from . import hir
from .reffect import Poly


class NotUnderstood(Exception):
    pass


REF_VARS = ('p0', 'q0', 'p1', 'q1', 'n', 'd')
REF_INIT = {'p0': Poly.const(0), 'q0': Poly.const(1), 'p1': Poly.const(1), 'q1': Poly.const(0), 'n': Poly.sym('N'), 'd': Poly.sym('D')}


def _S(x):
    return Poly.sym(x)


def ref_step():
    a = _S('a')
    q2 = _S('q0') + a * _S('q1')
    return {'div_args': {'a': (_S('n'), _S('d'))},
            'exit': ('Gt', q2, _S('MAX')),
            'next': {'p0': _S('p1'), 'q0': _S('q1'), 'p1': _S('p0') + a * _S('p1'), 'q1': q2, 'n': _S('d'), 'd': _S('n') - a * _S('d')}}


def ref_final():
    k = _S('k')
    bound = _S('q0') + k * _S('q1')
    return {'div_args': {'k': (_S('MAX') - _S('q0'), _S('q1'))},
            'cond': ('Le', Poly.const(2) * _S('d') * bound, _S('D')),
            'then': (_S('p1'), _S('q1')),
            'else': (_S('p0') + k * _S('p1'), bound)}


def norm_cmp(op, l, r):
    """orientation-normalised comparison: (op in Lt/Le/Eq/Ne, l - r) with Gt/Ge flipped"""
    if op in ('Gt', 'Ge'):
        return ({'Gt': 'Lt', 'Ge': 'Le'}[op], r - l)
    return (op, l - r)


class Sym:
    """symbolic executor for straight-line integer code with lets, assignments to locals, clone(), + - *, div_floor (uninterpreted)"""

    def __init__(self, env, divnames):
        self.env = dict(env)          # local id -> Poly
        self.div = {}                 # symbol -> (Poly, Poly)
        self.divnames = list(divnames)

    def val(self, e):
        e = hir.strip(e)
        k = e.get('k')
        v = hir.lit_int(e)
        if v is not None:
            return Poly.const(v)
        l = hir.local(e)
        if l:
            if l[1] in self.env:
                return self.env[l[1]]
            raise NotUnderstood('use of `%s` before a value is known' % l[0])
        c = hir.callee(e) or ''
        if k == 'Call' and c.endswith('mem::replace') and len(e['args']) == 2:
            tl = hir.local(hir.strip(e['args'][0]))
            if not tl or tl[1] not in self.env:
                raise NotUnderstood('mem::replace on a non-local')
            newv = self.val(e['args'][1])
            old_ = self.env[tl[1]]
            self.env[tl[1]] = newv
            return old_
        if k in ('Call', 'MethodCall'):
            if c.endswith('One::one') or c.endswith('::one'):
                return Poly.const(1)
            if c.endswith('Zero::zero') or c.endswith('::zero'):
                return Poly.const(0)
            if k == 'MethodCall' and e['name'] in ('numer', 'denom') and not e['args']:
                r = hir.local(hir.strip(e['recv']))
                if r and self.env.get(('frac', r[1])):
                    return Poly.sym('N' if e['name'] == 'numer' else 'D')
            if k == 'MethodCall' and e['name'] in ('div_floor', 'div_euclid') and len(e['args']) == 1:
                a, b = self.val(e['recv']), self.val(e['args'][0])
                for s, args in self.div.items():
                    if args == (a, b):
                        return Poly.sym(s)
                if not self.divnames:
                    raise NotUnderstood('more floor divisions than the reference algorithm has')
                s = self.divnames.pop(0)
                self.div[s] = (a, b)
                return Poly.sym(s)
        if k == 'Binary' and e['op'] in ('Add', 'Sub', 'Mul'):
            a, b = self.val(e['l']), self.val(e['r'])
            return a + b if e['op'] == 'Add' else (a - b if e['op'] == 'Sub' else a * b)
        if k == 'Binary' and e['op'] == 'Div':
            a, b = self.val(e['l']), self.val(e['r'])
            raise NotUnderstood('truncating division `/` where the reference floors (`//`)')
        raise NotUnderstood('expression `%s`' % hir.pp(e)[:40])

    def cmp(self, e):
        e = hir.strip(e)
        if e.get('k') == 'Binary' and e['op'] in ('Lt', 'Le', 'Gt', 'Ge', 'Eq', 'Ne'):
            return norm_cmp(e['op'], self.val(e['l']), self.val(e['r']))
        raise NotUnderstood('condition `%s`' % hir.pp(e)[:40])

    def stmt(self, s):
        """returns ('exit', cmp) for `if c { break }`, None otherwise"""
        s0 = hir.strip(s) if s.get('k') != 'Let' else s
        k = s0.get('k')
        if k == 'Let':
            if s0['pat'].get('k') != 'Bind' or s0.get('init') is None:
                raise NotUnderstood('pattern let')
            self.env[s0['pat']['id']] = self.val(s0['init'])
            return None
        if k == 'Assign':
            l = hir.local(hir.strip(s0['l']))
            if not l:
                raise NotUnderstood('assignment to `%s`' % hir.pp(s0['l'])[:30])
            self.env[l[1]] = self.val(s0['r'])
            return None
        if k == 'AssignOp' and s0['op'] in ('AddAssign', 'SubAssign', 'MulAssign'):
            l = hir.local(hir.strip(s0['l']))
            if not l:
                raise NotUnderstood('compound assignment to a non-local')
            a, b = self.env[l[1]], self.val(s0['r'])
            self.env[l[1]] = a + b if s0['op'] == 'AddAssign' else (a - b if s0['op'] == 'SubAssign' else a * b)
            return None
        if k == 'Call' and (hir.callee(s0) or '').endswith('mem::swap') and len(s0['args']) == 2:
            a, b = hir.local(hir.strip(s0['args'][0])), hir.local(hir.strip(s0['args'][1]))
            if not (a and b):
                raise NotUnderstood('mem::swap on non-locals')
            self.env[a[1]], self.env[b[1]] = self.env[b[1]], self.env[a[1]]
            return None
        if k == 'If' and not s0.get('else'):
            st = [hir.strip(x) for x in hir.stmts_of(s0['then'])]
            if len(st) == 1 and st[0].get('k') == 'Break':
                return ('exit', self.cmp(s0['cond']))
        raise NotUnderstood('statement `%s`' % hir.pp(s0)[:50])


def analyse(f):
    """Returns [(slot, ok, message)] or raises NotUnderstood."""
    st = hir.stmts_of(f['hir'])
    ps = [p for p in f['params'] if p.get('k') == 'Bind']
    if len(ps) != 2:
        raise NotUnderstood('signature')
    frac_id, max_id = ps[0]['id'], ps[1]['id']
    loops = [i for i, s in enumerate(st) if hir.strip(s).get('k') == 'Loop']
    if len(loops) != 1:
        raise NotUnderstood('expected exactly one `loop` at the top level, found %d' % len(loops))
    li = loops[0]
    loop = hir.strip(st[li])
    # ---- prelude: run the lets before the loop (guards / early returns are other clauses)
    pre = Sym({max_id: Poly.sym('MAX'), ('frac', frac_id): True}, [])
    for s in st[:li]:
        if s.get('k') == 'Let':
            pre.stmt(s)
    body = hir.stmts_of(loop['body'])
    assigned = []
    for s in body:
        s0 = hir.strip(s)
        if s0.get('k') in ('Assign', 'AssignOp') and hir.local(hir.strip(s0['l'])):
            lid = hir.local(hir.strip(s0['l']))[1]
            if lid not in assigned:
                assigned.append(lid)
        for c in hir.calls(s0):
            if (hir.callee(c) or '').endswith(('mem::replace', 'mem::swap')):
                for a in c['args'][:2 if (hir.callee(c) or '').endswith('swap') else 1]:
                    tl = hir.local(hir.strip(a))
                    if tl and tl[1] not in assigned:
                        assigned.append(tl[1])
    if len(assigned) != 6:
        raise NotUnderstood('the search loop updates %d locals, the reference algorithm has 6 (p0, q0, p1, q1, n, d)' % len(assigned))
    names = {}
    for n in hir.nodes(f['hir']):
        if n.get('k') == 'Let' and n['pat'].get('k') == 'Bind':
            names[n['pat']['id']] = n['pat']['name']
    inits = {lid: pre.env.get(lid) for lid in assigned}
    if any(v is None for v in inits.values()):
        raise NotUnderstood('a loop variable has no initial value before the loop')
    # candidate bijections local -> reference variable, consistent with the initial values
    cands = []
    for perm in itertools.permutations(REF_VARS):
        m = dict(zip(assigned, perm))
        if all(inits[l] == REF_INIT[m[l]] for l in assigned):
            cands.append(m)
    if not cands:
        return [('init', False, 'the initial values %s are not (p0, q0, p1, q1, n, d) = (0, 1, 1, 0, numerator, denominator) under any naming' % {names.get(l, l): str(v) for l, v in inits.items()})]
    tail = st[li + 1:]
    best = None
    for m in cands:
        res = [('init', True, '')]
        # ---- one generic iteration
        base = {l: Poly.sym(m[l]) for l in assigned}
        base.update({max_id: Poly.sym('MAX'), ('frac', frac_id): True})
        ex = Sym(base, ['a'])
        exitc = None
        exit_pos_ok = True
        for s in body:
            r = ex.stmt(s)
            if r:
                if exitc is not None:
                    raise NotUnderstood('two exits in the loop')
                exitc = r[1]
                # the state must not have been modified before the exit test
                exit_pos_ok = all(ex.env[l] == Poly.sym(m[l]) for l in assigned)
        R = ref_step()
        res.append(('loop-quotient', ex.div.get('a') == R['div_args']['a'], 'the quotient of the continued-fraction step must be floor(n / d); found floor(%s / %s)' % tuple(map(str, ex.div.get('a', ('?', '?'))))))
        want = norm_cmp(*R['exit'])
        res.append(('loop-exit', exitc == want and exit_pos_ok, 'the loop must stop when q0 + a*q1 > max_denominator, before the state is updated; found `%s %s 0`%s' % (
            str(exitc[1]) if exitc else '?', {'Lt': '<', 'Le': '<=', 'Eq': '==', 'Ne': '!='}.get(exitc[0], '?') if exitc else '?', '' if exit_pos_ok else ' after a state update')))
        bad = [(m[l], str(ex.env[l]), str(R['next'][m[l]])) for l in assigned if ex.env[l] != R['next'][m[l]]]
        res.append(('loop-step', not bad, 'the state update differs from (p0,q0,p1,q1,n,d) := (p1, q1, p0+a*p1, q0+a*q1, d, n-a*d): ' + '; '.join('%s := %s (reference %s)' % b for b in bad)))
        # ---- final step from a generic state
        fx = Sym(base, ['k'])
        fin = None
        for s in tail:
            s0 = hir.strip(s) if s.get('k') != 'Let' else s
            if s0.get('k') == 'Let':
                fx.stmt(s0)
            elif s0.get('k') == 'If' and s0.get('else'):
                fin = s0
            else:
                raise NotUnderstood('statement after the loop: `%s`' % hir.pp(s0)[:40])
        if fin is None:
            raise NotUnderstood('no final two-candidate choice after the loop')
        Rf = ref_final()
        cond = fx.cmp(fin['cond'])

        def cand(b):
            e = hir.strip(hir.stmts_of(b)[-1])
            if e.get('k') == 'Call' and len(e['args']) == 2 and (hir.callee(e) or '').endswith(('new_raw', '::new')):
                return (fx.val(e['args'][0]), fx.val(e['args'][1]))
            raise NotUnderstood('candidate `%s`' % hir.pp(e)[:40])
        th, el = cand(fin['then']), cand(fin['else'])
        res.append(('final-k', fx.div.get('k') == Rf['div_args']['k'], 'k must be floor((max_denominator - q0) / q1); found floor(%s / %s)' % tuple(map(str, fx.div.get('k', ('?', '?'))))))
        wantc = norm_cmp(*Rf['cond'])
        # accept the negated test with exchanged branches
        neg = {'Le': 'Lt', 'Lt': 'Le'}
        c_ok = cond == wantc or (cond[0] in neg and (neg[cond[0]], Poly() - cond[1]) == wantc)
        # which way round the test is written (judged on the polynomial only, so that a wrong operator is reported once, under final-compare)
        direct = cond[1] == wantc[1] and th == Rf['then'] and el == Rf['else']
        flipped = (Poly() - cond[1]) == wantc[1] and th == Rf['else'] and el == Rf['then']
        res.append(('final-compare', c_ok, 'the bound candidate p1/q1 is chosen exactly when 2*d*(q0 + k*q1) <= denominator (ties go to p1/q1, as in Fraction.limit_denominator); found `%s %s 0`' % (
            str(cond[1]), {'Lt': '<', 'Le': '<='}.get(cond[0], cond[0]))))
        res.append(('final-candidates', direct or flipped, 'the two candidates must be p1/q1 (test true) and (p0 + k*p1)/(q0 + k*q1) (test false); found %s / %s' % (tuple(map(str, th)), tuple(map(str, el)))))
        score = sum(1 for _s, ok, _m in res if ok)
        if best is None or score > best[0]:
            best = (score, res, {names.get(l, str(l)): m[l] for l in assigned})
    return best[1] + [('naming', True, str(best[2]))]
