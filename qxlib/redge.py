"""R-EDGE — edge-insertion discipline (DESIGN 4.5).

`add_edge_with_type` / `add_edge` have undefined behaviour on an existing edge.  Every call in lib code
must be justified: an endpoint is *fresh* (data-flows from add_vertex* in the same body, also through
arrays / vecs of fresh vertices), or the call is dominated by a not-connected test, or it is followed
in the same block by `remove_edge` of the edge it replaces, or it is a named exception.
"""
from . import hir, paths

GL = 'graph::GraphLike::'
FRESH_CALLS = {GL + 'add_vertex', GL + 'add_vertex_with_phase', GL + 'add_vertex_with_data'}
RAW = {GL + 'add_edge_with_type', GL + 'add_edge'}


class Fresh:
    def __init__(self, f):
        self.env = {}    # local id -> 'fresh' | 'freshcoll' | 'emptyvec'
        self.f = f
        self._scan(f['hir'])

    def is_fresh(self, e):
        e = hir.strip(e)
        if e is None:
            return False
        k = e.get('k')
        if k == 'MethodCall' and e.get('callee') in FRESH_CALLS:
            return True
        l = hir.local(e)
        if l:
            return self.env.get(l[1]) == 'fresh'
        if k == 'Index':
            b = hir.local(e['e'])
            return bool(b and self.env.get(b[1]) == 'freshcoll')
        if k == 'Block':
            st = hir.stmts_of(e)
            return bool(st) and self.is_fresh(st[-1])
        return False

    def is_freshcoll(self, e):
        e = hir.strip(e)
        k = e.get('k')
        items = hir.vec_literal(e)
        if items:
            return all(self.is_fresh(x) for x in items)
        if k == 'MethodCall' and e['name'] == 'collect':
            r = hir.strip(e['recv'])
            if r.get('k') == 'MethodCall' and r['name'] == 'map' and r['args'] and hir.strip(r['args'][0]).get('k') == 'Closure':
                return self.is_fresh(hir.strip(r['args'][0])['body'])
        return False

    def _scan(self, body):
        # two passes so that loops pushing into a vec declared earlier are seen
        for _ in range(2):
            for n in hir.nodes(body):
                k = n.get('k')
                if k == 'Let' and n.get('init') is not None and n['pat'].get('k') == 'Bind':
                    pid = n['pat']['id']
                    if self.is_fresh(n['init']):
                        self.env[pid] = 'fresh'
                    elif self.is_freshcoll(n['init']):
                        self.env[pid] = 'freshcoll'
                    else:
                        i = hir.strip(n['init'])
                        if (i.get('k') == 'Call' and (hir.callee(i) or '').endswith(('Vec::<T>::new', 'Vec::<T>::with_capacity'))) or hir.vec_literal(i) == []:
                            self.env.setdefault(pid, 'emptyvec')
                elif k == 'MethodCall' and n['name'] == 'push' and n['args'] and self.is_fresh(n['args'][0]):
                    r = hir.local(n['recv'])
                    if r and self.env.get(r[1]) in ('emptyvec', 'freshcoll'):
                        # a vec that only ever receives fresh vertices
                        others = [m for m in hir.nodes(body) if m.get('k') == 'MethodCall' and m['name'] in ('push', 'extend', 'insert', 'append') and hir.local(m['recv']) and hir.local(m['recv'])[1] == r[1]
                                  and not (m['name'] == 'push' and self.is_fresh(m['args'][0]))]
                        if not others:
                            self.env[r[1]] = 'freshcoll'
                elif k == 'For':
                    # for x in <freshcoll> / for &x in &freshcoll  → x fresh
                    it = hir.strip(n['iter'])
                    while it.get('k') == 'MethodCall' and it['name'] in ('iter', 'into_iter', 'copied', 'cloned'):
                        it = hir.strip(it['recv'])
                    l = hir.local(it)
                    if l and self.env.get(l[1]) == 'freshcoll':
                        for _nm, i in hir.bindings(n['pat']):
                            self.env[i] = 'fresh'
                    # for (a, b) in xs.iter().zip(ys.iter()): each side is fresh when its collection is
                    it0 = hir.strip(n['iter'])
                    while it0.get('k') == 'MethodCall' and it0['name'] in ('copied', 'cloned', 'enumerate'):
                        it0 = hir.strip(it0['recv'])
                    if it0.get('k') == 'MethodCall' and it0['name'] == 'zip' and it0['args'] and n['pat'].get('k') in ('Tuple', 'Ref'):
                        tp = n['pat'] if n['pat'].get('k') == 'Tuple' else n['pat']['sub']
                        if tp.get('k') == 'Tuple' and len(tp['sub']) == 2:
                            for side, sp in zip((it0['recv'], it0['args'][0]), tp['sub']):
                                sd = hir.strip(side)
                                while sd.get('k') == 'MethodCall' and sd['name'] in ('iter', 'into_iter', 'copied', 'cloned'):
                                    sd = hir.strip(sd['recv'])
                                ls = hir.local(sd)
                                if ls and self.env.get(ls[1]) == 'freshcoll':
                                    for _nm, i in hir.bindings(sp):
                                        self.env[i] = 'fresh'


def raw_sites(facts, keys):
    """[(fn key, call node, justification or None, detail)]"""
    out = []
    for key in keys:
        f = facts['fns'][key]
        fr = None
        pm = None
        for c in hir.calls(f['hir']):
            if hir.callee(c) not in RAW:
                continue
            fr = fr or Fresh(f)
            a, b = c['args'][0], c['args'][1]
            if fr.is_fresh(a) or fr.is_fresh(b):
                out.append((key, c, 'fresh', ''))
                continue
            pm = pm or hir.parent_map(f['hir'])
            # dominated by !connected(a, b)
            just = None
            for cond in paths.dominating_conds(c, pm):
                if cond[0] == 'cond' and not cond[2]:
                    e = hir.strip(cond[1])
                    if e.get('k') == 'MethodCall' and e.get('callee') == GL + 'connected':
                        xs = e['args']
                        if (hir.same_expr(xs[0], a) and hir.same_expr(xs[1], b)) or (hir.same_expr(xs[0], b) and hir.same_expr(xs[1], a)):
                            just = 'not-connected'
                if cond[0] == 'nopat':
                    e = hir.strip(cond[2])
                    if e.get('k') == 'MethodCall' and e.get('callee') == GL + 'edge_type_opt' and all((hir.pat_ctor(p) or '').endswith('Some') for p in cond[1]):
                        xs = e['args']
                        if (hir.same_expr(xs[0], a) and hir.same_expr(xs[1], b)) or (hir.same_expr(xs[0], b) and hir.same_expr(xs[1], a)):
                            just = 'not-connected'
            if just:
                out.append((key, c, just, ''))
                continue
            # replaced edge removed right after
            par = pm.get(id(c))
            if _definitely_old(f, a, pm) and _definitely_old(f, b, pm):
                out.append((key, c, None, 'both endpoints pre-exist and no not-connected test dominates the insertion'))
            else:
                out.append((key, c, None, 'UNRECOGNISED: the endpoints were not recognised as fresh vertices, and not as vertices that certainly existed before either'))
    return out


OLD_COLLS = ('neighbors', 'neighbor_vec', 'vertices', 'vertex_vec', 'inputs', 'outputs', 'incident_edges', 'incident_edge_vec', 'edges', 'edge_vec')


def _definitely_old(f, e, pm):
    """the vertex expression certainly denotes a vertex that existed before this function added anything: a parameter, an element of a parameter
    slice, or a variable bound by iterating one of the graph's own vertex / neighbour / edge collections (through plain lets)"""
    lets = hir.let_env(f)
    e = hir.resolve(e, lets)
    e = hir.strip(e) if e is not None else None
    if e is None:
        return False
    params = set(p_['id'] for p_ in f.get('params', []) if p_.get('k') == 'Bind')
    l = hir.local(e)
    if l:
        if l[1] in params:
            return True
        # a loop variable of `for .. in <graph>.neighbors(..)` etc.
        for n in hir.nodes(f['hir']):
            if n.get('k') == 'For' and any(i == l[1] for _n, i in hir.bindings(n['pat'])):
                it = hir.strip(n['iter'])
                while it is not None and it.get('k') == 'MethodCall' and it['name'] in ('iter', 'into_iter', 'copied', 'cloned', 'clone', 'collect', 'enumerate', 'filter'):
                    it = hir.strip(it['recv'])
                if it is not None and it.get('k') == 'MethodCall' and it['name'] in OLD_COLLS:
                    return True
                il = hir.local(it) if it is not None else None
                if il and il[1] in params:
                    return True
        return False
    if e.get('k') == 'Index':
        b = hir.local(hir.strip(e['e']))
        return bool(b and b[1] in params)
    return False


def verdict(just, detail):
    """three-valued: justified -> True; both endpoints certainly old and nothing justifies the insertion -> False; otherwise undecided"""
    if just is not None:
        return True
    return None if (detail or '').startswith('UNRECOGNISED') else False
