"""Evaluation of small total functions over enums on every variant (table extraction).

`eval_fn(facts, key, args)` evaluates the body of a local function whose parameters are enum values
(given as variant paths like 'graph::EType::N'), supporting `==`/`!=` against variant paths, `||`,
`&&`, `!`, if/else, `match` over a parameter (or a tuple of parameters), calls to other local
enum methods, boolean / integer literals, Rational `one()`/`zero()`.  Returns a variant path, bool,
int, Fraction, or raises NotEvaluable.
"""
from fractions import Fraction as Fr

from . import hir


class NotEvaluable(Exception):
    pass


def eval_fn(facts, key, args, depth=0):
    f = facts['fns'][key]
    env = {}
    ps = [p for p in f['params'] if p.get('k') == 'Bind']
    if len(ps) != len(args):
        raise NotEvaluable('arity')
    for p, a in zip(ps, args):
        env[p['id']] = a
    return _ev(facts, f['hir'], env, depth)


def _match_pat(p, val):
    k = p.get('k')
    if k in ('Wild',):
        return True
    if k == 'Bind' and not p.get('sub'):
        return True
    if k == 'Ref':
        return _match_pat(p['sub'], val)
    if k == 'Path':
        return p['res'].get('path') == val
    if k == 'Or':
        return any(_match_pat(s, val) for s in p['sub'])
    if k == 'Tuple' and isinstance(val, tuple):
        return len(p['sub']) == len(val) and all(_match_pat(s, v) for s, v in zip(p['sub'], val))
    if k == 'Lit':
        return hir.lit_int({'k': 'Lit', 'v': p['v']}) == val
    raise NotEvaluable('pattern %s' % hir.pp_pat(p))


def _ev(facts, e, env, depth):
    e = hir.strip(e)
    k = e.get('k')
    v = hir.lit_int(e)
    if v is not None:
        return v
    b = hir.lit_bool(e)
    if b is not None:
        return b
    if k == 'Path':
        l = hir.local(e)
        if l:
            if l[1] in env:
                return env[l[1]]
            raise NotEvaluable('local %s' % l[0])
        return hir.def_path(e)
    if k == 'Block':
        st = hir.stmts_of(e)
        for s in st[:-1]:
            if s.get('k') == 'Let' and s['pat'].get('k') == 'Bind' and s.get('init') is not None:
                env = dict(env)
                env[s['pat']['id']] = _ev(facts, s['init'], env, depth)
            elif s.get('k') == 'If' and hir.stmts_of(s['then']) and hir.strip(hir.stmts_of(s['then'])[-1]).get('k') == 'Ret':
                if _ev(facts, s['cond'], env, depth):
                    return _ev(facts, hir.strip(hir.stmts_of(s['then'])[-1])['e'], env, depth)
            else:
                raise NotEvaluable('statement %s' % hir.pp(s)[:40])
        if not st:
            raise NotEvaluable('empty block')
        return _ev(facts, st[-1], env, depth)
    if k == 'Ret':
        return _ev(facts, e['e'], env, depth)
    if k == 'Tup':
        return tuple(_ev(facts, x, env, depth) for x in e['items'])
    if k == 'Unary' and e['op'] == 'Not':
        return not _ev(facts, e['e'], env, depth)
    if k == 'Binary' and e['op'] in ('And', 'Or'):
        a = _ev(facts, e['l'], env, depth)
        if e['op'] == 'And':
            return a and _ev(facts, e['r'], env, depth)
        return a or _ev(facts, e['r'], env, depth)
    if k == 'Binary' and e['op'] in ('Eq', 'Ne'):
        a, b2 = _ev(facts, e['l'], env, depth), _ev(facts, e['r'], env, depth)
        return (a == b2) if e['op'] == 'Eq' else (a != b2)
    if k == 'If':
        c = _ev(facts, e['cond'], env, depth)
        br = e['then'] if c else e.get('else')
        if br is None:
            raise NotEvaluable('if without else')
        return _ev(facts, br, env, depth)
    if k == 'Match':
        sc = _ev(facts, e['scrut'], env, depth)
        for a in e['arms']:
            if _match_pat(a['pat'], sc):
                if a.get('guard') and not _ev(facts, a['guard'], env, depth):
                    continue
                if hir.diverges(hir.strip(a['body'])) or any('panic' in (hir.callee(c) or '') for c in hir.calls(a['body'])):
                    return 'panic'
                return _ev(facts, a['body'], env, depth)
        raise NotEvaluable('no arm')
    if k in ('Call', 'MethodCall'):
        c = hir.callee(e) or ''
        args = hir.call_args(e)
        if c in facts['fns'] and depth < 4:
            return eval_fn(facts, c, [_ev(facts, a, env, depth) for a in args], depth + 1)
        if c.endswith('One>::one') or c.endswith('::one'):
            return Fr(1)
        if c.endswith('Zero>::zero') or c.endswith('::zero'):
            return Fr(0)
        if (c.endswith('Ratio::<T>::new') or c.endswith('::new')) and len(args) == 2:
            a, b2 = hir.lit_int(args[0]), hir.lit_int(args[1])
            if a is not None and b2:
                return Fr(a, b2)
        if e.get('k') == 'MethodCall' and e['name'] in ('into', 'clone') and not e['args']:
            return _ev(facts, e['recv'], env, depth)
        raise NotEvaluable('call %s' % c)
    raise NotEvaluable('%s' % k)


def table(facts, key, domains):
    """{args tuple: value} over the product of the domains (lists of variant paths)"""
    import itertools
    out = {}
    for args in itertools.product(*domains):
        try:
            out[args] = eval_fn(facts, key, list(args))
        except NotEvaluable as ex:
            out[args] = 'not-evaluable: %s' % ex
    return out
