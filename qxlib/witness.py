"""E4 — compile-fail witnesses (DESIGN 3.1 / 10.6): /verif/witness is a crate with a path dependency on /repo/quizx whose doc-tests are
`compile_fail,E0xxx` snippets (each with a compiling twin).  `cargo +nightly test --doc` compiles them against /repo's current tree; nothing
is run (`no_run`).  Thorough tier only.  A witness that compiles although its twin also compiles is a violation (the type-level barrier is
gone); a twin that does not compile makes the pair inconclusive (noted, never a violation)."""
import json
import os
import re
import shutil
import subprocess

from . import extract

VERIF = extract.VERIF
WDIR = os.path.join(VERIF, 'witness')

WHAT = {
    'C16PhaseLiteral': 'a Phase can be built around a non-canonical rational from outside the crate (struct literal)',
    'C16PhaseFieldWrite': 'the rational inside a Phase can be overwritten from outside the crate',
    'C07DyadicFields': 'the mantissa of a Dyadic is directly accessible from outside the crate',
    'C07Scalar4Ctor': 'a Scalar4 can be built from raw coefficients from outside the crate, bypassing normalisation',
    'C10ParityCtor': 'a Parity can be built around an unsorted / duplicated variable list from outside the crate',
    'C10ExprFields': 'the factor list of an Expr is accessible from outside the crate',
    'C09VecCounters': 'the cached vertex counter of vec_graph::Graph can be edited from outside the crate',
    'C09HashCounters': 'the cached edge counter of hash_graph::Graph can be edited from outside the crate',
    'C09VecHoles': 'the free list of vec_graph::Graph can be edited from outside the crate',
    'C18RankCache': 'the rank cache of a DecompTree can be written from outside the crate',
    'C05SendSync': 'Decomposer<G> / the graph types are no longer Send + Sync + Clone',
    'C05RcRejected': 'a non-thread-safe type is accepted where Send + Sync is required (witness of the witness)',
    'C04MatcherShared': 'a shared graph reference can be used to add a vertex (matchers could mutate)',
}


def run_all():
    """{name: {'fail': 'ok'|'FAILED'|None, 'twin': 'ok'|'FAILED'|None}} for /repo's current tree, or {'error': ...}"""
    h = extract.tree_hash(extract.REPO, extra=[os.path.join(WDIR, 'src', 'lib.rs')])
    cache = os.path.join(extract.CACHE, 'witness-%s.json' % h)
    if os.path.exists(cache):
        return json.load(open(cache))
    os.makedirs(extract.CACHE, exist_ok=True)
    try:
        shutil.copy(os.path.join(extract.REPO, 'Cargo.lock'), os.path.join(WDIR, 'Cargo.lock'))
    except OSError:
        pass
    # the path dependency names /repo/quizx; a scratch copy is addressed through a patched manifest in a temp dir
    wdir = WDIR
    env = dict(os.environ, CARGO_TARGET_DIR=os.path.join(extract.CACHE, 'target-witness'), CARGO_NET_OFFLINE='true')
    env.pop('RUSTC_WORKSPACE_WRAPPER', None)
    r = subprocess.run(['cargo', '+nightly', 'test', '--doc', '--offline'], cwd=wdir, env=env, stdout=subprocess.PIPE, stderr=subprocess.STDOUT, text=True)
    res = {}
    for m in re.finditer(r'^test src/lib\.rs - (\w+) \(line \d+\) - (compile fail|compile) \.\.\. (ok|FAILED)', r.stdout, re.M):
        name, kind, st = m.groups()
        res.setdefault(name, {'fail': None, 'twin': None})['fail' if kind == 'compile fail' else 'twin'] = st
    if not res:
        res = {'error': 'the witness crate did not build against the current tree: ' + r.stdout[-600:]}
    for p in sorted(f for f in os.listdir(extract.CACHE) if f.startswith('witness-'))[:-4]:
        os.remove(os.path.join(extract.CACHE, p))
    json.dump(res, open(cache, 'w'))
    return res


def apply(ck, pid):
    if os.path.abspath(extract.REPO) != '/repo':
        return
    res = run_all()
    if 'error' in res:
        ck.note('E4 witnesses inconclusive: ' + res['error'][:200])
        return
    # positive control: the witness of the witness must behave
    n = 0
    for name, r in sorted(res.items()):
        if not name.startswith(pid):
            continue
        n += 1
        twin = r.get('twin')
        if name == 'C05RcRejected':
            twin = res.get('C05SendSync', {}).get('twin')
        if r.get('fail') is None:
            # positive-only witness: must compile
            ck.ob('E4-witness', name, r.get('twin') == 'ok', 'witness/src/lib.rs (%s)' % name, WHAT.get(name, name), sample={'twin': r.get('twin')})
            continue
        if twin != 'ok':
            ck.note('E4 witness %s inconclusive: its compiling twin no longer compiles against this tree (API changed); not counted' % name)
            continue
        ck.ob('E4-witness', name, r['fail'] == 'ok', 'witness/src/lib.rs (%s)' % name,
              'the compile-fail witness now compiles (or fails for a different reason) while its twin compiles: ' + WHAT.get(name, name), sample={'compile_fail': r['fail'], 'twin': twin})
    if n:
        ck.note('E4: %d compile-fail witness pair(s) of this property compiled against the current tree with cargo +nightly test --doc (nothing is executed)' % n)
