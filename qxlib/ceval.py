"""Partial evaluation of integer expressions on constants (used to read index/sign tables that the
source computes with small constant loops, e.g. `pos = (i + j) % 8; if pos < 4 {..} else {..}`)."""
from . import hir


class NotConst(Exception):
    pass


def ival(e, env):
    """integer (or bool) value of expression e; env: local id -> int"""
    e = hir.strip(e)
    k = e.get('k')
    v = hir.lit_int(e)
    if v is not None:
        return v
    b = hir.lit_bool(e)
    if b is not None:
        return b
    if k == 'Path':
        l = hir.local(e)
        if l and l[1] in env:
            return env[l[1]]
        raise NotConst(hir.pp(e))
    if k == 'Cast':
        return ival(e['e'], env)
    if k == 'Unary' and e['op'] == 'Neg':
        return -ival(e['e'], env)
    if k == 'Unary' and e['op'] == 'Not':
        return not ival(e['e'], env)
    if k == 'Binary':
        op = e['op']
        if op == 'And':
            return bool(ival(e['l'], env)) and bool(ival(e['r'], env))
        if op == 'Or':
            return bool(ival(e['l'], env)) or bool(ival(e['r'], env))
        a, b = ival(e['l'], env), ival(e['r'], env)
        if op == 'Add':
            return a + b
        if op == 'Sub':
            return a - b
        if op == 'Mul':
            return a * b
        if op == 'Div':
            if b == 0:
                raise NotConst('division by zero')
            q = abs(a) // abs(b)
            return q if (a >= 0) == (b >= 0) else -q
        if op == 'Rem':
            if b == 0:
                raise NotConst('division by zero')
            r = abs(a) % abs(b)
            return r if a >= 0 else -r
        if op in ('Eq', 'Ne', 'Lt', 'Le', 'Gt', 'Ge'):
            return {'Eq': a == b, 'Ne': a != b, 'Lt': a < b, 'Le': a <= b, 'Gt': a > b, 'Ge': a >= b}[op]
        if op == 'BitAnd':
            return a & b
        if op == 'BitOr':
            return a | b
        if op == 'BitXor':
            return a ^ b
        if op == 'Shl':
            return a << b
        if op == 'Shr':
            return a >> b
    if k == 'MethodCall' and e['name'] == 'rem_euclid' and len(e['args']) == 1:
        a, b = ival(e['recv'], env), ival(e['args'][0], env)
        return a % abs(b)
    if k == 'MethodCall' and e['name'] in ('abs',) and not e['args']:
        return abs(ival(e['recv'], env))
    if k == 'Block' and len(hir.stmts_of(e)) == 1:
        return ival(hir.stmts_of(e)[0], env)
    if k == 'If':
        c = ival(e['cond'], env)
        br = e['then'] if c else e.get('else')
        if br is None:
            raise NotConst('if without else')
        return ival(br, env)
    raise NotConst(hir.pp(e)[:60])


def run_block(stmts, env, on_stmt):
    """Execute a statement list on constants: lets bind, ifs branch on constant conditions, `for` over constant
    ranges unroll; every other statement is handed to on_stmt(stmt, env)."""
    env = dict(env)
    for s in stmts:
        k = s.get('k')
        if k == 'Let' and s.get('init') is not None and s['pat'].get('k') == 'Bind':
            try:
                env[s['pat']['id']] = ival(s['init'], env)
                continue
            except NotConst:
                on_stmt(s, env)
                continue
        if k == 'If':
            try:
                c = ival(s['cond'], env)
            except NotConst:
                on_stmt(s, env)
                continue
            br = s['then'] if c else s.get('else')
            if br is not None:
                env = run_block(hir.stmts_of(br), env, on_stmt)
            continue
        if k == 'For' and s['pat'].get('k') == 'Bind':
            rb = hir.range_bounds(s['iter'])
            if rb and rb[0] is not None and rb[1] is not None:
                try:
                    lo, hi = ival(rb[0], env), ival(rb[1], env)
                except NotConst:
                    on_stmt(s, env)
                    continue
                for i in range(lo, hi + (1 if rb[2] else 0)):
                    e2 = dict(env)
                    e2[s['pat']['id']] = i
                    run_block(hir.stmts_of(s['body']), e2, on_stmt)
                continue
        if k == 'Block':
            env = run_block(hir.stmts_of(s), env, on_stmt)
            continue
        on_stmt(s, env)
    return env
