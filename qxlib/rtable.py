"""R-TABLE — dispatch tables extracted from `match` expressions over an enum (DESIGN 4.7)."""
from . import hir


def enum_variants(facts, adt):
    a = facts['adts'].get(adt)
    if not a:
        return None
    return [v['name'] for v in a['variants']]


def _pat_variants(p, adt):
    """variant names a pattern covers, or '*' for wildcard/binding; None if not understood"""
    k = p.get('k')
    if k in ('Wild',):
        return '*'
    if k == 'Bind' and not p.get('sub'):
        return '*'
    if k == 'Ref':
        return _pat_variants(p['sub'], adt)
    if k == 'Path':
        path = p['res'].get('path', '')
        if path.rsplit('::', 1)[0] == adt:
            return [path.rsplit('::', 1)[1]]
        return None
    if k in ('TupleStruct', 'Struct'):
        path = p['ctor'].get('path', '')
        if path.rsplit('::', 1)[0] == adt:
            return [path.rsplit('::', 1)[1]]
        return None
    if k == 'Or':
        out = []
        for s in p['sub']:
            v = _pat_variants(s, adt)
            if v is None:
                return None
            if v == '*':
                return '*'
            out += v
        return out
    return None


def is_enum_ty(ty, adt):
    return ty.replace('&mut ', '').replace('&', '').strip() == adt


def enum_matches(f, adt):
    """all `match` nodes in f whose scrutinee has the enum type"""
    out = []
    for n in hir.nodes(f['hir']):
        if n.get('k') == 'Match' and is_enum_ty(hir.strip(n['scrut']).get('ty', '') or n['scrut'].get('ty', ''), adt):
            out.append(n)
        elif n.get('k') == 'Match' and is_enum_ty(n['scrut'].get('ty', ''), adt):
            out.append(n)
    return out


def match_table(m, adt, variants):
    """variant -> arm (first matching arm; guards make an arm partial → recorded as ('guarded', arm))
    Returns (table, problems)."""
    table = {}
    problems = []
    for a in m['arms']:
        vs = _pat_variants(a['pat'], adt)
        if vs is None:
            problems.append('arm pattern not understood: %s' % hir.pp_pat(a['pat']))
            continue
        if vs == '*':
            vs = [v for v in variants if v not in table]
        for v in vs:
            if v not in table:
                table[v] = a
                if a.get('guard'):
                    problems.append('guarded arm for %s' % v)
    for v in variants:
        if v not in table:
            problems.append('variant %s has no arm' % v)
    return table, problems


def str_match_table(m):
    """`match s { "lit" => ..., _ => ... }` → {lit: arm}, default arm"""
    table = {}
    default = None
    for a in m['arms']:
        p = a['pat']
        pats = p['sub'] if p.get('k') == 'Or' else [p]
        for q in pats:
            if q.get('k') == 'Lit':
                import re
                mm = re.match(r'^Str\("(.*)", \w+\)$', q['v'], re.S)
                if mm:
                    table.setdefault(mm.group(1), a)
            elif q.get('k') in ('Wild', 'Bind'):
                default = a
    return table, default


def variant_of(e, adt):
    """enum variant named by a path expression"""
    p = hir.def_path(e)
    if p and p.rsplit('::', 1)[0] == adt:
        return p.rsplit('::', 1)[1]
    return None
