"""Equality / membership facts that dominate a node, extracted from every spelling the code may use: `a == K`, `a != K` (negated), `if let P = a`,
`match a { P => .. }`, `matches!(a, P | Q)`, `let P = a else {..}`, early `continue` / `return` guards (through paths.dominating_conds)."""
from . import hir, paths


def _pat_consts(p):
    """set of constant paths a pattern admits (Path / Or of Paths / Ref), or None if it is not a plain set of constants"""
    k = p.get('k')
    if k == 'Ref':
        return _pat_consts(p['sub'])
    if k == 'Path':
        c = p['res'].get('path')
        return {c} if c else None
    if k == 'Or':
        out = set()
        for s in p['sub']:
            r = _pat_consts(s)
            if r is None:
                return None
            out |= r
        return out
    return None


def membership(node, pm):
    """[(expr, set-of-const-paths, is_member)] known whenever `node` is evaluated"""
    out = []
    for c in paths.dominating_conds(node, pm):
        if c[0] == 'cond':
            e = hir.strip(c[1])
            if e.get('k') == 'Binary' and e['op'] in ('Eq', 'Ne'):
                for a, b in ((e['l'], e['r']), (e['r'], e['l'])):
                    d = hir.def_path(hir.strip(b))
                    if d and hir.strip(b).get('k') == 'Path' and hir.strip(b)['res'].get('k') != 'Local':
                        out.append((hir.strip(a), {d}, (e['op'] == 'Eq') == bool(c[2])))
        elif c[0] == 'pat':
            s = _pat_consts(c[1])
            if s is not None:
                out.append((hir.strip(c[2]), s, True))
        elif c[0] == 'nopat':
            for p in c[1]:
                s = _pat_consts(p)
                if s is not None:
                    out.append((hir.strip(c[2]), s, False))
    return out


def local_callees(facts, f, depth=2, seen=None):
    """bodies of local (crate) functions called from f, transitively to `depth` (for presence rules: a test may live in an extracted helper)"""
    seen = seen if seen is not None else set()
    out = []
    for c in hir.calls(f['hir']):
        k = hir.callee(c)
        if k and k in facts['fns'] and k not in seen and not k.startswith('graph::GraphLike::'):
            seen.add(k)
            g = facts['fns'][k]
            out.append(g)
            if depth > 1:
                out += local_callees(facts, g, depth - 1, seen)
    return out


def provenance(f):
    """local id -> set of names (callee paths / method names / `self.<field>`) its value is computed from, transitively through other locals.
    Bindings of every `let` / `if let` / `match` arm pattern take the provenance of the matched expression.  Name-independent data flow for wiring rules."""
    direct = {}

    def sources(e):
        out = set()
        locs = set()
        for n in hir.nodes(e):
            k = n.get('k')
            if k in ('Call', 'MethodCall'):
                c = hir.callee(n)
                if c:
                    out.add(c)
                if k == 'MethodCall':
                    out.add('.' + n['name'])
            elif k == 'Field':
                b = hir.strip(n['e'])
                if b.get('k') == 'Path' and b['res'].get('k') == 'Local' and b['res'].get('name') == 'self':
                    out.add('self.' + n['name'])
            elif k == 'Path' and n['res'].get('k') == 'Local':
                locs.add(n['res']['id'])
        return out, locs
    for n in hir.nodes(f['hir']):
        k = n.get('k')
        pat = init = None
        if k in ('Let', 'LetCond') and n.get('init') is not None:
            pat, init = n['pat'], n['init']
            for _nm, i in hir.bindings(pat):
                s, l = sources(init)
                d = direct.setdefault(i, [set(), set()])
                d[0] |= s
                d[1] |= l
        elif k == 'Match':
            for a in n['arms']:
                for _nm, i in hir.bindings(a['pat']):
                    s, l = sources(n['scrut'])
                    d = direct.setdefault(i, [set(), set()])
                    d[0] |= s
                    d[1] |= l
        elif k == 'For':
            for _nm, i in hir.bindings(n['pat']):
                s, l = sources(n['iter'])
                d = direct.setdefault(i, [set(), set()])
                d[0] |= s
                d[1] |= l
        elif k == 'Assign' and hir.local(hir.strip(n['l'])):
            i = hir.local(hir.strip(n['l']))[1]
            s, l = sources(n['r'])
            d = direct.setdefault(i, [set(), set()])
            d[0] |= s
            d[1] |= l
    prov = {i: set(d[0]) for i, d in direct.items()}
    changed = True
    while changed:
        changed = False
        for i, d in direct.items():
            for j in d[1]:
                add = prov.get(j, set()) - prov[i]
                if add:
                    prov[i] |= add
                    changed = True

    def of_expr(e):
        s, l = sources(e)
        out = set(s)
        for j in l:
            out |= prov.get(j, set())
        return out
    return prov, of_expr
