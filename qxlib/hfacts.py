"""Equality / membership facts that dominate a node, extracted from every spelling the code may use: `a == K`, `a != K` (negated), `if let P = a`,
`match a { P => .. }`, `matches!(a, P | Q)`, `let P = a else {..}`, early `continue` / `return` guards (through paths.dominating_conds)."""
from . import hir, paths


def _pat_consts(p):
    """set of constant paths a pattern admits (Path / Or of Paths / Ref), or None if it is not a plain set of constants"""
    k = p.get('k')
    if k == 'Ref':
        return _pat_consts(p['sub'])
    if k == 'Path':
        c = p['res'].get('path')
        return {c} if c else None
    if k == 'Or':
        out = set()
        for s in p['sub']:
            r = _pat_consts(s)
            if r is None:
                return None
            out |= r
        return out
    return None


def membership(node, pm):
    """[(expr, set-of-const-paths, is_member)] known whenever `node` is evaluated"""
    out = []
    for c in paths.dominating_conds(node, pm):
        if c[0] == 'cond':
            e = hir.strip(c[1])
            if e.get('k') == 'Binary' and e['op'] in ('Eq', 'Ne'):
                for a, b in ((e['l'], e['r']), (e['r'], e['l'])):
                    d = hir.def_path(hir.strip(b))
                    if d and hir.strip(b).get('k') == 'Path' and hir.strip(b)['res'].get('k') != 'Local':
                        out.append((hir.strip(a), {d}, (e['op'] == 'Eq') == bool(c[2])))
        elif c[0] == 'pat':
            s = _pat_consts(c[1])
            if s is not None:
                out.append((hir.strip(c[2]), s, True))
        elif c[0] == 'nopat':
            for p in c[1]:
                s = _pat_consts(p)
                if s is not None:
                    out.append((hir.strip(c[2]), s, False))
    return out


def local_callees(facts, f, depth=2, seen=None):
    """bodies of local (crate) functions called from f, transitively to `depth` (for presence rules: a test may live in an extracted helper)"""
    seen = seen if seen is not None else set()
    out = []
    for c in hir.calls(f['hir']):
        k = hir.callee(c)
        if k and k in facts['fns'] and k not in seen and not k.startswith('graph::GraphLike::'):
            seen.add(k)
            g = facts['fns'][k]
            out.append(g)
            if depth > 1:
                out += local_callees(facts, g, depth - 1, seen)
    return out


def provenance(f):
    """local id -> set of names (callee paths / method names / `self.<field>`) its value is computed from, transitively through other locals.
    Bindings of every `let` / `if let` / `match` arm pattern take the provenance of the matched expression.  Name-independent data flow for wiring rules."""
    direct = {}

    def sources(e):
        out = set()
        locs = set()
        for n in hir.nodes(e):
            k = n.get('k')
            if k in ('Call', 'MethodCall'):
                c = hir.callee(n)
                if c:
                    out.add(c)
                if k == 'MethodCall':
                    out.add('.' + n['name'])
            elif k == 'Field':
                b = hir.strip(n['e'])
                if b.get('k') == 'Path' and b['res'].get('k') == 'Local' and b['res'].get('name') == 'self':
                    out.add('self.' + n['name'])
            elif k == 'Path' and n['res'].get('k') == 'Local':
                locs.add(n['res']['id'])
        return out, locs
    for n in hir.nodes(f['hir']):
        k = n.get('k')
        pat = init = None
        if k in ('Let', 'LetCond') and n.get('init') is not None:
            pat, init = n['pat'], n['init']
            for _nm, i in hir.bindings(pat):
                s, l = sources(init)
                d = direct.setdefault(i, [set(), set()])
                d[0] |= s
                d[1] |= l
        elif k == 'Match':
            for a in n['arms']:
                for _nm, i in hir.bindings(a['pat']):
                    s, l = sources(n['scrut'])
                    d = direct.setdefault(i, [set(), set()])
                    d[0] |= s
                    d[1] |= l
        elif k == 'For':
            for _nm, i in hir.bindings(n['pat']):
                s, l = sources(n['iter'])
                d = direct.setdefault(i, [set(), set()])
                d[0] |= s
                d[1] |= l
        elif k == 'Assign' and hir.local(hir.strip(n['l'])):
            i = hir.local(hir.strip(n['l']))[1]
            s, l = sources(n['r'])
            d = direct.setdefault(i, [set(), set()])
            d[0] |= s
            d[1] |= l
    prov = {i: set(d[0]) for i, d in direct.items()}
    changed = True
    while changed:
        changed = False
        for i, d in direct.items():
            for j in d[1]:
                add = prov.get(j, set()) - prov[i]
                if add:
                    prov[i] |= add
                    changed = True

    def of_expr(e):
        s, l = sources(e)
        out = set(s)
        for j in l:
            out |= prov.get(j, set())
        return out
    return prov, of_expr


# ---------------------------------------------------------------- canonical access paths

class APaths:
    """Name-independent description of where a value comes from: `self.node_vertices[*].1.data.typ`, `Coord{x: .., y: ..}.qubit()`,
    `param#1.inputs().iter().position(..)`.  Immutable `let` locals are replaced by their initialisers, loop variables by an element of the
    iterated collection (`[*]`, tuple patterns by `.0` / `.1`, `.values()` / `.keys()` by the map's `.1` / `.0`), closures called without
    arguments by their bodies, parameters by their position.  Anything else keeps its printed form prefixed with `?` (not canonical)."""

    def __init__(self, f):
        self.f = f
        self.lets = {}
        self.bind = {}      # local id -> canonical text
        ps = [p for p in f['params']]
        for i, p in enumerate(ps):
            if p.get('k') == 'Bind':
                self.bind[p['id']] = 'self' if p['name'] == 'self' else 'param#%d' % i
        for n in hir.nodes(f['hir']):
            k = n.get('k')
            if k == 'Let' and n.get('init') is not None and not n.get('els'):
                self._bind_pat(n['pat'], ('expr', n['init']), mutable_ok=False)
            elif k == 'For':
                self._bind_pat(n['pat'], ('elem', n['iter']), mutable_ok=True)
            elif k == 'LetCond' and n.get('init') is not None:
                self._bind_pat(n['pat'], ('expr', n['init']), mutable_ok=True)
            elif k == 'Match':
                for a in n['arms']:
                    self._bind_pat(a['pat'], ('expr', n['scrut']), mutable_ok=True)
        self.var_ord = {}

    def _bind_pat(self, pat, src, suffix='', mutable_ok=False):
        k = pat.get('k')
        if k == 'Ref':
            return self._bind_pat(pat['sub'], src, suffix, mutable_ok)
        if k == 'Bind' and not pat.get('sub'):
            if not mutable_ok and (pat.get('mode') or '') != 'BindingMode(No, Not)':
                return
            self.lets[pat['id']] = (src, suffix)
        elif k == 'Tuple':
            for i, sp in enumerate(pat['sub']):
                self._bind_pat(sp, src, suffix + '.%d' % i, mutable_ok)
        elif k == 'TupleStruct' and len(pat['sub']) == 1 and (hir.pat_ctor(pat) or '').rsplit('::', 1)[-1] in ('Some', 'Ok'):
            self._bind_pat(pat['sub'][0], src, suffix + '.' + (hir.pat_ctor(pat) or '').rsplit('::', 1)[-1].lower(), True)

    def _elem(self, it):
        """canonical text of an element of the iterated expression"""
        e = hir.strip(it)
        suffix = ''
        while e.get('k') == 'MethodCall' and e['name'] in ('iter', 'into_iter', 'iter_mut', 'values', 'keys', 'into_values', 'into_keys', 'values_mut', 'copied', 'cloned', 'by_ref'):
            if e['name'] in ('values', 'into_values', 'values_mut'):
                suffix = '.1' + suffix
            if e['name'] in ('keys', 'into_keys'):
                suffix = '.0' + suffix
            e = hir.strip(e['recv'])
        return self.of(e) + '[*]' + suffix

    def of(self, e, depth=0):
        e = hir.strip(e)
        if depth > 12:
            return '?deep'
        k = e.get('k')
        l = hir.local(e)
        if l:
            i = l[1]
            if i in self.bind:
                return self.bind[i]
            if i in self.lets:
                (kind, src), suffix = self.lets[i]
                base = self.of(src, depth + 1) if kind == 'expr' else self._elem(src)
                if suffix and kind == 'expr':
                    s0 = hir.strip(src)
                    if s0.get('k') == 'Tup':
                        parts = suffix.strip('.').split('.')
                        cur, used = s0, 0
                        for x in parts:
                            if x.isdigit() and cur.get('k') == 'Tup' and int(x) < len(cur['items']):
                                cur = hir.strip(cur['items'][int(x)])
                                used += 1
                            else:
                                break
                        if used:
                            return self.of(cur, depth + 1) + ''.join('.' + x for x in parts[used:])
                return base + suffix
            ty = (e.get('ty') or '').replace('&', '').replace('mut ', '').strip()
            if ty:
                n_ = self.var_ord.setdefault(i, len(self.var_ord))
                return 'var<%s>#%d' % (ty, n_)
            return '?local:' + l[0]
        if k == 'Field':
            return self.of(e['e'], depth + 1) + '.' + e['name']
        if k == 'MethodCall':
            if e['name'] in ('clone', 'to_owned', 'as_str', 'as_ref', 'borrow', 'to_string', 'copied', 'cloned', 'into') and not e['args']:
                return self.of(e['recv'], depth + 1)
            return '%s.%s(%s)' % (self.of(e['recv'], depth + 1), e['name'], ', '.join(self.of(a, depth + 1) for a in e['args']))
        if k == 'Call':
            fn = hir.strip(e['fun'])
            fl = hir.local(fn)
            if fl and fl[1] in self.lets and not e['args']:
                (kind, src), _sfx = self.lets[fl[1]]
                c = hir.strip(src) if kind == 'expr' else {}
                if c.get('k') == 'Closure' and not c['params']:
                    return self.of(c['body'], depth + 1)
            a = hir.ctor_call(e, 'Some')
            if a is not None:
                return 'Some(%s)' % self.of(a[0], depth + 1)
            return '%s(%s)' % (hir.short(hir.callee(e) or '') if hir.callee(e) else '?fn', ', '.join(self.of(a, depth + 1) for a in e['args']))
        if k == 'Struct':
            return '%s{%s}' % (hir.short(e['ctor'].get('path')), ', '.join('%s: %s' % (n, self.of(v, depth + 1)) for n, v in sorted(e['fields'], key=lambda z: z[0])))
        if k == 'Index':
            return '%s[%s]' % (self.of(e['e'], depth + 1), self.of(e['i'], depth + 1))
        if k == 'Tup':
            return '(%s)' % ', '.join(self.of(x, depth + 1) for x in e['items'])
        if k == 'Path':
            return hir.short(hir.def_path(e) or '') if hir.def_path(e) else '?path'
        if k == 'Lit':
            return hir.pp(e)
        if k == 'Cast':
            if (e.get('ty') or '') in ('f32', 'f64'):
                return 'as_%s(%s)' % (e['ty'], self.of(e['e'], depth + 1))
            return self.of(e['e'], depth + 1)
        if k == 'Binary':
            return '(%s %s %s)' % (self.of(e['l'], depth + 1), hir.BINOP.get(e['op'], e['op']), self.of(e['r'], depth + 1))
        if k == 'Unary':
            return '%s%s' % ({'Not': '!', 'Neg': '-'}.get(e['op'], ''), self.of(e['e'], depth + 1))
        if k == 'Block' and not e['stmts'] and e.get('expr') is not None:
            return self.of(e['expr'], depth + 1)
        if k == 'Match' and len(e['arms']) <= 6 and depth < 6:
            return 'match(%s){%s}' % (self.of(e['scrut'], depth + 1), '; '.join('%s => %s' % (hir.pp_pat(a['pat']), self.of(a['body'], depth + 2)) for a in e['arms']))
        if k == 'Try':
            return self.of(e['e'], depth + 1) + '?'
        return '?' + hir.pp(e)[:40]
