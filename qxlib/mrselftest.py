"""Self-test of the source-level interpreter: every closed function tNNN of fixtures/posctl/src/mrtest.rs is interpreted from the fixture
crate's facts and its result, printed like Rust's `{:?}`, is compared with the string recorded from a native run (fixtures/mrtest_expected.json).
Used as a positive control by the checks that rely on evaluation, and by `bin/mrselftest` during development."""
import json
import os

from . import minirust

HERE = os.path.dirname(os.path.dirname(os.path.abspath(__file__)))


def debug_fmt(v, facts, ty=None):
    if isinstance(v, minirust.Cell):
        v = v.get()
    if isinstance(v, bool):
        return 'true' if v else 'false'
    if isinstance(v, int):
        return str(v)
    if isinstance(v, float):
        if v != v:
            return 'NaN'
        if v in (float('inf'), float('-inf')):
            return 'inf' if v > 0 else '-inf'
        r = repr(v)
        if 'e' in r:
            raise minirust.NoEval('cannot print %r the way Rust does' % (v,))
        return r
    if isinstance(v, str):
        return '"%s"' % v.replace('\\', '\\\\').replace('"', '\\"')
    if v == minirust.NONE:
        return 'None'
    if isinstance(v, tuple) and len(v) == 2 and v[0] == 'Some':
        return 'Some(%s)' % debug_fmt(v[1], facts)
    if isinstance(v, tuple) and len(v) == 2 and v[0] == 'const':
        return str(v[1]).rsplit('::', 1)[-1]
    if isinstance(v, tuple) and len(v) == 3 and v[0] == 'ctor':
        return '%s(%s)' % (str(v[1]).rsplit('::', 1)[-1], ', '.join(debug_fmt(x, facts) for x in v[2]))
    if isinstance(v, tuple):
        return '(%s%s)' % (', '.join(debug_fmt(x, facts) for x in v), ',' if len(v) == 1 else '')
    if isinstance(v, list):
        return '[%s]' % ', '.join(debug_fmt(x, facts) for x in v)
    if isinstance(v, dict) and '__struct__' in v:
        name = v['__struct__']
        adt = facts.get('adts', {}).get(name)
        order = [f[0] for f in adt['variants'][0]['fields']] if adt else [k for k in v if k != '__struct__']
        return '%s { %s }' % (name.rsplit('::', 1)[-1], ', '.join('%s: %s' % (k, debug_fmt(v[k], facts)) for k in order))
    raise minirust.NoEval('cannot print %r' % (v,))


def run(facts):
    """-> (passed, failed [(name, got, want)], declined [(name, why)])"""
    exp = json.load(open(os.path.join(HERE, 'fixtures', 'mrtest_expected.json')))
    ok, bad, declined = [], [], []
    for name, want in sorted(exp.items()):
        key = 'mrtest::' + name
        if key not in facts['fns']:
            declined.append((name, 'not in the fixture facts'))
            continue
        it = minirust.Interp(fuel=50000, facts=facts, inline=lambda c: 'mrtest' in c)
        it.copy_types = {'mrtest::P', 'mrtest::Col'}
        try:
            got = debug_fmt(it.local_call(key, []), facts)
        except (minirust.NoEval, minirust.Proceed) as ex:
            declined.append((name, '%s: %s' % (type(ex).__name__, ex)))
            continue
        except Exception as ex:            # an internal error of the interpreter is a failure of the self-test
            bad.append((name, 'internal error %s: %s' % (type(ex).__name__, ex), want))
            continue
        (ok if got == want else bad).append((name, got, want) if got != want else name)
    return ok, bad, declined
