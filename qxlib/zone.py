"""E3b — zone domain (difference-bound matrices over integers) with path-sensitive exploration of
straight-line / if-else code, used for the "draw k distinct indices below n" idiom (C19-D3, C18-D3).

Variables: tracked locals, the symbol N (the exclusive upper bound expression of the first range),
and ZERO.  Constraints x - y <= c.  Supported statements:
  let [mut] x = <rng>.random_range(lo..hi)      lo, hi affine in N (N, N-1, N-2, literals)
  if x >= y { .. } else { .. }   (and <, >, <=, ==, !=) on tracked locals / literals
  x += k; x -= k
  mem::swap(&mut x, &mut y)
Anything else that writes a tracked variable forgets it.
"""
from . import hir

INF = float('inf')


class DBM:
    def __init__(self, vars_):
        self.v = list(vars_)
        n = len(self.v)
        self.m = [[0 if i == j else INF for j in range(n)] for i in range(n)]
        self.bottom = False

    def copy(self):
        d = DBM(self.v)
        d.m = [r[:] for r in self.m]
        d.bottom = self.bottom
        return d

    def idx(self, x):
        if x not in self.v:
            self.v.append(x)
            for r in self.m:
                r.append(INF)
            self.m.append([INF] * len(self.v))
            self.m[-1][-1] = 0
        return self.v.index(x)

    def add(self, x, y, c):
        """x - y <= c"""
        i, j = self.idx(x), self.idx(y)
        if c < self.m[i][j]:
            self.m[i][j] = c
            self.close()

    def close(self):
        n = len(self.v)
        m = self.m
        for k in range(n):
            for i in range(n):
                if m[i][k] == INF:
                    continue
                for j in range(n):
                    if m[i][k] + m[k][j] < m[i][j]:
                        m[i][j] = m[i][k] + m[k][j]
        for i in range(n):
            if m[i][i] < 0:
                self.bottom = True

    def forget(self, x):
        i = self.idx(x)
        for j in range(len(self.v)):
            if j != i:
                self.m[i][j] = INF
                self.m[j][i] = INF

    def shift(self, x, k):
        """x := x + k"""
        i = self.idx(x)
        for j in range(len(self.v)):
            if j != i:
                self.m[i][j] += k
                self.m[j][i] -= k

    def swap(self, x, y):
        i, j = self.idx(x), self.idx(y)
        self.v[i], self.v[j] = self.v[j], self.v[i]

    def le(self, x, y, c):
        """entails x - y <= c ?"""
        return self.bottom or self.m[self.idx(x)][self.idx(y)] <= c

    def distinct(self, x, y):
        return self.le(x, y, -1) or self.le(y, x, -1)


class Explorer:
    """`is_site(node)` marks obligation sites; at each site on each feasible path `on_site(node, dbm, env)` is called."""

    def __init__(self, is_site, on_site, bound_expr_eq=None):
        self.is_site = is_site
        self.on_site = on_site
        self.N = None          # the expression that plays the symbol N
        self.paths = 0

    def _aff(self, e, env):
        """expression as (var or None, const): value = var + const, var in tracked ids / 'N' / None(=0)"""
        e = hir.strip(e)
        v = hir.lit_int(e)
        if v is not None:
            return (None, v)
        l = hir.local(e)
        if l and l[1] in env:
            return (l[1], 0)
        if self.N is not None and hir.same_expr(e, self.N):
            return ('N', 0)
        if e.get('k') == 'Binary' and e['op'] in ('Add', 'Sub'):
            a = self._aff(e['l'], env)
            b = hir.lit_int(e['r'])
            if a is not None and b is not None:
                return (a[0], a[1] + (b if e['op'] == 'Add' else -b))
        if e.get('k') == 'Cast':
            return self._aff(e['e'], env)
        return None

    def _range_draw(self, e):
        """`R.random_range(lo..hi)` → (lo, hi, inclusive) exprs"""
        e = hir.strip(e)
        if e.get('k') == 'MethodCall' and e['name'] in ('random_range', 'gen_range') and len(e['args']) == 1:
            return hir.range_bounds(e['args'][0])
        return None

    def _cond(self, e, d, env, pol):
        """constrain d by condition e taken with polarity pol; returns False if the condition is not about tracked vars"""
        e = hir.strip(e)
        if e.get('k') != 'Binary' or e['op'] not in ('Lt', 'Le', 'Gt', 'Ge', 'Eq', 'Ne'):
            return False
        a, b = self._aff(e['l'], env), self._aff(e['r'], env)
        if a is None or b is None:
            return False
        if a[0] not in env and b[0] not in env:
            return False
        op = e['op']
        if not pol:
            op = {'Lt': 'Ge', 'Le': 'Gt', 'Gt': 'Le', 'Ge': 'Lt', 'Eq': 'Ne', 'Ne': 'Eq'}[op]
        x, cx = (a[0] if a[0] is not None else 'ZERO'), a[1]
        y, cy = (b[0] if b[0] is not None else 'ZERO'), b[1]
        # x + cx op y + cy
        if op == 'Lt':
            d.add(x, y, cy - cx - 1)
        elif op == 'Le':
            d.add(x, y, cy - cx)
        elif op == 'Gt':
            d.add(y, x, cx - cy - 1)
        elif op == 'Ge':
            d.add(y, x, cx - cy)
        elif op == 'Eq':
            d.add(x, y, cy - cx)
            d.add(y, x, cx - cy)
        return True

    def run(self, stmts, d=None, env=None):
        d = d or DBM(['ZERO', 'N'])
        env = env if env is not None else {}
        self._seq(list(stmts), d, dict(env))

    def _seq(self, stmts, d, env):
        if d.bottom:
            return
        self.paths += 1
        if self.paths > 5000:
            raise RuntimeError('too many paths')
        if not stmts:
            return
        s = stmts[0]
        rest = stmts[1:]
        k = s.get('k')
        if k == 'Let' and s.get('init') is not None and s['pat'].get('k') == 'Bind':
            rb = self._range_draw(s['init'])
            vid = s['pat']['id']
            if rb and rb[0] is not None and rb[1] is not None:
                lo, hi, incl = rb
                if self.N is None:
                    # the first range's upper bound (without a literal offset) becomes the symbol N
                    h = hir.strip(hi)
                    if h.get('k') == 'Binary' and h['op'] in ('Add', 'Sub') and hir.lit_int(h['r']) is not None:
                        h = hir.strip(h['l'])
                    if hir.lit_int(h) is None:
                        self.N = h
                env[vid] = s['pat']['name']
                d = d.copy()
                d.forget(vid)
                a, b = self._aff(lo, env), self._aff(hi, env)
                if a is not None and a[0] in (None, 'N'):
                    d.add(a[0] or 'ZERO', vid, -a[1])          # lo <= x
                if b is not None and b[0] in (None, 'N'):
                    d.add(vid, b[0] or 'ZERO', b[1] - (0 if incl else 1))   # x <= hi - 1
                return self._seq(rest, d, env)
            else:
                a = self._aff(s['init'], env)
                if a is not None and (a[0] in env):
                    env[vid] = s['pat']['name']
                    d = d.copy()
                    d.forget(vid)
                    d.add(vid, a[0], a[1])
                    d.add(a[0], vid, -a[1])
                    return self._seq(rest, d, env)
            self._sites(s, d, env)
            return self._seq(rest, d, env)
        if k == 'If':
            c = s['cond']
            dt, df = d.copy(), d.copy()
            about = self._cond(c, dt, env, True)
            self._cond(c, df, env, False)
            if not about:
                dt, df = d.copy(), d.copy()
            tb = hir.stmts_of(s['then'])
            eb = hir.stmts_of(s['else']) if s.get('else') else []
            self._seq(tb + ([] if _exits(tb) else rest), dt, dict(env))
            self._seq(eb + ([] if _exits(eb) else rest), df, dict(env))
            return
        if k == 'AssignOp' and s['op'] in ('AddAssign', 'SubAssign'):
            l = hir.local(s['l'])
            v = hir.lit_int(s['r'])
            if l and l[1] in env:
                d = d.copy()
                if v is not None:
                    d.shift(l[1], v if s['op'] == 'AddAssign' else -v)
                else:
                    d.forget(l[1])
                return self._seq(rest, d, env)
        if k == 'Assign':
            l = hir.local(s['l'])
            if l and l[1] in env:
                d = d.copy()
                d.forget(l[1])
                a = self._aff(s['r'], env)
                if a is not None and a[0] in env:
                    d.add(l[1], a[0], a[1])
                    d.add(a[0], l[1], -a[1])
                return self._seq(rest, d, env)
        if k == 'Call' and (hir.callee(s) or '').endswith('mem::swap') and len(s['args']) == 2:
            a, b = hir.local(s['args'][0]), hir.local(s['args'][1])
            if a and b and a[1] in env and b[1] in env:
                d = d.copy()
                d.swap(a[1], b[1])
                return self._seq(rest, d, env)
        if k in ('Block',):
            return self._seq(hir.stmts_of(s) + rest, d, env)
        if k in ('For', 'While', 'Loop'):
            # tracked variables written in the loop are forgotten; the body is explored with that state
            d2 = d.copy()
            for _kind, pl, _n in hir.mutations(s['body']):
                p = hir.place(pl)
                if p and p[0] in env:
                    d2.forget(p[0])
            self._seq(hir.stmts_of(s['body']), d2.copy(), dict(env))
            return self._seq(rest, d2, env)
        if k in ('Ret', 'Continue', 'Break'):
            self._sites(s, d, env)
            return
        # other statement: forget tracked variables it mutates, visit sites in it
        d2 = None
        for _kind, pl, _n in hir.mutations(s):
            p = hir.place(pl)
            if p and p[0] in env:
                d2 = d2 or d.copy()
                d2.forget(p[0])
        self._sites(s, d, env)
        return self._seq(rest, d2 or d, env)

    def _sites(self, s, d, env):
        for n in hir.nodes(s, into_closures=False):
            if self.is_site(n):
                self.on_site(n, d, env)


def _exits(stmts):
    return bool(stmts) and hir.strip(stmts[-1]).get('k') in ('Ret', 'Continue', 'Break')
