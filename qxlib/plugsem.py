"""Sequential composition as a linear map (C11, round 3): `GraphLike::plug`, `plug_inputs` / `plug_outputs` and `to_adjoint` interpreted on both back
ends (zxsem's interpreter: graph.rs, the back ends, phase.rs interpreted; Scalar4 a host) for small diagrams whose seams produce PARALLEL EDGES and
mixed colours — the cases the structural reference of graphfn leaves to the smart-insertion rule — and compared as linear maps with the brute-force
contraction of zxsem: [[plug(g1, g2)]] = [[g2]] o [[g1]], scalar included."""
import itertools
from fractions import Fraction as Fr

from . import minirust, zxsem
from .zxsem import D, Q0, VEC, HASH


def compose(t1, n_mid, t2):
    """{(i.., m..): a} then {(m.., o..): b} -> {(i.., o..): sum_m a*b}"""
    out = {}
    by_mid = {}
    for k, b in t2.items():
        by_mid.setdefault(k[:n_mid], []).append((k[n_mid:], b))
    for k, a in t1.items():
        i, m = k[:len(k) - n_mid], k[len(k) - n_mid:]
        for o, b in by_mid.get(m, ()):
            out[i + o] = out.get(i + o, Q0) + a * b
    return dict((k, v) for k, v in out.items() if not v.is_zero())


def family_seams():
    """(g1, g2): g1 ends in `k` outputs, g2 starts with `k` inputs.  One spider on each side of the seam with k = 2 wires between them: both colours, two
    phases, every combination of boundary edge types — every seam merges into a pair of parallel edges between the two spiders (fused, cancelled or
    turned into a phase by add_edge_smart, depending on colours and types); k = 1 and bare wires for the plain cases; two spiders on one side."""
    def one(side, ct, cp, ets, extra):
        v = {'s': (ct, cp, ())}
        e = {}
        seam = []
        for j, t in enumerate(ets):
            v['m%d' % j] = ('B', 0, ())
            e[('s', 'm%d' % j)] = t
            seam.append('m%d' % j)
        other = []
        for j, t in enumerate(extra):
            v['x%d' % j] = ('B', 0, ())
            e[('s', 'x%d' % j)] = t
            other.append('x%d' % j)
        return D(v, e, other, seam) if side == 'left' else D(v, e, seam, other)
    for k in (2, 1, 3):
        for ct1, ct2 in itertools.product('ZX', repeat=2):
            for cp1, cp2 in ((0, 0), (Fr(1, 4), Fr(1, 2)), (1, Fr(1, 4))):
                for e1 in itertools.product('NH', repeat=k):
                    for e2 in itertools.product('NH', repeat=k):
                        if k == 3 and (e1.count('H') + e2.count('H')) % 2 == 0 and (ct1, cp1) != ('Z', 0):
                            continue
                        yield one('left', ct1, cp1, e1, ('N',)), one('right', ct2, cp2, e2, ('H',) if cp2 else ('N',))
    # bare wires and a swap on one side
    w2 = D({'a': ('B', 0, ()), 'b': ('B', 0, ()), 'c': ('B', 0, ()), 'd': ('B', 0, ())}, {('a', 'c'): 'N', ('b', 'd'): 'H'}, ['a', 'b'], ['c', 'd'])
    sw = D({'a': ('B', 0, ()), 'b': ('B', 0, ()), 'c': ('B', 0, ()), 'd': ('B', 0, ())}, {('a', 'd'): 'N', ('b', 'c'): 'N'}, ['a', 'b'], ['c', 'd'])
    sp = D({'s': ('Z', Fr(1, 4), ()), 't': ('X', Fr(1, 2), ()), 'i': ('B', 0, ()), 'm0': ('B', 0, ()), 'm1': ('B', 0, ())},
           {('i', 's'): 'N', ('s', 't'): 'H', ('s', 'm0'): 'H', ('t', 'm1'): 'N'}, ['i'], ['m0', 'm1'], scalar=zxsem.SQRT2)
    ef = D({'s': ('X', 1, ()), 'm0': ('B', 0, ()), 'm1': ('B', 0, ()), 'o': ('B', 0, ())}, {('s', 'm0'): 'N', ('s', 'm1'): 'H', ('s', 'o'): 'N'}, ['m0', 'm1'], ['o'])
    for a, b in ((w2, sw), (sw, w2), (sp, w2), (sp, sw), (sp, ef), (w2, ef), (sw, ef), (sw, sw)):
        yield a, b


def run(facts, backends=(VEC, HASH), every=1):
    """-> (cases, findings [(method, what)])"""
    bad, n = [], 0
    for ty in backends:
        tag = ty.split('::')[0]
        for idx, (g1, g2) in enumerate(family_seams()):
            if idx % every:
                continue
            k = len(g1.outputs)
            t1, t2 = zxsem.tensor(g1, {}), zxsem.tensor(g2, {})
            want = compose(t1, k, t2)
            be1, _m1 = zxsem.build(facts, ty, g1)
            be2, _m2 = zxsem.build(facts, ty, g2)
            g2_before = zxsem.state_key(be2)
            n += 1
            try:
                be1.call('plug', be2.g)
                got = zxsem.read(be1)
            except minirust.Panics as ex:
                bad.append(('plug', 'plugging %s into the outputs of %s (%s back end) panics: %s' % (g2.show(), g1.show(), tag, ex)))
                continue
            if zxsem.state_key(be2) != g2_before:
                bad.append(('plug', 'plugging %s into %s (%s back end) modifies its borrowed argument' % (g2.show(), g1.show(), tag)))
            if len(got.inputs) != len(g1.inputs) or len(got.outputs) != len(g2.outputs):
                bad.append(('plug', 'plugging %s into the outputs of %s (%s back end) leaves %d inputs and %d outputs' % (g2.show(), g1.show(), tag, len(got.inputs), len(got.outputs))))
                continue
            tg = zxsem.tensor(got, {})
            if tg != want:
                bad.append(('plug', 'plugging %s into the outputs of %s (%s back end) gives %s (scalar %s), which denotes %s; the composition of the two maps is %s'
                            % (g2.show(), g1.show(), tag, got.show(), got.scalar.c, zxsem._showt(tg), zxsem._showt(want))))
    return n, bad
