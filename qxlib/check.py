"""Check context: obligations, violations, known findings, floors, evidence."""
import json
import os
import time

from . import extract

VERIF = extract.VERIF


class AnchorMissing(Exception):
    pass


class _Undecided:
    def __repr__(self):
        return 'UNDECIDED'

    def __bool__(self):
        return False


UNDECIDED = _Undecided()


class Check:
    def __init__(self, pid, tier, seed, facts):
        self.pid = pid
        self.tier = tier
        self.seed = seed
        self.facts = facts
        self.fns = facts['fns']
        self.t0 = time.time()
        self.obligations = 0
        self.discharged = 0
        self.violations = []      # dicts: key, rule, site, msg
        self.samples = []
        self.notes = []
        self.rules = {}           # rule -> [n_obligations, n_ok]
        self.functions = set()
        self.exceptions = []      # (key, reason)
        self.controls = []        # (name, fired)
        self.floors = []          # (rule, counted, floor)
        self.clauses_decided = []
        self.clauses_not_decided = []
        self.errors = []
        self.liveness = None
        self.undecided = []       # dicts: key, rule, site, msg — clauses that could not be decided on this code shape (never a violation)

    # ---- anchors
    def fn(self, key):
        f = self.fns.get(key)
        if f is None:
            raise AnchorMissing(key)
        self.functions.add(key)
        return f

    def has_fn(self, key):
        return key in self.fns

    def _new_helpers_at(self, site):
        """functions that are not in refs/baseline_fns.json and are called (directly or through one more call) by the function a site names"""
        import re as _re
        m = _re.search(r'\(([^()]*(?:\([^()]*\)[^()]*)*)\)\s*$', site or '')
        if not m:
            return set()
        key = m.group(1)
        if not hasattr(self, '_newfn'):
            try:
                import json as _json
                base = set(_json.load(open(os.path.join(os.path.dirname(os.path.dirname(os.path.abspath(__file__))), 'refs', 'baseline_fns.json')))['fns'])
            except Exception:
                base = None
            self._newfn = set(k for k, f in self.fns.items() if base is not None and k not in base and not f.get('macro'))
            self._nh_cache = {}
        if not self._newfn or key not in self.fns:
            return set()
        if key not in self._nh_cache:
            from . import hir as _hir
            out = set([key]) & self._newfn
            level = [key]
            for _d in range(2):
                nxt = []
                for k in level:
                    f = self.fns.get(k)
                    if not f:
                        continue
                    for c in _hir.calls(f['hir']):
                        cal = _hir.callee(c) or ''
                        if cal in self._newfn:
                            out.add(cal)
                        if cal in self.fns and cal not in nxt:
                            nxt.append(cal)
                level = nxt
            self._nh_cache[key] = out
        return self._nh_cache[key]

    def site(self, fnkey, node=None):
        f = self.fns.get(fnkey)
        if f is None:
            return fnkey
        line = f['line']
        if node is not None and isinstance(node, dict) and node.get('sp'):
            sp = node['sp']
            line = sp[2] if sp[3] else sp[0]
        return '%s:%s (%s)' % (f['file'], line, fnkey)

    # ---- obligations
    def ob(self, rule, key, ok, site='', msg='', sample=None):
        """One obligation of `rule` identified by `key` (no line numbers in keys).
        ok truthy: discharged; falsy (False, None, empty): REFUTED (a definite violation: the rule understood the code and found the fact missing / contradicted);
        the sentinel UNDECIDED (use ob3 for three-valued results): the code is not in a shape the rule understands — reported, never a violation."""
        self.obligations += 1
        r = self.rules.setdefault(rule, [0, 0])
        r[0] += 1
        if ok is UNDECIDED:
            self.undecided.append({'key': '%s/%s' % (rule, key), 'rule': rule, 'site': site, 'msg': msg})
            return None
        if not ok and rule in getattr(self, 'positive_only', {}):
            # the behaviour this shape rule stands for was decided by an exhaustive evaluation in this run: a shape mismatch is not a refutation
            self.undecided.append({'key': '%s/%s' % (rule, key), 'rule': rule, 'site': site,
                                   'msg': '%s [shape not recognised by this rule; %s]' % (msg, self.positive_only[rule])})
            return None
        if not ok and not rule.startswith(('E3', 'E4')):
            nh = self._new_helpers_at(site)
            if nh:
                # a helper introduced after the rules were written stands between the rule and the code it reads: not a refutation
                self.undecided.append({'key': '%s/%s' % (rule, key), 'rule': rule, 'site': site,
                                       'msg': '%s [the function now goes through %s, which did not exist when this rule was written and which it does not follow]' % (msg, ', '.join(sorted(nh)[:2]))})
                return None
        if ok:
            self.discharged += 1
            r[1] += 1
        else:
            self.violations.append({'key': '%s/%s' % (rule, key), 'rule': rule, 'site': site, 'msg': msg})
        if sample is not None and len([s for s in self.samples if s.get('rule') == rule]) < 3:
            self.samples.append({'rule': rule, 'instance': key, 'site': site, 'facts': sample, 'ok': bool(ok)})
        return ok

    def ob3(self, rule, key, ok, site='', msg='', sample=None):
        """three-valued obligation: True / False / None (= undecided)"""
        return self.ob(rule, key, UNDECIDED if ok is None else bool(ok), site, msg, sample)

    def violation(self, rule, key, site, msg):
        """(historical name) the rule could not find / understand its anchor structure: UNDECIDED, not a violation"""
        self.ob(rule, key, UNDECIDED, site, msg)

    def refuted(self, rule, key, site, msg):
        self.ob(rule, key, False, site, msg)

    def floor(self, rule, counted, floor):
        """Fail closed when a rule sees fewer instances than were counted by hand."""
        self.floors.append((rule, counted, floor))
        if counted < floor:
            self.undecided.append({'key': '%s/floor' % rule, 'rule': rule, 'site': '',
                                   'msg': 'rule %s matched %d instances, %d were counted when the rule was written: part of the code is no longer in a shape the rule finds — that part is not decided' % (rule, counted, floor)})

    def exception(self, key, reason):
        self.exceptions.append((key, reason))

    def control(self, name, fired):
        self.controls.append((name, bool(fired)))

    def note(self, s):
        self.notes.append(s)

    def decided(self, *clauses):
        self.clauses_decided += clauses

    def not_decided(self, *clauses):
        self.clauses_not_decided += clauses

    # ---- dependency clauses
    def include(self, pid, why, **kw):
        """Evaluate (part of) another property's rules as a dependency clause of this one: a violation there breaks this property too.
        Violation keys are prefixed dep-<pid>/ ; a known finding of the dependency stays a known finding here."""
        import importlib
        mod = importlib.import_module('qxlib.props.%s' % pid)
        sub = Check(pid, self.tier, self.seed, self.facts)
        run_resilient(mod, sub, 'run', **kw)
        self.obligations += sub.obligations
        self.discharged += sub.discharged
        for v in sub.violations:
            self.violations.append({'key': 'dep-%s/%s' % (pid, v['key']), 'rule': v['rule'], 'site': v['site'], 'msg': '[dependency clause, %s rules: %s] %s' % (pid, why, v['msg']), 'dep': (pid, v['key'])})
        for r, (a, b) in sub.rules.items():
            t = self.rules.setdefault('dep-%s:%s' % (pid, r), [0, 0])
            t[0] += a
            t[1] += b
        self.undecided += [{'key': 'dep-%s/%s' % (pid, u['key']), 'rule': u['rule'], 'site': u['site'], 'msg': u['msg']} for u in sub.undecided]
        self.functions |= sub.functions
        self.controls += [('dep-%s: %s' % (pid, n), f) for n, f in sub.controls]
        self.floors += [('dep-%s:%s' % (pid, r), c, f) for r, c, f in sub.floors]
        self.exceptions += [('dep-%s/%s' % (pid, k), r) for k, r in sub.exceptions]
        self.errors += sub.errors
        parts = kw.get('parts')
        self.notes.append('dependency clause: %s rules%s are evaluated here as well (%s); obligations dep-%s:* in rule_instances' % (pid, (' (parts %s)' % ','.join(parts)) if parts else '', why, pid))
        self.clauses_decided.append('dependency: %s%s — %s' % (pid, (' ' + '/'.join(parts)) if parts else '', why))

    # ---- finish
    def finish(self):
        known = load_known()
        kf = {(e['property'], e['key']): e for e in known if e.get('status') == 'known'}
        out_lines = []
        unlisted = []
        listed = []
        seen = set()
        for v in self.violations:
            if v['key'] in seen:
                continue
            seen.add(v['key'])
            e = kf.get((self.pid, v['key'])) or (kf.get(v['dep']) if v.get('dep') else None)
            if e:
                listed.append((v, e))
            else:
                unlisted.append(v)
        for v, e in listed:
            out_lines.append('KNOWN-FINDING: property=%s %s %s' % (self.pid, v['key'], e.get('what', v['msg'])))
        repdir = os.path.join(VERIF, 'reports') if os.path.abspath(extract.REPO) == '/repo' else '/tmp/qxm/reports'
        os.makedirs(repdir, exist_ok=True)
        for i, v in enumerate(unlisted, 1):
            rp = os.path.join(repdir, '%s-%d.json' % (self.pid, i))
            with open(rp, 'w') as fh:
                json.dump({'property': self.pid, 'key': v['key'], 'rule': v['rule'], 'site': v['site'], 'message': v['msg'],
                           'replay': 'bin/qx check %s' % self.pid, 'tree_hash': self.facts.get('_hash')}, fh, indent=1)
            out_lines.append('VIOLATION property=%s replay=%s' % (self.pid, rp))
            out_lines.append('  rule   %s' % v['rule'])
            out_lines.append('  site   %s' % v['site'])
            out_lines.append('  what   %s' % v['msg'])
            out_lines.append('  key    %s' % v['key'])
        useen = set()
        for u in self.undecided:
            if u['key'] in useen:
                continue
            useen.add(u['key'])
            out_lines.append('UNDECIDED property=%s %s — %s' % (self.pid, u['key'], (u['msg'] or '')[:240]))
        controls_failed = [n for n, f in self.controls if not f]
        status = 0
        if unlisted:
            status = 1
        if controls_failed or self.errors:
            for n in controls_failed:
                out_lines.append('CHECK-ERROR property=%s positive control did not fire: %s' % (self.pid, n))
            for e in self.errors:
                out_lines.append('CHECK-ERROR property=%s %s' % (self.pid, e))
            if status == 0:
                status = 3
        wall = time.time() - self.t0
        expl = ('Static analysis over the resolved program (HIR with type-check results, exported by a rustc driver '
                'from /repo\'s working tree): structural rules (dominance, pairing, who-may-call, tables, sibling agreement, encapsulation) and, where a clause is about '
                'what a closed fragment computes, exhaustive evaluation of that fragment over a stated finite scope by a source-level interpreter of the HIR '
                '(rules named E3-*; nothing of the crate is compiled or run, external crates are host models). Clauses decided: '
                + '; '.join(self.clauses_decided) + '. NOT decided (outside this family): '
                + '; '.join(self.clauses_not_decided) + '.')
        ev = {
            'property_id': self.pid,
            'tier': self.tier,
            'seed': self.seed,
            'level': 'other',
            'coverage': {
                'explanation': expl,
                'obligations': self.obligations,
                'discharged': self.discharged + len(listed),
                'rule_instances': {r: {'obligations': n, 'ok': k} for r, (n, k) in sorted(self.rules.items())},
                'functions_analysed': len(self.functions),
                'functions': sorted(self.functions)[:60],
                'floors': [{'rule': r, 'counted': c, 'floor': f} for r, c, f in self.floors],
                'exceptions': [{'key': k, 'reason': r} for k, r in self.exceptions],
                'known_findings_present': [v['key'] for v, _ in listed],
                'undecided': [{'key': u['key'], 'site': u['site'], 'why': (u['msg'] or '')[:300]} for u in self.undecided][:40],
                'positive_controls': [{'name': n, 'fired': f} for n, f in self.controls],
                'samples': self.samples[:24] or [{'note': 'no instance sampled'}],
                'notes': self.notes,
                'liveness_corpus': self.liveness if self.liveness is not None else 'thorough tier only',
                'unsupported_nodes_in_crate': self.facts.get('unsupported', 0),
                'fact_base': {'fns': len(self.fns), 'adts': len(self.facts.get('adts', {})), 'tree_hash': self.facts.get('_hash'),
                              'cached': self.facts.get('_cached'), 'hir_nodes': self.facts.get('nodes')},
                'checker_cmd': 'bin/qx check %s --tier %s' % (self.pid, self.tier),
                'trusted_base': ['rustc nightly (type check, name resolution)', 'qxfacts driver', 'reference tables under /verif/refs and in the rule modules'],
                'exhaustive': not self.undecided,
            },
            'assumptions': ['contract/reference tables are the right ZX-calculus / gate identities (trusted base)',
                            'only the quizx lib target is analysed; dependencies are trusted'],
            'wall_s': round(wall, 3),
            'violations': len(unlisted),
        }
        evdir = os.path.join(VERIF, 'evidence')
        if os.path.abspath(extract.REPO) != '/repo':
            evdir = os.environ.get('QX_EVIDENCE_DIR', '/tmp/qxm/evidence')   # scratch-copy runs never touch /verif/evidence
        os.makedirs(evdir, exist_ok=True)
        with open(os.path.join(evdir, '%s.json' % self.pid), 'w') as fh:
            json.dump(ev, fh, indent=1, sort_keys=False)
        summary = '%s: %d obligations, %d discharged, %d undecided, %d known finding(s), %d violation(s), %d control(s) [%s], %.1fs' % (
            self.pid, self.obligations, self.discharged, len(useen), len(listed), len(unlisted), len(self.controls),
            'ok' if not controls_failed else 'FAILED', wall)
        return status, out_lines, summary


def run_resilient(mod, ck, fname='run', *args, **kw):
    """Execute `mod.<fname>(ck, **kw)` one top-level statement at a time: an exception in one statement (the rule engine met a code shape it cannot
    analyse) makes the clauses of that statement UNDECIDED and the remaining statements still run.  Statements that then lack a variable are
    undecided too.  On the unchanged tree no statement may fail (bin/precommit rejects any UNDECIDED line)."""
    import ast
    import inspect
    import textwrap
    fn = getattr(mod, fname)
    try:
        src = textwrap.dedent(inspect.getsource(fn))
        tree = ast.parse(src)
        fdef = tree.body[0]
    except (OSError, SyntaxError, IndexError):
        return fn(ck, *args, **kw)
    ns = dict(mod.__dict__)
    sig = inspect.signature(fn)
    for i, (name, prm) in enumerate(sig.parameters.items()):
        if i == 0:
            ns[name] = ck
        elif i - 1 < len(args):
            ns[name] = args[i - 1]
        elif name in kw:
            ns[name] = kw[name]
        elif prm.default is not inspect.Parameter.empty:
            ns[name] = prm.default
        elif prm.kind == inspect.Parameter.VAR_KEYWORD:
            ns[name] = dict(kw)
    # calls to a sibling `_run_own(ck)` / `_d1(ck, facts)` / `_controls(ck)` runner defined in the module are made resilient as well
    import re as _re
    for nm, obj in list(mod.__dict__.items()):
        if callable(obj) and _re.match(r'^_(run_own|d\d+|controls)$', nm) and nm != fname:
            ns[nm] = (lambda _nm: (lambda ck2, *a, **k: run_resilient(mod, ck2, _nm, *a, **k)))(nm)

    class _StopRun(Exception):
        pass
    ns['_StopRun'] = _StopRun

    class _NoReturn(ast.NodeTransformer):
        def visit_Return(self, node):
            return ast.copy_location(ast.Raise(exc=ast.Call(func=ast.Name(id='_StopRun', ctx=ast.Load()), args=[], keywords=[]), cause=None), node)

        def visit_FunctionDef(self, node):      # nested defs keep their returns
            return node

        def visit_Lambda(self, node):
            return node
    for stmt in fdef.body:
        if isinstance(stmt, ast.Return):
            break
        try:
            seg = ast.get_source_segment(src, stmt) or ''
        except Exception:
            seg = ''
        lineno0 = stmt.lineno + fn.__code__.co_firstlineno - 1
        stmt = ast.fix_missing_locations(_NoReturn().visit(stmt))
        m = ast.Module(body=[stmt], type_ignores=[])
        ast.increment_lineno(m, fn.__code__.co_firstlineno - 1)
        try:
            code = compile(m, inspect.getsourcefile(fn) or '<run>', 'exec')
            exec(code, ns)
        except _StopRun:
            break
        except AnchorMissing as e:
            ck.ob('anchor', 'missing/%s' % e, UNDECIDED, str(e), 'function %s no longer exists under this name: the clauses anchored in it are not decided' % e)
        except Exception as ex:      # noqa: BLE001 — by design: an engine failure on unfamiliar code is "undecided", never an alarm
            rules = sorted(set(__import__('re').findall(r"'((?:R|E3|E4)-[A-Za-z0-9-]+)'", seg)))
            ck.ob('engine', '%s/%s-line-%d' % (mod.__name__.rsplit('.', 1)[-1], '+'.join(rules)[:60] or 'statement', lineno0), UNDECIDED, '',
                  'the rule engine could not analyse this code shape (%s: %s); clauses %s are not decided' % (type(ex).__name__, str(ex)[:120], ', '.join(rules) or 'of this statement'))


def load_known():
    p = os.path.join(VERIF, 'known_findings.json')
    if not os.path.exists(p):
        return []
    return json.load(open(p)).get('findings', [])
