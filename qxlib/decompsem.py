"""Bounded exhaustive exploration of rank-decomposition trees (DESIGN 10.1 E3b, C18).

`DecompTree` and the annealer are interpreted from their HIR by minirust on small graphs; the random number generator is rngsem's choice-point host, so
every outcome of every draw is followed.  States are (node array, leaf list, interior list, rank cache); transitions are the three random moves of
the annealer and `rankwidth_score` (which fills the cache).  At every reachable state an oracle written here, independent of the analysed code,
decides the clauses of the property:

  structure   the node array is a cubic tree (leaves of degree one, interior nodes of degree three, symmetric adjacency, connected, acyclic), the
              `leaves` / `interior` lists index exactly the leaf / interior nodes, and the leaves carry exactly the graph's vertices, once each
  no-panic    no move panics
  cache       `rankwidth` and `rankwidth_score`, evaluated on a copy WITH the state's cache, equal the width and score the oracle computes from
              scratch (own tree walk, own GF(2) rank)
  annealer    `RankwidthAnnealer::run` returns a structurally valid tree whose oracle width is at most that of its initial tree

Nothing of the analysed crate is compiled or run; the external bitgauss::BitMatrix is replaced by a host rank."""
import time
from . import minirust, rngsem

TREE = 'rankwidth::decomp_tree::DecompTree'
ANN = 'rankwidth::annealer::RankwidthAnnealer'
MOVES = ('swap_random_leaves', 'random_local_swap', 'move_random_subtree')


class Cutoff(Exception):
    pass


class CutRng(rngsem.Rng):
    """an rng that follows every draw site for its first `reps` executions per run; a run that draws at a site more often is cut, except on the path
    whose choices were all the first option until then, which gets one more execution per site.
    (A rejection loop redraws until a condition holds: its first round already yields every accepted outcome; one retry path is followed too.)"""
    mr_site = None

    def __init__(self, reps, floats=(0.5,)):
        rngsem.Rng.__init__(self, floats)
        self.reps = reps
        self.begin()

    def begin(self):
        self.count = {}
        self.ext = None

    def _choose(self, n):
        c = self.count[self.mr_site] = self.count.get(self.mr_site, 0) + 1
        if c > self.reps:
            if self.ext is None:
                self.ext = not any(ch for ch, _n in self.trace)
            if not self.ext or c > self.reps + 1:
                raise Cutoff()
        return rngsem.Rng._choose(self, n)


def f2rank(rows):
    rows = [sum((1 << j) for j, b in enumerate(r) if b) for r in rows]
    rk = 0
    while rows:
        r = rows.pop()
        if r:
            rk += 1
            lb = r & -r
            rows = [x ^ r if x & lb else x for x in rows]
    return rk


def interp(facts, fuel=600000):
    it = minirust.Interp(fuel, facts=facts)
    it.inline = lambda c: c.startswith(('rankwidth::', '<rankwidth::'))

    def hc(c, e, a):
        if c.endswith('BitMatrix::build'):
            r, cc, f = a()
            rows = [[bool(f(i, j)) for j in range(cc)] for i in range(r)]
            return minirust.Obj('bitmatrix', {'rank': lambda _a: f2rank(rows)})
        return NotImplemented
    it.host_call = hc
    return it


class Graph(minirust.Obj):
    def __init__(self, n, edges):
        # `n`: the number of vertices (named 0..n-1) or the tuple of vertex names (a graph with holes in its numbering, as every rewritten diagram has)
        names = list(range(n)) if isinstance(n, int) else list(n)
        self.n = n
        self.names = names
        self.E = set(frozenset(e) for e in edges)
        minirust.Obj.__init__(self, 'graph', {
            'vertices': lambda a: list(names), 'connected': lambda a: frozenset((a[0], a[1])) in self.E, 'num_vertices': lambda a: len(names),
            'vertex_vec': lambda a: list(names), 'clone': lambda a: self, 'contains_vertex': lambda a: a[0] in names,
        }, strict=True)

    def mr_clone(self):
        return self

    def __str__(self):
        return 'graph on %s with edges %s' % (('%d vertices' % self.n) if isinstance(self.n, int) else ('the vertices %s' % (list(self.names),)), sorted(tuple(sorted(e)) for e in self.E))


def node_parts(nd):
    if not (isinstance(nd, tuple) and len(nd) == 3 and nd[0] == 'ctor'):
        raise minirust.NoEval('node %r' % (nd,))
    kind = nd[1].rsplit('::', 1)[-1]
    if kind == 'Leaf':
        return 'L', tuple(nd[2][0]), nd[2][1]
    if kind == 'Interior':
        return 'I', tuple(nd[2][0]), None
    raise minirust.NoEval('node kind %s' % kind)


def freeze(t):
    return (tuple(node_parts(nd) for nd in t['nodes']), tuple(t['leaves']), tuple(t['interior']),
            frozenset((tuple(k), v) for k, v in t['ranks'].items()))


def thaw(st):
    nodes = []
    for kind, nhd, v in st[0]:
        nodes.append(('ctor', TREE.replace('DecompTree', 'DecompNode') + ('::Leaf' if kind == 'L' else '::Interior'), ((list(nhd), v) if kind == 'L' else (list(nhd),))))
    return {'__struct__': TREE, 'nodes': nodes, 'leaves': list(st[1]), 'interior': list(st[2]), 'ranks': dict((k, v) for k, v in st[3])}


def structure(st, n):
    """-> '' when the state is a cubic tree over exactly the graph's vertices, else what is wrong"""
    nodes, leaves, interior = st[0], st[1], st[2]
    N = len(nodes)
    names = list(range(n)) if isinstance(n, int) else sorted(n)
    n = len(names)
    if n >= 2 and N != 2 * n - 2:
        return '%d nodes for %d vertices (a cubic tree has %d)' % (N, n, 2 * n - 2)
    if sorted(leaves) != [i for i, x in enumerate(nodes) if x[0] == 'L']:
        return 'the leaf list %s does not index exactly the leaf nodes' % (list(leaves),)
    if sorted(interior) != [i for i, x in enumerate(nodes) if x[0] == 'I']:
        return 'the interior list %s does not index exactly the interior nodes' % (list(interior),)
    if sorted(x[2] for x in nodes if x[0] == 'L') != names:
        return 'the leaves carry the vertices %s, not each vertex %s of the graph once' % (sorted(x[2] for x in nodes if x[0] == 'L'), names)
    for i, (kind, nhd, _v) in enumerate(nodes):
        if len(nhd) != (1 if kind == 'L' else 3):
            return 'node %d has degree %d' % (i, len(nhd))
        if len(set(nhd)) != len(nhd) or i in nhd or any(not (0 <= j < N) for j in nhd):
            return 'node %d has the neighbourhood %s' % (i, list(nhd))
        for j in nhd:
            if i not in nodes[j][1]:
                return 'node %d lists %d as a neighbour but not the other way round' % (i, j)
    if N:
        seen, todo = {0}, [0]
        while todo:
            x = todo.pop()
            for j in nodes[x][1]:
                if j not in seen:
                    seen.add(j)
                    todo.append(j)
        if len(seen) != N:
            return 'the tree is not connected (%d of %d nodes reachable from node 0)' % (len(seen), N)
        if sum(len(x[1]) for x in nodes) != 2 * (N - 1):
            return 'the node array has a cycle'
    return ''


def oracle_ranks(st, g):
    """{edge (i<=j): cut rank}, computed from scratch"""
    nodes = st[0]
    out = {}
    for i, (_k, nhd, _v) in enumerate(nodes):
        for j in nhd:
            if i <= j:
                side, todo = {i}, [i]
                while todo:
                    x = todo.pop()
                    for y in nodes[x][1]:
                        if y not in side and not (x == i and y == j):
                            side.add(y)
                            todo.append(y)
                a = [nodes[x][2] for x in sorted(side) if nodes[x][0] == 'L']
                b = [x[2] for k, x in enumerate(nodes) if x[0] == 'L' and k not in side]
                out[(i, j)] = f2rank([[frozenset((p, q)) in g.E for q in b] for p in a])
    return out


def oracle_width_score(st, g):
    r = oracle_ranks(st, g)
    return (max(r.values()) if r else 0), sum(v * v for v in r.values())


def show(st):
    return 'nodes [%s] cache {%s}' % (', '.join(('L%s->%d' % (x[2], x[1][0]) if x[0] == 'L' and x[1] else 'I%s' % (list(x[1]),)) for x in st[0]),
                                      ', '.join('%s:%d' % (k, v) for k, v in sorted(st[3])))


def initial_states(facts, g, stats, max_runs=None):
    """every outcome of random_decomp (the first `max_runs` in the order of the draws) -> {frozen state: draws}, or raises"""
    rng = rngsem.Rng()
    out = {}
    for t, tr in rngsem.explore(lambda: interp(facts).local_call(TREE + '::random_decomp', [g, rng]), rng, limit=10 ** 9):
        stats['runs'] += 1
        out.setdefault(freeze(t), [c for c, _n in tr])
        if max_runs is not None and stats['runs'] >= max_runs:
            break
    return out


def successors(facts, st, g, stats, moves=True, compute=True):
    """(label, next state | ('panic', message)) for every move and every draw, and for the cache-filling rankwidth_score"""
    if moves:
        for mv in MOVES:
            rng = CutRng(1)
            done = 0

            def run():
                t = thaw(st)
                rng.begin()
                try:
                    interp(facts).local_call(TREE + '::' + mv, [t, rng])
                except Cutoff:
                    return None
                except minirust.Panics as ex:
                    return ('panic', str(ex))
                return freeze(t)
            for res, tr in rngsem.explore(run, rng):
                stats['runs'] += 1
                if res is None:
                    stats['cut'] += 1
                    continue
                done += 1
                yield '%s%s' % (mv, [c for c, _n in tr]), res
            if not done:
                yield mv, ('never', 'no run of %s completes with every draw site executed once' % mv)
    if compute:
        t = thaw(st)
        try:
            interp(facts).local_call(TREE + '::rankwidth_score', [t, g])
            res = freeze(t)
        except minirust.Panics as ex:
            res = ('panic', str(ex))
        stats['runs'] += 1
        yield 'rankwidth_score', res


def reported(facts, st, g):
    """(rankwidth, rankwidth_score) as the analysed code reports them from this state (cache included), each on a fresh copy"""
    w = interp(facts).local_call(TREE + '::rankwidth', [thaw(st), g])
    s = interp(facts).local_call(TREE + '::rankwidth_score', [thaw(st), g])
    return w, s


_SCRATCH = {}


def from_scratch(facts, st, g):
    """(rankwidth, rankwidth_score) by the analysed code on a copy whose cache is empty; memoised per node array"""
    key = (id(facts), g.n, frozenset(g.E), st[:3])
    if key not in _SCRATCH:
        if len(_SCRATCH) > 20000:
            _SCRATCH.clear()
        _SCRATCH[key] = reported(facts, st[:3] + (frozenset(),), g)
    return _SCRATCH[key]


def examine(facts, st, g, need_valid=True):
    """the oracle's verdicts on one state -> dict(structure=msg, valid=..., reported=(w, s) | ('panic', msg), oracle=(w, s))"""
    out = {'structure': structure(st, g.n), 'valid': True}
    if out['structure']:
        return out
    if need_valid:
        try:
            out['valid'] = interp(facts).local_call(TREE + '::is_valid_for_graph', [thaw(st), g])
        except minirust.Panics as ex:
            out['valid'] = ('panic', str(ex))
    try:
        out['reported'] = reported(facts, st, g)
        out['scratch'] = from_scratch(facts, st, g)
    except minirust.Panics as ex:
        out['reported'] = ('panic', str(ex))
    out['oracle'] = oracle_width_score(st, g)
    return out


_W = {}


def _work(job):
    """one frontier state: its successors (runs in a forked worker: facts and graph are inherited)"""
    st, moves = job
    facts, g = _W['facts'], _W['g']
    stats = {'runs': 0, 'cut': 0}
    try:
        out = list(successors(facts, st, g, stats, moves=moves))
    except minirust.NoEval as ex:
        return st, None, stats, '%s: %s' % (type(ex).__name__, ex)
    return st, out, stats, None


def _exam(job):
    st, need_valid = job
    try:
        return examine(_W['facts'], st, _W['g'], need_valid)
    except minirust.NoEval as ex:
        return {'error': '%s: %s' % (type(ex).__name__, ex)}


def cache_full(st):
    nodes = st[0]
    return len(st[3]) == sum(len(x[1]) for x in nodes) // 2 if len(nodes) > 1 else True


def explore(facts, g, raw_limit=1, max_states=None, inits=None, procs=8):
    """breadth-first to a fixpoint over the states reachable from every initial decomposition, where at most `raw_limit` moves follow one another
    without the cache being refilled (rankwidth_score) in between.  -> dict(clauses={clause: (ok, detail)}, stats)"""
    stats = {'runs': 0, 'cut': 0, 'states': 0, 'layouts': 0, 'transitions': 0, 'levels': 0, 'complete': False}
    res = {'structure': [True, ''], 'no-panic': [True, ''], 'cache': [True, ''], 'valid-for-graph': [True, ''], 'moves-terminate': [True, ''], 'width': [True, '']}

    def fail(cl, msg):
        if res[cl][0]:
            res[cl] = [False, msg]
    init = initial_states(facts, g, stats, None if inits is None else 400)
    if inits is not None:
        # spread over the enumerated outcomes (neighbouring draw sequences give similar trees)
        items = sorted(init.items(), key=lambda kv: kv[1])
        step = max(1, len(items) // inits)
        init = dict(items[::step][:inits])
    seen = {}        # state -> (history, consecutive moves without a refill)

    def admit(st, hist, m, ex):
        """record a new state with the oracle's verdicts; -> whether it can be expanded"""
        seen[st] = (hist, m)
        if ex['structure']:
            fail('structure', 'on the %s after %s: %s; %s' % (g, hist, ex['structure'], show(st)))
            return False
        if ex['valid'] is not True:
            if isinstance(ex['valid'], tuple):
                fail('no-panic', 'on the %s after %s: is_valid_for_graph panics (%s); %s' % (g, hist, ex['valid'][1], show(st)))
            else:
                fail('valid-for-graph', 'on the %s after %s: is_valid_for_graph says %r of the valid tree %s' % (g, hist, ex['valid'], show(st)))
        if ex['reported'][0] == 'panic':
            fail('no-panic', 'on the %s after %s: rankwidth panics (%s); %s' % (g, hist, ex['reported'][1], show(st)))
            return False
        if tuple(ex['reported']) != tuple(ex['scratch']):
            fail('cache', 'on the %s after %s: rankwidth/score reported %s/%s, the same functions on a copy with an empty cache report %s/%s; %s'
                 % (g, hist, ex['reported'][0], ex['reported'][1], ex['scratch'][0], ex['scratch'][1], show(st)))
        # the cache holds ranks of CURRENT edges only: an entry left behind under a key that is no longer an edge is inherited by whatever edge takes
        # that key later and defeats the `ranks.len() == num_edges()` shortcut of compute_ranks (the stale-cut scenario needs more moves than are explored)
        orc_ = oracle_ranks(st, g)
        for k_, v_ in sorted(st[3]):
            kk_ = (min(k_), max(k_)) if isinstance(k_, tuple) and len(k_) == 2 else k_
            if kk_ not in orc_:
                fail('cache', 'on the %s after %s: the rank cache keeps an entry for %s, which is not an edge of the tree; %s' % (g, hist, k_, show(st)))
                break
            if orc_[kk_] != v_:
                fail('cache', 'on the %s after %s: the rank cache holds %s for the edge %s whose cut has rank %s; %s' % (g, hist, v_, k_, orc_[kk_], show(st)))
                break
        if ex['scratch'][0] != ex['oracle'][0]:
            fail('width', 'on the %s after %s: rankwidth computed from an empty cache is %s, the largest cut rank of the tree is %s; %s'
                 % (g, hist, ex['scratch'][0], ex['oracle'][0], show(st)))
        return True
    frontier = []
    for st, tr in sorted(init.items(), key=lambda kv: kv[1]):
        if admit(st, 'random_decomp%s' % tr, 0, examine(facts, st, g)):
            frontier.append(st)
    _W['facts'], _W['g'] = facts, g
    pool = None
    if procs > 1:
        try:
            import multiprocessing
            pool = multiprocessing.get_context('fork').Pool(procs)
        except Exception:
            pool = None
    def pmap(fn, jobs):
        if pool is None or len(jobs) < 4:
            return [fn(j_) for j_ in jobs]
        return pool.map(fn, jobs, chunksize=max(1, len(jobs) // (procs * 4)))
    layouts = set(s_[:3] for s_ in seen)
    try:
        while frontier:
            stats['levels'] += 1
            results = pmap(_work, [(st, cache_full(st) or seen[st][1] < raw_limit) for st in frontier])
            cand, order = {}, []
            for st, out, wstats, err in results:
                stats['runs'] += wstats['runs']
                stats['cut'] += wstats['cut']
                if err is not None:
                    raise minirust.NoEval(err)
                hist, m = seen[st]
                m0 = 0 if cache_full(st) else m
                for label, r in out:
                    stats['transitions'] += 1
                    if isinstance(r, tuple) and len(r) == 2 and r[0] == 'panic':
                        fail('no-panic', 'on the %s after %s, %s panics (%s); %s' % (g, hist, label, r[1], show(st)))
                        continue
                    if isinstance(r, tuple) and len(r) == 2 and r[0] == 'never':
                        fail('moves-terminate', 'on the %s after %s: %s; %s' % (g, hist, r[1], show(st)))
                        continue
                    m1 = 0 if label == 'rankwidth_score' else m0 + 1
                    if r in seen:
                        if m1 < seen[r][1] and not cache_full(r):
                            was = seen[r][1]
                            seen[r] = (seen[r][0], m1)       # reached with fewer unrefilled moves: may now be expanded by moves
                            if m1 < raw_limit <= was:
                                cand.setdefault(r, None)
                        continue
                    if r not in cand or cand[r] is None or m1 < cand[r][1]:
                        if r not in cand:
                            order.append(r)
                        cand[r] = (hist + ' ' + label, m1)
            new = [r for r in order if cand.get(r) is not None]
            if max_states is not None and len(seen) + len(new) > max_states:
                new = new[:max(0, max_states - len(seen))]
                capped = True
            else:
                capped = False
            jobs = []
            for r in new:
                jobs.append((r, r[:3] not in layouts))
                layouts.add(r[:3])
            exams = pmap(_exam, jobs)
            nxt = [r for r in cand if cand[r] is None]          # re-expansions
            for r, ex in zip(new, exams):
                if 'error' in ex:
                    raise minirust.NoEval(ex['error'])
                if admit(r, cand[r][0], cand[r][1], ex):
                    nxt.append(r)
            if capped:
                stats['states'] = len(seen)
                stats['layouts'] = len(layouts)
                return {'clauses': res, 'stats': stats}
            frontier = nxt
        stats['complete'] = True
    finally:
        if pool is not None:
            pool.terminate()
            pool.join()
    stats['states'] = len(seen)
    stats['layouts'] = len(set(s_[:3] for s_ in seen))
    return {'clauses': res, 'stats': stats}


RUN = ANN + '::<R, G>::run'


def annealer_runs(facts, g, init, settings, stats, limit=None, pin=()):
    """RankwidthAnnealer::run from the initial tree `init` (a frozen state) under `settings` (field -> value), over every draw (that starts with `pin`).
    yields (result state | ('panic', msg), trace)"""
    rng = CutRng(max(1, settings.get('iterations', 1)))

    def run():
        rng.begin()
        a = {'__struct__': ANN, 'rng': rng, 'graph': g, 'init_decomp': thaw(init), 'init_temp': 5.0, 'min_temp': 0.05, 'cooling_rate': 0.95,
             'adaptive_cooling': True, 'iterations': 1}
        a.update(settings)
        try:
            t = interp(facts, 2000000).local_call(RUN, [a])
        except Cutoff:
            return None
        except minirust.Panics as ex:
            return ('panic', str(ex))
        return freeze(t)
    n = 0
    for res, tr in rngsem.explore(run, rng, limit=10 ** 9, pin=pin):
        stats['runs'] += 1
        n += 1
        if res is None:
            stats['cut'] += 1
        else:
            yield res, tr
        if limit is not None and n >= limit:
            stats['truncated'] = stats.get('truncated', 0) + 1
            return


def _ann_job(job):
    (n, edges), init, settings, limit, pin = job
    facts = _W['facts']
    g = Graph(n, edges)
    stats = {'runs': 0, 'cut': 0}
    ow = oracle_width_score(init, g)[0]
    bad = {}
    widths = set()
    first = None
    try:
        for res, tr in annealer_runs(facts, g, init, settings, stats, limit, pin):
            if first is None:
                first = tr[0][1] if tr else 0
            where = 'on the %s from %s with %s and the draws %s' % (g, show(init), settings, [c for c, _n in tr])
            if res[0] == 'panic':
                bad.setdefault('no-panic', '%s: run panics (%s)' % (where, res[1]))
                continue
            msg = structure(res, g.n)
            if msg:
                bad.setdefault('annealer-valid', '%s: the returned tree is not valid: %s; %s' % (where, msg, show(res)))
                continue
            w = oracle_width_score(res, g)[0]
            widths.add(w)
            if w > ow:
                bad.setdefault('annealer-width', '%s: the returned tree has width %d, the initial tree %d; %s' % (where, w, ow, show(res)))
    except minirust.NoEval as ex:
        return None, stats, '%s: %s' % (type(ex).__name__, ex), widths
    return bad, stats, None, widths


def _first_options(job):
    """number of options of the first random draw of a case (0: no draw at all) — the case is split along it"""
    (n, edges), init, settings = job
    rng = CutRng(max(1, settings.get('iterations', 1)))
    a = {'__struct__': ANN, 'rng': rng, 'graph': Graph(n, edges), 'init_decomp': thaw(init), 'init_temp': 5.0, 'min_temp': 0.05, 'cooling_rate': 0.95,
         'adaptive_cooling': True, 'iterations': 1}
    a.update(settings)
    try:
        interp(_W['facts'], 2000000).local_call(RUN, [a])
    except (Cutoff, minirust.Panics):
        pass
    except minirust.NoEval as ex:
        return '%s: %s' % (type(ex).__name__, ex)
    return rng.trace[0][1] if rng.trace else 0


def explore_annealer(facts, configs, procs=8):
    """configs: [(vertices, edges, [settings], initial trees | None, run cap | None)] -> dict(clauses, stats, per=[per-config stats])
    every setting from every (of the first `inits`) initial decomposition of every graph, over every draw; one worker pool for all of it"""
    res = {'no-panic': [True, ''], 'annealer-valid': [True, ''], 'annealer-width': [True, '']}
    _W['facts'] = facts
    cases = []           # (config index, (n, edges), init, settings, limit)
    per = []
    for ci, (n, edges, settings_list, inits, limit) in enumerate(configs):
        g = Graph(n, edges)
        st0 = {'runs': 0, 'cut': 0}
        init = [st for st, _tr in sorted(initial_states(facts, g, st0, None if inits is None else 400).items(), key=lambda kv: kv[1])]
        if inits is not None:
            init = init[::max(1, len(init) // inits)][:inits]
        per.append({'annealer_on': str(g), 'settings': settings_list, 'cases': 0, 'runs': 0, 'runs_cut_in_rejection_loops': 0,
                    'cases_in_which_some_run_narrows_the_tree': 0, 'cases_truncated': 0})
        for st in init:
            for s_ in settings_list:
                cases.append((ci, (n, tuple(map(tuple, edges))), st, s_, limit))
    pool = None
    if procs > 1 and len(cases) >= 2:
        try:
            import multiprocessing
            pool = multiprocessing.get_context('fork').Pool(procs)
        except Exception:
            pool = None
    try:
        pm = (lambda f, js: pool.map(f, js, chunksize=1)) if pool is not None else (lambda f, js: [f(j) for j in js])
        firsts = pm(_first_options, [(c[1], c[2], c[3]) for c in cases])
        jobs, owner = [], []
        for k, (c, fo) in enumerate(zip(cases, firsts)):
            if isinstance(fo, str):
                raise minirust.NoEval(fo)
            pins = [()] if (fo <= 1 or c[4] is not None) else [(i,) for i in range(fo)]
            for pin in pins:
                jobs.append((c[1], c[2], c[3], c[4], pin))
                owner.append(k)
        results = pm(_ann_job, jobs)
    finally:
        if pool is not None:
            pool.terminate()
            pool.join()
    narrowed = {}
    for k, (bad, wstats, err, widths) in zip(owner, results):
        if err is not None:
            raise minirust.NoEval(err)
        ci, ge, st, _s, _l = cases[k]
        row = per[ci]
        row['runs'] += wstats['runs']
        row['runs_cut_in_rejection_loops'] += wstats['cut']
        row['cases_truncated'] += wstats.get('truncated', 0)
        if widths and min(widths) < oracle_width_score(st, Graph(*ge))[0]:
            narrowed[k] = True
        for cl, msg in sorted(bad.items()):
            if res[cl][0]:
                res[cl] = [False, msg]
    for k, c in enumerate(cases):
        per[c[0]]['cases'] += 1
        per[c[0]]['cases_in_which_some_run_narrows_the_tree'] += 1 if narrowed.get(k) else 0
    stats = {'cases': len(cases), 'runs': sum(r['runs'] for r in per), 'improved': len(narrowed)}
    return {'clauses': res, 'stats': stats, 'per': per}
