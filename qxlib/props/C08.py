"""C08 — tensor evaluation: per-gate table of Circuit::to_tensor, decision structure of the comparison helpers."""
import os
import sys

import itertools

from .. import hir, rtable, gatesem, minirust
from ..controls import fixture

sys.path.insert(0, os.path.dirname(os.path.dirname(os.path.dirname(os.path.abspath(__file__)))))
from refs import gates as G  # noqa: E402


def circuit_tensor_key(facts):
    return hir.impl_method(facts, 'tensor::ToTensor', 'circuit::Circuit', 'to_tensor')


def expected_tensor(kind):
    g = G.GATES[kind]
    if g['cls'] == 'diag':
        return ('diag', tuple(g['hset']), g['phase'])
    if g['cls'] == 'had':
        return ('had', 0)
    if g['cls'] == 'perm':
        return ('perm', (0, 1))
    if g['cls'] == 'unknown':
        return ('nothing',)
    return ('panic',)     # parity-phase and the non-unitary kinds are not supported by the circuit evaluator: loud failure


class HT(minirust.Obj):
    """a small exact tensor for evaluating the comparison helpers: a shape and a flat list of integers"""

    def __init__(self, dims, elems):
        self.dims, self.elems = tuple(dims), list(elems)
        ixs = list(itertools.product(*[range(d) for d in self.dims]))
        minirust.Obj.__init__(self, 'Tensor', {
            'dim': lambda a: self.dims, 'raw_dim': lambda a: self.dims, 'shape': lambda a: list(self.dims), 'ndim': lambda a: len(self.dims),
            'len': lambda a: len(self.elems), 'iter': lambda a: list(self.elems), 'indexed_iter': lambda a: list(zip(ixs, self.elems)),
            'clone': lambda a: self, 'view': lambda a: self, 'to_owned': lambda a: self, 'is_empty': lambda a: not self.elems,
            'get': lambda a: minirust.some(self.elems[ixs.index(a[0])]) if a[0] in ixs else minirust.NONE})
        self.ixs = ixs

    def getitem(self, i):
        if i in self.ixs:
            return self.elems[self.ixs.index(i)]
        raise minirust.NoEval('tensor index %r' % (i,))

    def __mul__(self, k):
        if isinstance(k, int) and not isinstance(k, bool):
            return HT(self.dims, [x * k for x in self.elems])
        if isinstance(k, HT) and k.dims == self.dims:
            return HT(self.dims, [x * y for x, y in zip(self.elems, k.elems)])
        raise minirust.NoEval('tensor product with %r' % (k,))

    def __eq__(self, o):
        return isinstance(o, HT) and o.dims == self.dims and o.elems == self.elems

    def __ne__(self, o):
        return not self == o
    __hash__ = None

    def __repr__(self):
        return 'T%s%s' % (list(self.dims), self.elems)


def _proportional(t0, t1):
    """reference: equal up to a non-zero scalar"""
    if t0.dims != t1.dims:
        return False
    z0, z1 = not any(t0.elems), not any(t1.elems)
    if z0 or z1:
        return z0 and z1
    n = len(t0.elems)
    return all(t0.elems[i] * t1.elems[j] == t0.elems[j] * t1.elems[i] for i in range(n) for j in range(n))


def scalar_eq_semantics(f):
    """evaluate scalar_eq on every pair of small integer tensors; returns {category: (ok, counterexample, n)} or raises NoEval"""
    ps = [p for p in f['params'] if p.get('k') == 'Bind']
    if len(ps) != 2:
        raise minirust.NoEval('two operands expected')
    vals = (-1, 0, 1, 2)
    ts = {d: [HT(d, e) for e in itertools.product(vals, repeat=n)] for d, n in (((2,), 2), ((1, 2), 2), ((3,), 3))}
    pairs = []
    for d in ((2,), (3,)):
        pairs += [(a, b) for a in ts[d] for b in ts[d]]
    pairs += [(a, b) for a in ts[(2,)] for b in ts[(1, 2)]] + [(a, b) for a in ts[(1, 2)][::3] for b in ts[(3,)][::5]] + [(a, b) for a in ts[(3,)][::5] for b in ts[(2,)][::3]]
    res = {}
    for a, b in pairs:
        if a.dims != b.dims:
            cat = 'different dims -> false'
        elif not any(a.elems) or not any(b.elems):
            cat = 'both zero -> true; exactly one zero -> false'
        else:
            cat = 'non-zero case: equal up to a non-zero factor'
        it = minirust.Interp(fuel=4000)
        try:
            got = it.ev(f['hir'], {ps[0]['id']: a, ps[1]['id']: b})
        except minirust._Return as ex:
            got = ex.v
        if not isinstance(got, bool):
            raise minirust.NoEval('result %r' % (got,))
        ok, cex, n = res.get(cat, (True, None, 0))
        if got != _proportional(a, b) and ok:
            ok, cex = False, '%r vs %r answers %s' % (a, b, got)
        res[cat] = (ok, cex, n + 1)
    return res


def scalar_eq_structure(f):
    """decision structure of scalar_eq"""
    res = {}
    ps = [p for p in f['params'] if p.get('k') == 'Bind']
    if len(ps) != 2:
        return {'shape': False}
    n0, n1 = ps[0]['name'], ps[1]['name']
    # dims
    st = hir.stmts_of(f['hir'])
    first = hir.strip(st[0]) if st else {}
    dim_ok = False
    if first.get('k') == 'If':
        c = hir.strip(first['cond'])
        if c.get('k') == 'Binary' and c['op'] == 'Ne' and all(hir.strip(x).get('k') == 'MethodCall' and hir.strip(x)['name'] in ('dim', 'shape', 'raw_dim') for x in (c['l'], c['r'])):
            roots = {hir.local_name(hir.strip(c['l'])['recv']), hir.local_name(hir.strip(c['r'])['recv'])}
            tb = hir.stmts_of(first['then'])
            dim_ok = roots == {n0, n1} and len(tb) == 1 and hir.strip(tb[0]).get('k') == 'Ret' and hir.lit_bool(hir.strip(tb[0])['e']) is False
    res['different dims -> false'] = dim_ok
    # first non-zero of each
    finds = {}
    for s in st:
        if s.get('k') == 'Let' and s['pat'].get('k') == 'Bind' and s.get('init') is not None:
            i = hir.strip(s['init'])
            if i.get('k') == 'MethodCall' and i['name'] == 'find' and hir.strip(i['recv']).get('k') == 'MethodCall' and hir.strip(i['recv'])['name'] == 'iter':
                src = hir.local_name(hir.strip(i['recv'])['recv'])
                cl = hir.strip(i['args'][0])
                nz = cl.get('k') == 'Closure' and hir.strip(cl['body']).get('k') == 'Unary' and hir.strip(cl['body'])['op'] == 'Not' and hir.strip(hir.strip(cl['body'])['e']).get('name') == 'is_zero'
                if nz:
                    finds[s['pat']['name']] = src
    res['first non-zero entry of EACH tensor'] = sorted(finds.values()) == sorted([n0, n1])
    m = [x for x in hir.find(f['hir'], 'Match')]
    ok_tbl = False
    cross = False
    same = False
    if len(m) == 1 and hir.strip(m[0]['scrut']).get('k') == 'Tup':
        order = [finds.get(hir.local_name(x)) for x in hir.strip(m[0]['scrut'])['items']]
        tbl = {}
        for a in m[0]['arms']:
            tbl[hir.pp_pat(a['pat'])] = a
        both = [a for p, a in tbl.items() if p.startswith('(Some') and p.count('Some') == 2]
        none = [a for p, a in tbl.items() if p == '(None, None)']
        other = [a for p, a in tbl.items() if p == '_']
        ok_tbl = order == [n0, n1] and len(both) == 1 and len(none) == 1 and len(other) == 1 and hir.lit_bool(hir.stmts_of(none[0]['body'])[0]) is True and hir.lit_bool(hir.stmts_of(other[0]['body'])[0]) is False
        if both:
            bn = [n for n, _i in hir.bindings(both[0]['pat'])]
            for n in hir.nodes(both[0]['body']):
                if n.get('k') == 'Binary' and n['op'] == 'Eq':
                    l, r = hir.strip(n['l']), hir.strip(n['r'])
                    if l.get('k') == 'Binary' and l['op'] == 'Mul' and r.get('k') == 'Binary' and r['op'] == 'Mul':
                        pairs = {(hir.local_name(l['l']), hir.local_name(l['r'])), (hir.local_name(r['l']), hir.local_name(r['r']))}
                        cross = pairs == {(n0, bn[1]), (n1, bn[0])} if len(bn) == 2 else False
                    if hir.local_name(l) == n0 and hir.local_name(r) == n1:
                        same = True
    res['both zero -> true; exactly one zero -> false'] = ok_tbl
    res['non-zero case: equal, or equal after cross-multiplying with the OTHER tensor\'s entry'] = cross and same
    return res


GRAPH_QUICK = [('vec_graph::Graph', 3, 2, 'exact'), ('hash_graph::Graph', 11, 2, 'exact'), ('vec_graph::Graph', 13, 1, 'float')]
GRAPH_THOROUGH = [('vec_graph::Graph', 1, 3, 'exact'), ('hash_graph::Graph', 1, 2, 'exact'), ('vec_graph::Graph', 2, 2, 'float')]
CIRC_QUICK = [(1, 'exact'), (5, 'float')]
CIRC_THOROUGH = [(1, 'exact'), (1, 'float')]
PRIMS = ('ident', 'delta', 'cphase', 'hadamard', 'delta_at', 'cphase_at', 'hadamard_at', 'plug_n_qubits')


def _d0(ck, facts):
    """the statement itself on a small scope: tensor.rs interpreted on an ndarray host model (qxlib/tensorsem.py)"""
    from .. import tensorsem as T
    ck.decided('D0 (evaluation, small scope) the graph evaluator <G as ToTensor>::to_tensor — contraction order, seen-degree bookkeeping, index positions, Hadamard normalisation, the stored scalar — interpreted from its HIR on both graph '
               'back ends, on an ndarray host model, for a finite family of well-formed diagrams (0..3 spiders of both colours with every edge pattern and up to three boundaries each way, several boundaries on one spider, closed and disconnected '
               'diagrams, isolated spiders, boundaries wired straight to boundaries incl. crossings, cups and caps, circuit-like diagrams with a phase gadget), under several vertex numberings, in the exact number type and in Complex<f64> '
               '(whose from_phase / sqrt2_pow impls in tensor.rs are interpreted): every entry equals the standard interpretation (brute-force contraction of qxlib/zxsem.py, which shares no code with tensor.rs), axes ordered inputs then outputs; '
               'the circuit evaluator on every supported gate kind, every tuple of distinct qubits of 1..3 wires, pairs and longer sequences: every entry equals the product of the reference gate matrices in circuit order; unsupported kinds panic; '
               'the QubitOps primitives against their definitions; compare / scalar_compare end to end on (diagram, circuit) pairs')
    thorough = ck.tier == 'thorough'
    site_g = ck.site('<G as tensor::ToTensor>::to_tensor') if ck.has_fn('<G as tensor::ToTensor>::to_tensor') else 'quizx/src/tensor.rs'
    key_c = circuit_tensor_key(facts)
    site_c = ck.site(key_c) if key_c else 'quizx/src/tensor.rs'
    decided = set()
    # graphs
    try:
        tot, bad, declined = T.run_graphs(facts, GRAPH_THOROUGH if thorough else GRAPH_QUICK, procs=16 if thorough else 8)
        by = {}
        for ty, num, kind, dia, order, what in bad:
            by.setdefault((num, 'no-panic' if kind == 'panic' else 'entry-values'), []).append((ty, dia, order, what))
        for num in ('exact', 'float'):
            for clause in ('entry-values', 'no-panic'):
                hit = by.get((num, clause), [])
                if hit:
                    ty, dia, order, what = hit[0]
                    ck.ob('E3-tensor', 'graph-evaluator/%s/%s' % (num, clause), False, site_g, 'to_tensor of the diagram %s built on %s with the vertices created in the order %s: %s [%d such cases in this run]' % (dia, ty.split('::')[0], order, what, len(hit)))
                else:
                    ck.ob('E3-tensor', 'graph-evaluator/%s/%s' % (num, clause), True, site_g, '', sample={'diagrams': tot['diagrams'], 'evaluations': tot['evaluations']} if clause == 'entry-values' and num == 'exact' else None)
        ck.floor('E3-tensor-graph-evaluations', tot['evaluations'], 20000 if thorough else 2500)
        if tot['declined'] * 50 > max(1, tot['evaluations']):
            k0 = sorted(declined)[0]
            ck.ob3('E3-tensor', 'graph-evaluator/declined', None, site_g, 'the evaluator declined %d evaluations, e.g. %s on %s' % (tot['declined'], k0, declined[k0]))
        elif not bad:
            decided.add('graph')
        ck.note('E3-tensor graphs: %d diagrams, %d evaluations (back ends x vertex orders x number types), %d declined' % (tot['diagrams'], tot['evaluations'], tot['declined']))
    except (minirust.NoEval, minirust.Proceed) as ex:
        ck.ob3('E3-tensor', 'graph-evaluator/evaluation', None, site_g, 'the evaluator declined (%s: %s)' % (type(ex).__name__, ex))
    # circuits
    try:
        tot, bad, declined = T.run_circuits(facts, CIRC_THOROUGH if thorough else CIRC_QUICK, procs=8)
        by = {}
        for num, kind, circ, what in bad:
            by.setdefault((num, 'no-panic' if kind == 'panic' else 'entry-values'), []).append((circ, what))
        for num in ('exact', 'float'):
            for clause in ('entry-values', 'no-panic'):
                hit = by.get((num, clause), [])
                if hit:
                    ck.ob('E3-tensor', 'circuit-evaluator/%s/%s' % (num, clause), False, site_c, 'to_tensor of the circuit on %s: %s [%d such cases in this run]' % (hit[0][0], hit[0][1], len(hit)))
                else:
                    ck.ob('E3-tensor', 'circuit-evaluator/%s/%s' % (num, clause), True, site_c, '', sample={'circuits': tot['circuits'], 'kinds': tot['kinds']} if clause == 'entry-values' and num == 'exact' else None)
        loud = T.unsupported_fail_loudly(facts)
        ck.ob('E3-tensor', 'circuit-evaluator/unsupported-kinds-fail-loudly', not loud, site_c, 'a circuit with a gate kind the evaluator does not support must panic, but: %s' % ', '.join('%s %s' % x for x in loud))
        ck.floor('E3-tensor-circuit-evaluations', tot['evaluations'], 1300)
        ck.floor('E3-tensor-circuit-kinds', len(tot['kinds']), 15)
        if tot['declined'] * 50 > max(1, tot['evaluations']):
            k0 = sorted(declined)[0]
            ck.ob3('E3-tensor', 'circuit-evaluator/declined', None, site_c, 'the evaluator declined %d evaluations, e.g. %s on %s' % (tot['declined'], k0, declined[k0]))
        elif not bad and not loud:
            decided.add('circuit')
        ck.note('E3-tensor circuits: %d circuits, %d evaluations, kinds %s, %d declined' % (tot['circuits'], tot['evaluations'], ', '.join(tot['kinds']), tot['declined']))
    except (minirust.NoEval, minirust.Proceed) as ex:
        ck.ob3('E3-tensor', 'circuit-evaluator/evaluation', None, site_c, 'the evaluator declined (%s: %s)' % (type(ex).__name__, ex))
    # primitives
    try:
        cases, bad = T.primitives(facts)
        by = {}
        for fn, case, what in bad:
            by.setdefault(fn, []).append((case, what))
        for fn in PRIMS:
            hit = by.get(fn, [])
            k_ = [k for k in facts['fns'] if k.endswith('tensor::QubitOps<A>>::' + fn)]
            ck.ob('E3-tensor', 'primitives/' + fn, not hit, ck.site(k_[0]) if k_ else 'quizx/src/tensor.rs', ('%s (%s): %s [%d such cases]' % (fn, hit[0][0], hit[0][1], len(hit))) if hit else '')
        ck.floor('E3-tensor-primitive-cases', cases, 100)
    except (minirust.NoEval, minirust.Proceed) as ex:
        ck.ob3('E3-tensor', 'primitives/evaluation', None, 'quizx/src/tensor.rs', 'the evaluator declined (%s: %s)' % (type(ex).__name__, ex))
    # the comparison helpers end to end
    try:
        cases, bad = T.comparisons(facts)
        by = {}
        for fn, case, what in bad:
            by.setdefault(fn, []).append((case, what))
        for fn in ('compare', 'scalar_compare'):
            hit = by.get(fn, [])
            k_ = [k for k in facts['fns'] if k.endswith('tensor::CompareTensors>::' + fn)]
            ck.ob('E3-tensor', 'helpers/' + fn, not hit, ck.site(k_[0]) if k_ else 'quizx/src/tensor.rs', ('%s on %s: %s [%d such cases]' % (fn, hit[0][0], hit[0][1], len(hit))) if hit else '')
        ck.floor('E3-tensor-comparison-cases', cases, 36)
        if not bad:
            decided.add('helpers')
    except (minirust.NoEval, minirust.Proceed) as ex:
        ck.ob3('E3-tensor', 'helpers/evaluation', None, 'quizx/src/tensor.rs', 'the evaluator declined (%s: %s)' % (type(ex).__name__, ex))
    ck.control('E3-tensor: the ndarray host model reproduces documented ndarray behaviour (axis sums, axis swap and layout, broadcasting, two-way slices)', T.host_controls())
    _c1, _c2 = __import__('qxlib.zxsem', fromlist=['x']).oracle_controls()
    ck.control('E3-tensor oracle: the fast contraction agrees with the reference contraction on a fixed sample of every family', _c1)
    return decided


def check_run_d0(ck, facts):
    try:
        return _d0(ck, facts)
    except Exception as ex:        # an internal error of the evaluator is undecided, never an alarm
        ck.ob3('E3-tensor', 'evaluation', None, 'quizx/src/tensor.rs', 'internal error of the evaluator: %s: %s' % (type(ex).__name__, str(ex)[:200]))
        return set()


def _run_own(ck):
    facts = ck.facts
    ev = check_run_d0(ck, facts)
    if 'circuit' in ev:
        ck.positive_only = dict(getattr(ck, 'positive_only', {}), **{'R-TABLE-tensor': 'the circuit evaluator was decided by E3-tensor/circuit-evaluator in this run'})
    if 'helpers' in ev:
        ck.positive_only = dict(getattr(ck, 'positive_only', {}), **{'R-PATH': 'compare / scalar_compare were decided end to end by E3-tensor/helpers in this run'})
    ck.decided('D1 per-gate table of Circuit::to_tensor: every unitary kind is a diagonal phase conjugated by Hadamards on exactly the reference positions (or H / swap), only kinds that carry a phase read the gate\'s phase, unsupported kinds fail loudly, gates are applied in reverse order over all gates',
               'D2 decision structure of scalar_eq / scalar_compare / compare')
    ck.not_decided('diagrams and circuits beyond the evaluated small scope (more than about eight vertices / three qubits, phases outside the multiples of pi/4)', 'H-boxes (the evaluator rejects them)', 'rounding error of the float number type beyond 1e-9 on the small scope')
    key = circuit_tensor_key(facts)
    if key is None:
        ck.violation('R-TABLE-tensor', 'anchor', 'tensor.rs', 'anchor-missing: ToTensor for Circuit')
        return
    f = ck.fn(key)
    r = gatesem.tensor_table(facts, key)
    if r is None:
        ck.violation('R-TABLE-tensor', 'shape', ck.site(key), 'anchor-missing: no single match over GType')
        return
    table, m = r
    variants = rtable.enum_variants(facts, G.GTYPE)
    for v in variants:
        want = expected_tensor(v)
        got = table.get(v)
        if v == 'UnknownGate':
            ck.exception('to_tensor/UnknownGate', 'unknown gates are quietly ignored on both the tensor and the diagram side (documented)')
        ck.ob3('R-TABLE-tensor', 'to_tensor/' + v, None if (got is not None and got[0] == '?' and want[0] != 'nothing') else got == want, ck.site(key),
               'circuit evaluation of %s is %s, reference semantics %s' % (v, got, want), sample={'kind': v, 'descriptor': str(got)})
    ck.floor('R-TABLE-tensor', len(table), 21)
    reads = {v for v, d in table.items() if d[0] == 'diag' and d[2] == 'param'}
    unread = any(d[0] == '?' for d in table.values())
    ck.ob3('R-TABLE-tensor', 'to_tensor/phase-readers', None if (unread and reads <= {'ZPhase', 'XPhase'}) else reads == {'ZPhase', 'XPhase'}, ck.site(key), 'kinds whose tensor arm reads the gate phase: %s; only ZPhase and XPhase carry one' % sorted(reads))
    fors = [n for n in hir.find(f['hir'], 'For') if any(x is m for x in hir.nodes(n['body']))]
    ok = False
    if len(fors) == 1:
        it = hir.strip(fors[0]['iter'])
        names = []
        while it.get('k') == 'MethodCall':
            names.append(it['name'])
            it = hir.strip(it['recv'])
        pl = hir.place(it)
        ok = sorted(names) == ['iter', 'rev'] and pl is not None and pl[1] == 'self' and pl[2] == [('f', 'gates')]
    ck.ob('R-TABLE-tensor', 'to_tensor/all-gates-reversed', ok, ck.site(key), 'the evaluator acts on the input indices, so it must visit every gate of self.gates in reverse order')
    # D2
    sk = None
    for im in facts['impls']:
        if im['trait'] and im['trait'].startswith('tensor::CompareTensors'):
            d = dict((n, k) for n, k in im['methods'])
            sk = d
    if not sk:
        ck.violation('R-PATH', 'CompareTensors/impl', 'tensor.rs', 'anchor-missing')
    else:
        try:
            sem = scalar_eq_semantics(ck.fn(sk['scalar_eq']))
            for name, (ok, cex, n) in sorted(sem.items()):
                ck.ob('R-PATH', 'scalar_eq/' + name, ok, ck.site(sk['scalar_eq']), 'scalar_eq evaluated on %d pairs of small exact tensors: %s, but equality up to a non-zero scalar says otherwise' % (n, cex),
                      sample={'pairs': n})
            ck.floor('R-PATH-scalar_eq-pairs', sum(x[2] for x in sem.values()), 4000)
        except (minirust.NoEval, minirust.Proceed, TypeError, KeyError, IndexError) as ex:
            # the evaluator declined: fall back on the syntactic reading; a shape it does not recognise either is undecided, not refuted
            res = scalar_eq_structure(ck.fn(sk['scalar_eq']))
            for name, ok in res.items():
                ck.ob3('R-PATH', 'scalar_eq/' + name, True if ok else None, ck.site(sk['scalar_eq']), 'scalar_eq is neither evaluable (%s) nor of the known decision structure: %s' % (ex, name))
        cf = ck.fn(sk['compare'])
        tt = [c for c in hir.calls(cf['hir']) if c.get('k') == 'MethodCall' and c['name'] == 'to_tensor']
        eq = [n for n in hir.nodes(cf['hir']) if n.get('k') == 'Binary' and n['op'] == 'Eq']
        ps = [p['name'] for p in cf['params'] if p.get('k') == 'Bind']
        ok = len(tt) == 2 and len(eq) == 1 and sorted(hir.local_name(c['recv']) for c in tt) == sorted(ps)
        ck.ob('R-PATH', 'compare', ok, ck.site(sk['compare']), 'compare must be to_tensor(x0) == to_tensor(x1) of its two different arguments')
        sc = ck.fn(sk['scalar_compare'])
        tt = [c for c in hir.calls(sc['hir']) if c.get('k') == 'MethodCall' and c['name'] == 'to_tensor']
        se = [c for c in hir.calls(sc['hir']) if (hir.callee(c) or '').endswith('::scalar_eq')]
        ps = [p['name'] for p in sc['params'] if p.get('k') == 'Bind']
        ok = len(tt) == 2 and len(se) == 1 and sorted(hir.local_name(c['recv']) for c in tt) == sorted(ps)
        ck.ob('R-PATH', 'scalar_compare', ok, ck.site(sk['scalar_compare']), 'scalar_compare must apply scalar_eq to the tensors of its two different arguments')
    # D1b: both evaluators turn phases into exact numbers through From<Phase> for Scalar4 (same table as C07-D5)
    # (round 2: From<Phase> for Scalar4 is decided by value in the dependency clause C07 — E3-scalar4/from-phase and from-phase-inexact; the
    # syntactic table reading that used to be repeated here alarmed on a behaviour-preserving rewrite and is gone)
    # positive control
    fx = fixture()
    t2 = gatesem.tensor_table(fx, 'tensor::to_tensor')
    ck.control('R-TABLE-tensor flags a NOT arm that is not a conjugation', t2 is not None and t2[0].get('NOT') != expected_tensor('NOT'))


def run(ck, **kw):
    _run_own(ck)
    ck.include('C07', 'tensor entries and scalar comparisons are computed in Scalar4 arithmetic (scalar.rs is anchored here too)')
