"""C14 — QASM printing and parsing: name tables, opaque prelude, error discipline, printer structure."""
import os
import re
import sys

from .. import hir, rtable, paths, minirust
from ..controls import fixture

sys.path.insert(0, os.path.dirname(os.path.dirname(os.path.dirname(os.path.abspath(__file__)))))
from refs import gates as G  # noqa: E402

GT = G.GTYPE


def name_tables(facts, from_key='gate::GType::from_qasm_name', to_key='gate::GType::qasm_name'):
    """(name -> kind, kind -> name)"""
    variants = rtable.enum_variants(facts, GT)
    ff, tf = facts['fns'][from_key], facts['fns'][to_key]
    fm = [m for m in hir.find(ff['hir'], 'Match')]
    tm = rtable.enum_matches(tf, GT)
    if len(fm) != 1 or len(tm) != 1:
        return None
    st, default = rtable.str_match_table(fm[0])
    n2k = {}
    for name, arm in st.items():
        n2k[name] = rtable.variant_of(hir.stmts_of(arm['body'])[0] if hir.stmts_of(arm['body']) else arm['body'], GT)
    dflt = rtable.variant_of(hir.stmts_of(default['body'])[0], GT) if default else None
    tt, _ = rtable.match_table(tm[0], GT, variants)
    k2n = {}
    for v in variants:
        if v in tt:
            b = hir.stmts_of(tt[v]['body'])
            k2n[v] = hir.lit_str(b[0]) if b else None
    return n2k, k2n, dflt


def arity_table(facts, key='gate::GType::num_qubits'):
    variants = rtable.enum_variants(facts, GT)
    f = facts['fns'][key]
    ms = rtable.enum_matches(f, GT)
    if len(ms) != 1:
        return None
    t, _ = rtable.match_table(ms[0], GT, variants)
    out = {}
    for v in variants:
        b = hir.stmts_of(t[v]['body'])
        e = b[0] if b else None
        a = hir.ctor_call(e, 'Some')
        if a is not None:
            out[v] = hir.lit_int(a[0])
        elif hir.is_ctor_path(e, 'None'):
            out[v] = None
        else:
            out[v] = '?'
    return out


def printed_param_kinds(f):
    """kinds for which Gate::to_qasm prints a `(phase*pi)` parameter, and whether the phase printed is self.phase"""
    kinds = set()
    phase_ok = False
    for n in hir.nodes(f['hir']):
        if n.get('k') != 'If':
            continue
        fm = hir.format_calls(n['then'])
        if not any(t and '*pi' in t for t, _a, _n in fm):
            continue
        c = hir.strip(n['cond'])
        if c.get('k') == 'LetCond':
            v = rtable._pat_variants(c['pat'], GT)
            if isinstance(v, list):
                kinds |= set(v)
        elif c.get('k') == 'MethodCall' and c['name'] == 'matches':
            pass
        for t, args, _n in fm:
            if t and '*pi' in t and args:
                a = args[0]
                phase_ok = any(x.get('k') == 'Field' and x['name'] == 'phase' and hir.local_name(x['e']) == 'self' for x in hir.nodes(a))
    return kinds, phase_ok


def prelude(facts, key='circuit::Circuit::from_qasm_parser'):
    """opaque declarations of the prelude string: name -> (has_param, arity)"""
    f = facts['fns'][key]
    out = {}
    for n in hir.nodes(f['hir']):
        s = hir.lit_str(n) if n.get('k') == 'Lit' else None
        if s and 'opaque' in s:
            for m in re.finditer(r'opaque\s+(\w+)\s*(\(([^)]*)\))?\s*([^;]*);', s):
                params = [p for p in (m.group(3) or '').split(',') if p.strip()]
                args = [a for a in m.group(4).split(',') if a.strip()]
                out[m.group(1)] = (len(params), len(args))
    return out


def writer_methods(facts):
    for im in facts['impls']:
        if im['trait'] and im['trait'].split('<')[0].endswith('GateWriter') and 'CircuitWriter' in im['self']:
            return dict((n, k) for n, k in im['methods'])
    return None


def _is_emit(n):
    if n.get('k') == 'MethodCall' and n['name'] in ('push', 'push_back') and any(x.get('k') == 'Field' and x['name'] == 'circuit' for x in hir.nodes(n['recv'])):
        return True
    if n.get('k') == 'Assign' and hir.strip(n['l']).get('k') == 'Field' and hir.strip(n['l'])['name'] == 'circuit':
        return True
    return False


def writer_discipline(f):
    """every path of a GateWriter method that returns Ok must have emitted (pushed a gate / installed the circuit)
    returns ([(ok, why)], number of Ok paths, number of Err paths)"""
    out = []
    n_ok = n_err = 0
    for e in paths.effect_paths(hir.stmts_of(f['hir']), _is_emit):
        if e.end == 'diverge':
            continue
        r = hir.strip(e.ret) if isinstance(e.ret, dict) else None
        if r is not None and hir.ctor_call(r, 'Err') is not None:
            n_err += 1
            continue
        if r is not None and hir.ctor_call(r, 'Ok') is not None:
            n_ok += 1
            out.append((bool(e.events), 'a path (%s) returns Ok(()) without pushing a gate or installing the circuit: the construct is silently dropped' % ', '.join(e.cond_texts())))
            continue
        if r is not None and r.get('k') == 'Try':
            continue
        out.append((False, 'a path returns neither Ok(..) nor Err(..): %s' % (hir.pp(r)[:50] if r else 'nothing')))
    return out, n_ok, n_err


def try_discipline(f):
    """Result-producing steps in from_qasm_parser are propagated with `?`"""
    pm = hir.parent_map(f['hir'])
    res = []
    for c in hir.calls(f['hir']):
        if c.get('k') == 'MethodCall' and c['name'] == 'to_errors':
            anc = [a for a, _s in hir.ancestors(c, pm)]
            ok = any(a.get('k') == 'Try' for a in anc[:4])
            res.append((ok, c))
    dropped = []
    for n in hir.nodes(f['hir']):
        if n.get('k') == 'Block':
            for s in n['stmts']:
                if s.get('k') not in ('Let', 'Item') and (s.get('ty') or '').startswith('std::result::Result'):
                    dropped.append(s)
        if n.get('k') == 'Let' and n['pat'].get('k') == 'Wild' and n.get('init') is not None and (n['init'].get('ty') or '').startswith('std::result::Result'):
            dropped.append(n)
        if n.get('k') == 'MethodCall' and n['name'] in ('ok', 'unwrap_or_default', 'unwrap_or') and (hir.strip(n['recv']).get('ty') or '').startswith('std::result::Result'):
            dropped.append(n)
    return res, dropped


def display_structure(f):
    fm = hir.format_calls(f['hir'])
    head = [(t, a) for t, a, _n in fm if t and 'qreg' in t]
    head_ok = bool(head) and len(head[0][1]) == 1 and head[0][1][0].get('k') == 'MethodCall' and hir.callee(head[0][1][0]) == 'circuit::Circuit::num_qubits' \
        and hir.local_name(head[0][1][0]['recv']) == 'self' and re.match(r'^qreg q\[\{\}\];\n$', head[0][0]) is not None
    fors = hir.find(f['hir'], 'For')
    loop_ok = False
    if len(fors) == 1:
        it = hir.strip(fors[0]['iter'])
        pl = hir.place(it)
        plain = pl is not None and pl[1] == 'self' and pl[2] == [('f', 'gates')]
        body_fm = hir.format_calls(fors[0]['body'])
        vid = [i for _n, i in hir.bindings(fors[0]['pat'])]
        prints = [a for t, a, _n in body_fm if t == '{};\n' and len(a) == 1 and a[0].get('k') == 'MethodCall' and hir.callee(a[0]) == 'gate::Gate::to_qasm'
                  and hir.local(a[0]['recv']) and hir.local(a[0]['recv'])[1] in vid]
        st = hir.stmts_of(fors[0]['body'])
        uncond = not any(hir.strip(s).get('k') in ('If', 'Match', 'Continue', 'Break') for s in st)
        loop_ok = plain and len(prints) == 1 and uncond
    return head_ok, loop_ok


# ---------------------------------------------------------------- D3 by evaluation of the printers (round 2)

class _PhaseHost(minirust.Obj):
    """the phase of a gate: every accessor yields a marker that prints as itself"""

    class Marker:
        def __init__(self, how):
            self.how = how

        def fmt_display(self):
            return '<phase.%s>' % self.how

        def fmt_debug(self):
            # `{:?}` of an f64 is not `{}`: it switches to exponent form below 1e-4 (pi/16384 prints as 6.103515625e-5), which the QASM grammar does not have
            return '<phase.%s printed with {:?}>' % self.how

    def __init__(self, zero=False):
        minirust.Obj.__init__(self, 'phase', {'to_f64': lambda a: _PhaseHost.Marker('to_f64'), 'clone': lambda a: self, 'is_zero': lambda a: zero}, strict=False)


def _printer_interp(facts):
    it = minirust.Interp(fuel=8000, facts=facts, inline=lambda c: c.startswith(('gate::Gate::', 'gate::GType::', 'circuit::Circuit::')))
    return it


def to_qasm_outputs(facts):
    """Gate::to_qasm evaluated for every kind on the qubit list [3, 1, 4]: kind -> printed text"""
    f = facts['fns']['gate::Gate::to_qasm']
    ps = [p for p in f['params'] if p.get('k') == 'Bind']
    out = {}
    for v in rtable.enum_variants(facts, GT):
        res = []
        for zero in (False, True):
            it = _printer_interp(facts)
            gate = {'__struct__': 'gate::Gate', 't': ('const', GT + '::' + v), 'qs': [3, 1, 4], 'phase': _PhaseHost(zero), 'vars': minirust.Obj('parity', {}, strict=False)}
            try:
                r = it.ev(f['hir'], {ps[0]['id']: gate})
            except minirust._Return as ex:
                r = ex.v
            if not isinstance(r, str):
                raise minirust.NoEval('to_qasm(%s) = %r' % (v, r))
            res.append(str(r))
        # the printed form may not depend on the VALUE of the phase (a zero rotation still has its parameter: the prelude declares it)
        out[v] = res[0] if res[0] == res[1] else '%s | with a zero phase: %s' % (res[0], res[1])
    return out


def display_output(facts, kinds=('CNOT', 'ZPhase', 'HAD')):
    """<Circuit as Display>::fmt evaluated on a 5-qubit circuit with three gates that touch only qubits 0..2: (text, [to_qasm of each gate])"""
    key = '<circuit::Circuit as std::fmt::Display>::fmt'
    f = facts['fns'][key]
    ps = [p for p in f['params'] if p.get('k') == 'Bind']
    if len(ps) != 2:
        raise minirust.NoEval('signature of fmt')
    gates = [{'__struct__': 'gate::Gate', 't': ('const', GT + '::' + v), 'qs': qs, 'phase': _PhaseHost(), 'vars': minirust.Obj('parity', {}, strict=False)}
             for v, qs in zip(kinds, ([0, 1], [2], [1]))]
    circ = {'__struct__': 'circuit::Circuit', 'nqubits': 5, 'gates': gates}
    buf = []

    def write(a):
        if not isinstance(a[0], str):
            raise minirust.NoEval('write of %r' % (a[0],))
        buf.append(str(a[0]))
        return ('Ok', ())
    fm = minirust.Obj('formatter', {'write_fmt': write, 'write_str': write}, strict=False)
    it = _printer_interp(facts)
    try:
        r = it.ev(f['hir'], {ps[0]['id']: circ, ps[1]['id']: fm})
    except minirust._Return as ex:
        r = ex.v
    if r != ('Ok', ()):
        raise minirust.NoEval('fmt returned %r' % (r,))
    tq = facts['fns']['gate::Gate::to_qasm']
    tps = [p for p in tq['params'] if p.get('k') == 'Bind']
    each = []
    for g in gates:
        it2 = _printer_interp(facts)
        try:
            t = it2.ev(tq['hir'], {tps[0]['id']: g})
        except minirust._Return as ex:
            t = ex.v
        each.append(str(t))
    return ''.join(buf), each


def opaque_args_in_order(f):
    """GateWriter::write_opaque: the qubit arguments of the parsed gate are exactly the `regs` it is given, in order.  (ok, msg)"""
    regs = [p for p in f['params'] if p.get('k') == 'Bind' and p['name'] not in ('self', 'name', 'params')]
    if len(regs) != 1:
        return None, 'write_opaque no longer takes (name, params, regs) (anchor-missing)'
    rid = regs[0]['id']
    gl = [n for n in hir.nodes(f['hir'], into_closures=False) if n.get('k') == 'Let' and n['pat'].get('k') == 'Bind' and n.get('init') is not None and (hir.callee(hir.strip(n['init'])) or '').endswith('from_qasm_name')]
    if len(gl) != 1:
        return None, 'the gate is no longer created with Gate::from_qasm_name (not-established-by-recognised-idiom)'
    gid = gl[0]['pat']['id']
    writes = []
    for n in hir.nodes(f['hir']):
        k = n.get('k')
        if k == 'MethodCall':
            r = hir.strip(n['recv'])
            if r.get('k') == 'Field' and r['name'] == 'qs' and hir.local(r['e']) and hir.local(r['e'])[1] == gid and (n['recv'].get('mutborrow') or r.get('mutborrow')):
                writes.append((n['name'], n))
        if k in ('Assign', 'AssignOp'):
            l = hir.strip(n['l'])
            if l.get('k') == 'Field' and l['name'] == 'qs' and hir.local(l['e']) and hir.local(l['e'])[1] == gid:
                writes.append(('=', n))
            if l.get('k') == 'Index' and hir.strip(l['e']).get('k') == 'Field' and hir.strip(l['e'])['name'] == 'qs':
                writes.append(('[]=', n))

    def is_regs(e):
        e = hir.strip(e)
        while e.get('k') == 'MethodCall' and e['name'] in ('iter', 'copied', 'cloned', 'to_vec', 'into_iter', 'collect', 'as_slice'):
            e = hir.strip(e['recv'])
        l = hir.local(e)
        return bool(l and l[1] == rid)
    good = [w for w in writes if (w[0] in ('extend_from_slice', 'extend') and is_regs(w[1]['args'][0])) or (w[0] == '=' and w[1]['k'] == 'Assign' and is_regs(w[1]['r']))]
    other = [w for w in writes if w not in good]
    if len(good) != 1:
        return False, 'the parsed gate must receive exactly the qubit list `regs` it was given (found %d such assignment(s))' % len(good)
    if other:
        return False, ('the qubit arguments of a parsed gate are rearranged (`%s`): argument order is part of the gate — sorting `ccx c, b, a` moves the target onto another wire, and the printed form of the parsed circuit '
                       'no longer has the same qubit arguments' % hir.pp(other[0][1])[:50])
    return True, ''



# ---- the parser's qubit count for a program without statements, by evaluation (round 3)
REG_LAYOUTS = [
    ('qreg q[2]', [('q', 'q', 2)], 2),
    ('qreg q[2]; qreg r[3]', [('q', 'q', 2), ('q', 'r', 3)], 5),
    ('creg c[4]; qreg q[2]; creg d[1]; qreg r[3]', [('c', 'c', 4), ('q', 'q', 2), ('c', 'd', 1), ('q', 'r', 3)], 5),
    ('qreg a[1]; qreg q[3]; qreg z[2]', [('q', 'a', 1), ('q', 'q', 3), ('q', 'z', 2)], 6),
    ('a register without a size next to qreg q[3]', [('q', 'a', None), ('q', 'q', 3)], 4),
    ('creg c[2] only', [('c', 'c', 2)], 0),
    ('no declarations', [], 0),
]


def empty_program_qubits(facts, key='circuit::Circuit::from_qasm_parser'):
    """from_qasm_parser interpreted on host objects for the external openqasm crate, for programs that declare registers and contain NO statement
    (openqasm's Linearize then never calls GateWriter::initialize): [(layout, expected qubits, qubits of the returned circuit | text)]"""
    f = facts['fns'][key]
    out = []
    for text, decls, want in REG_LAYOUTS:
        it = minirust.Interp(fuel=20000, facts=facts, inline=lambda c: c.startswith(('circuit::Circuit::', 'gate::')) and c != key)

        class Res(minirust.Obj):
            def __init__(self, v):
                minirust.Obj.__init__(self, 'openqasm-result', {'to_errors': lambda a: ('Ok', v), 'unwrap': lambda a: v, 'expect': lambda a: v}, strict=True)
        prog = {'__struct__': 'openqasm::Program', 'decls': [
            {'__struct__': 'openqasm::Decl::' + ('QReg' if k == 'q' else 'CReg'), 'reg': {'__struct__': 'openqasm::Reg', 'name': n, 'index': minirust.NONE if sz is None else minirust.some(sz)}}
            for k, n, sz in decls]}
        parser = minirust.Obj('openqasm-parser', {}, strict=True)
        parser.methods.update({'with_file_policy': lambda a: parser, 'parse_source': lambda a: (), 'parse_file': lambda a: (), 'done': lambda a: Res(prog)})
        lin = minirust.Obj('openqasm-linearize', {'visit_program': lambda a: Res(())}, strict=True)

        def hc(c, e, args, _parser=parser, _lin=lin):
            if c.startswith('openqasm::SourceCache'):
                return minirust.Obj('openqasm-cache', {}, strict=True)
            if c.startswith('openqasm::Parser') and c.endswith('::new'):
                return _parser
            if c.startswith('openqasm::Linearize') and c.endswith('::new'):
                args()
                return _lin
            if c.startswith('openqasm::'):
                raise minirust.NoEval('openqasm function %s is not modelled' % c)
            return NotImplemented

        def hm(callee, nm, recv, args):
            if isinstance(recv, dict) and recv.get('__struct__') == 'openqasm::Program':
                if nm == 'type_check':
                    return Res(())
                raise minirust.NoEval('openqasm::Program::%s is not modelled' % nm)
            return NotImplemented
        it.host_call, it.host_method = hc, hm
        ps = [p_ for p_ in f['params']]
        if len(ps) != 1:
            raise minirust.NoEval('from_qasm_parser takes %d parameters' % len(ps))
        env = {}
        if not it.bind(ps[0], (lambda *_a: None), env):
            raise minirust.NoEval('parameter pattern')
        try:
            r = it.ev(f['hir'], env)
        except minirust._Return as ex:
            r = ex.v
        if isinstance(r, tuple) and len(r) == 2 and r[0] == 'Ok' and isinstance(r[1], dict) and r[1].get('__struct__') == 'circuit::Circuit':
            c = r[1]
            got = c.get('nqubits') if isinstance(c.get('nqubits'), int) and not c.get('gates') else 'a circuit with gates / without a qubit count: %r' % (c,)
        elif isinstance(r, tuple) and len(r) == 2 and r[0] == 'Err':
            got = 'Err(%s)' % (r[1],)
        else:
            raise minirust.NoEval('from_qasm_parser returned %r' % (r,))
        out.append((text, want, got))
    return out

def run(ck):
    facts = ck.facts
    ck.decided('D1 name tables: from_qasm_name(qasm_name(k)) = k for every kind but UnknownGate, names equal the standard ones; the opaque prelude declares every gate name of the property with arity num_qubits() and one parameter exactly when to_qasm prints one',
               'D2 unsupported constructs are errors, supported ones are never dropped: every GateWriter method pushes a gate / installs the circuit on every Ok path or returns Err; from_qasm_parser propagates every error source with `?`',
               'D3 Display for Circuit prints the register size from num_qubits() and every gate, in order, through Gate::to_qasm; to_qasm prints name, parameter from self.phase, and all qubit arguments',
               'D4 exact rational multiples of pi are parsed on a float-free path guarded by the absence of a float part')
    ck.not_decided('phase printing/parsing exactness (decimal <-> rational values)', 'register layout and parsing proper (done by the external openqasm crate)',
                   'zero-gate circuits: the qubit count is only set by a callback the openqasm crate does not invoke for an empty program (observed, not reachable by a rule)')
    variants = rtable.enum_variants(facts, GT)
    for k in ('gate::GType::from_qasm_name', 'gate::GType::qasm_name', 'gate::GType::num_qubits', 'gate::Gate::to_qasm', 'circuit::Circuit::from_qasm_parser'):
        ck.fn(k)
    nt = name_tables(facts)
    if nt is None:
        ck.violation('R-TABLE-names', 'shape', ck.site('gate::GType::qasm_name'), 'anchor-missing: name tables are no longer single matches')
        return
    n2k, k2n, dflt = nt
    cnt = 0
    for v in variants:
        if v == 'UnknownGate':
            continue
        cnt += 1
        name = k2n.get(v)
        ck.ob('R-TABLE-names', 'roundtrip/%s' % v, name is not None and n2k.get(name) == v, ck.site('gate::GType::qasm_name'),
              'qasm_name(%s) = %r but from_qasm_name(%r) = %s' % (v, name, name, n2k.get(name, dflt)), sample={'kind': v, 'name': name})
        if v in G.QASM_SET:
            ck.ob('R-TABLE-names', 'standard-name/%s' % v, name == G.GATES[v]['qasm'], ck.site('gate::GType::qasm_name'),
                  '%s prints as %r, the standard name is %r' % (v, name, G.GATES[v]['qasm']))
    ck.floor('R-TABLE-names', cnt, 20)
    ck.ob('R-TABLE-names', 'default-unknown', dflt == 'UnknownGate', ck.site('gate::GType::from_qasm_name'), 'unknown names map to %s instead of UnknownGate' % dflt)
    for name, kind in sorted(n2k.items()):
        # every parsed name maps to the kind that prints it, or is a documented alias (CX)
        ok = k2n.get(kind) == name or (name == 'CX' and kind == 'CNOT')
        ck.ob('R-TABLE-names', 'parse/%s' % name, ok, ck.site('gate::GType::from_qasm_name'), 'name %r parses to %s, which prints as %r' % (name, kind, k2n.get(kind)))
    ar = arity_table(facts)
    for v in variants:
        ck.ob('R-TABLE-arity', v, ar is not None and ar.get(v) == G.GATES[v]['arity'], ck.site('gate::GType::num_qubits'),
              'num_qubits(%s) = %s, reference arity %s' % (v, ar.get(v) if ar else None, G.GATES[v]['arity']), sample={'kind': v, 'arity': ar.get(v) if ar else None})
    ref_pk = {k for k, g in G.GATES.items() if g['param']}
    tq = ck.fn('gate::Gate::to_qasm')
    try:
        outs = to_qasm_outputs(facts)
        pk = {v for v, t in outs.items() if '(' in t.split(' q[')[0]}
        ck.ob('R-TABLE-param', 'to_qasm/param-kinds', pk == ref_pk, ck.site('gate::Gate::to_qasm'), 'to_qasm prints a parameter for %s, reference %s' % (sorted(pk), sorted(ref_pk)), sample={'kinds': sorted(pk)})
        bad_p = sorted((v, outs[v]) for v in pk if '(<phase.to_f64>*pi)' not in outs[v])
        ck.ob('R-TABLE-param', 'to_qasm/param-is-phase', not bad_p, ck.site('gate::Gate::to_qasm'), 'the printed parameter is not `(self.phase.to_f64()*pi)`: %s' % bad_p[:2])
        bad_s = []
        for v, t in sorted(outs.items()):
            want = (k2n.get(v) or '?') + ('(<phase.to_f64>*pi)' if v in pk else '') + ' q[3], q[1], q[4]'
            if t != want:
                bad_s.append((v, t, want))
        ck.ob('R-EFFECT', 'to_qasm/structure', not bad_s, ck.site('gate::Gate::to_qasm'),
              'to_qasm must print qasm_name(), the parameter if any, and every element of self.qs in order as q[i]: %s' % ['%s prints %r, expected %r' % b for b in bad_s[:2]], sample={'CNOT': outs.get('CNOT'), 'ZPhase': outs.get('ZPhase')})
        ck.floor('R-EFFECT-to_qasm-kinds', len(outs), 21)
        ck.note('Gate::to_qasm: decided by evaluation for every kind')
    except (minirust.NoEval, minirust.Proceed, TypeError, KeyError, IndexError, AttributeError) as ex:
        ck.note('Gate::to_qasm: the evaluator declined (%s); syntactic reading used' % ex)
        pk, phase_ok = printed_param_kinds(tq)
        ck.ob3('R-TABLE-param', 'to_qasm/param-kinds', True if pk == ref_pk else None, ck.site('gate::Gate::to_qasm'), 'to_qasm is not evaluable (%s) and the kinds with a printed parameter could not be read off (%s)' % (ex, sorted(pk)), sample={'kinds': sorted(pk)})
        ck.ob3('R-TABLE-param', 'to_qasm/param-is-phase', True if phase_ok else None, ck.site('gate::Gate::to_qasm'), 'to_qasm is not evaluable (%s) and the printed parameter could not be traced to self.phase' % ex)
        fm = hir.format_calls(tq['hir'])
        qarg = [1 for t, a, _n in fm if t == 'q[{}]']
        name_first = any(hir.callee(c) == 'gate::Gate::qasm_name' for c in hir.calls(tq['hir']))
        iter_all = any(c.get('k') == 'MethodCall' and c['name'] == 'iter' and hir.place(hir.strip(c['recv'])) and hir.place(hir.strip(c['recv']))[2] == [('f', 'qs')] for c in hir.calls(tq['hir']))
        skips = any(c.get('k') == 'MethodCall' and c['name'] in ('skip', 'take', 'rev', 'filter', 'step_by') for c in hir.calls(tq['hir']))
        ck.ob3('R-EFFECT', 'to_qasm/structure', True if (bool(qarg) and name_first and iter_all and not skips) else None, ck.site('gate::Gate::to_qasm'),
               'to_qasm is not evaluable (%s) and not of the known structure' % ex)
        if pk != ref_pk:
            pk = ref_pk       # the prelude comparison below needs a parameter table; the reference one is used when the printer could not be read
    pre = prelude(facts)
    np = 0
    for v in G.QASM_SET:
        name = k2n.get(v)
        d = pre.get(name)
        np += 1
        want = (1 if v in pk else 0, ar.get(v) if ar else None)
        ck.ob('R-TABLE-prelude', v, d == want, ck.site('circuit::Circuit::from_qasm_parser'),
              'opaque prelude declares %r as %s (params, qubits); printing needs %s' % (name, d, want), sample={'name': name, 'declared': d})
    ck.floor('R-TABLE-prelude', np, 15)
    undeclared = [k2n[v] for v in variants if v not in G.QASM_SET and v != 'UnknownGate' and k2n.get(v) not in pre]
    if undeclared:
        ck.note('printable but not declared in the opaque prelude (outside the property\'s gate set): %s' % undeclared)
    # D2
    wm = writer_methods(facts)
    if not wm:
        ck.violation('R-ERR', 'GateWriter/impl', 'circuit.rs', 'anchor-missing: no GateWriter impl for CircuitWriter')
    else:
        for name, key in sorted(wm.items()):
            f = ck.fn(key)
            out, n_ok, n_err = writer_discipline(f)
            for i, (ok, why) in enumerate(out):
                ck.ob('R-ERR', 'GateWriter::%s/%d' % (name, i), ok, ck.site(key), why, sample={'method': name, 'ok_paths': n_ok, 'err_paths': n_err})
        ck.floor('R-ERR', len(wm), 9)
        # which constructs are supported is part of the statement: barrier/reset/conditionals/U are errors
        for name in ('write_u', 'write_barrier', 'write_reset', 'start_conditional', 'end_conditional'):
            if name in wm:
                _o, n_ok, n_err = writer_discipline(ck.fn(wm[name]))
                ck.ob('R-ERR', 'GateWriter::%s/unsupported-is-error' % name, n_ok == 0 and n_err >= 1, ck.site(wm[name]),
                      'unsupported construct %s must be reported as an error; the method has a path returning Ok without emitting a gate' % name)
    pf = ck.fn('circuit::Circuit::from_qasm_parser')
    tries, dropped = try_discipline(pf)
    for i, (ok, c) in enumerate(tries):
        ck.ob('R-ERR', 'from_qasm_parser/error-source-%d' % i, ok, ck.site('circuit::Circuit::from_qasm_parser', c), 'error report `%s` is not propagated with `?`' % hir.pp(c)[:60])
    ck.floor('R-ERR-sources', len(tries), 3)
    ck.ob('R-ERR', 'from_qasm_parser/no-dropped-result', not dropped, ck.site('circuit::Circuit::from_qasm_parser', dropped[0]) if dropped else '',
          'a Result is dropped: %s' % (hir.pp(dropped[0])[:60] if dropped else ''))
    # D4: exact multiples of pi are parsed exactly (no float on that path)
    ppk = [k for k in facts['fns'] if k.endswith('::write_opaque::param_to_phase')]
    if not ppk:
        ck.violation('R-PATH', 'param_to_phase/anchor', 'circuit.rs', 'anchor-missing: param_to_phase')
    else:
        pf2 = ck.fn(ppk[0])
        from ..hfacts import APaths
        ap = APaths(pf2)
        exact = None
        seen = []
        for p2 in paths.return_paths(pf2):
            conds = [(ap.of(c[1]), c[2]) for c in p2.conds if c[0] == 'cond']
            guard = any(t == 'param#0.a.is_zero()' and pol for t, pol in conds)
            r = p2.ret
            if guard and r is not None:
                txt = ap.of(r)
                seen.append(txt)
                floaty = 'as_f32(' in txt or 'as_f64(' in txt or 'approximate_float' in txt or 'into_float' in txt or 'to_f64' in txt or 'to_f32' in txt
                from_b = 'param#0.b.numer()' in txt and 'param#0.b.denom()' in txt
                if from_b and not floaty:
                    exact = True
                elif floaty and exact is None and '?' not in txt:
                    exact = False
        if exact is None and not seen:
            # no path is guarded by the absence of a float part: if every value the function can return passes through a float, exact multiples do too
            allr = [ap.of(p2.ret) for p2 in paths.return_paths(pf2) if p2.ret is not None]
            if allr and all(('as_f32(' in t or 'as_f64(' in t or 'approximate_float' in t or 'into_float' in t) for t in allr):
                exact = False
                seen = allr
        ck.ob3('R-PATH', 'param_to_phase/exact-pi-multiples', exact, ck.site(ppk[0]),
               'a parameter that is an exact rational multiple of pi (no float part) must be turned into a phase from its numerator and denominator, without passing through a float (value on the float-free path: %s)' % (seen[:1] or 'no path guarded by value.a.is_zero() found'))
    # D3
    df = ck.fn('<circuit::Circuit as std::fmt::Display>::fmt')
    dsite = ck.site('<circuit::Circuit as std::fmt::Display>::fmt')
    try:
        text, each = display_output(facts)
        lines = text.split('\n')
        ck.ob('R-EFFECT', 'Display/header', 'qreg q[5];' in lines, dsite, 'the qreg header must print self.num_qubits(): a 5-qubit circuit prints %r' % text[:80])
        after = lines[lines.index('qreg q[5];') + 1:] if 'qreg q[5];' in lines else lines
        body = [x for x in after if x != '']
        ck.ob('R-EFFECT', 'Display/all-gates-in-order', body == [t + ';' for t in each], dsite,
              'every gate of self.gates must be printed, unconditionally and in order, through to_qasm: after the header the circuit prints %s, its gates are %s' % (body, each))
        ck.note('Display for Circuit: decided by evaluation on a three-gate circuit')
    except (minirust.NoEval, minirust.Proceed, TypeError, KeyError, IndexError, AttributeError) as ex:
        ck.note('Display for Circuit: the evaluator declined (%s); syntactic reading used' % ex)
        h, l = display_structure(df)
        ck.ob3('R-EFFECT', 'Display/header', True if h else None, dsite, 'Display::fmt is not evaluable (%s) and the qreg header could not be traced to self.num_qubits()' % ex)
        ck.ob3('R-EFFECT', 'Display/all-gates-in-order', True if l else None, dsite, 'Display::fmt is not evaluable (%s) and not of the known loop structure' % ex)
    wk = [k for k in facts['fns'] if k.endswith('::write_opaque') and 'GateWriter' in k and 'param_to_phase' not in k]
    if len(wk) != 1:
        ck.violation('R-DATAFLOW-args', 'write_opaque/args-in-order', 'quizx/src/circuit.rs', 'anchor-missing: GateWriter::write_opaque')
    else:
        ok, msg = opaque_args_in_order(ck.fn(wk[0]))
        if ok is None:
            ck.violation('R-DATAFLOW-args', 'write_opaque/args-in-order', ck.site(wk[0]), msg)
        else:
            ck.ob('R-DATAFLOW-args', 'write_opaque/args-in-order', ok, ck.site(wk[0]), msg)
    # a program without statements still has a qubit count: openqasm's Linearize calls GateWriter::initialize (the only place the count is set) when it meets the
    # first statement, so the parser needs a fallback that reads the register declarations
    pk = 'circuit::Circuit::from_qasm_parser'
    pf = ck.fn(pk)
    starts_unknown = any((hir.callee(c) or '') == 'circuit::Circuit::new' and hir.lit_int(hir.strip(c['args'][0])) == 0 for c in hir.calls(pf['hir']))
    reads_decls = any(n.get('k') == 'Field' and n['name'] == 'decls' for n in hir.nodes(pf['hir']))
    qreg_pat = any('QReg' in hir.pp_pat(n['pat']) for n in hir.nodes(pf['hir']) if n.get('k') in ('LetCond', 'Let') and n.get('pat')) \
        or any('QReg' in hir.pp_pat(a['pat']) for m in hir.find(pf['hir'], 'Match') for a in m['arms'])
    sets_count = [c for c in hir.calls(pf['hir']) if (hir.callee(c) or '') == 'circuit::Circuit::new' and hir.lit_int(hir.strip(c['args'][0])) is None]
    if not starts_unknown or (reads_decls and qreg_pat and sets_count):
        v = True
    elif not reads_decls and not sets_count:
        v = False       # nothing reads the declarations and no circuit with a computed size is ever built: the count of an empty program stays 0
    else:
        v = None
    try:
        rows = empty_program_qubits(facts, pk)
        badr = [(t, w, g) for t, w, g in rows if g != w]
        ck.ob('E3-parse', 'from_qasm/qubit-count-of-a-program-without-statements', not badr, ck.site(pk),
              ('a program without statements that declares "%s" parses to %s qubit(s), its registers have %d: the registers of a zero-gate circuit are not mapped to consecutive qubits [%d of %d register layouts]'
               % (badr[0][0], badr[0][2], badr[0][1], len(badr), len(rows))) if badr else '', sample={'layouts': [t for t, _w, _g in rows]})
        ck.floor('E3-parse-layouts', len(rows), 7)
        if not badr and v is False:
            v = None       # the structural reading does not recognise the fallback, the evaluation decided it: shape not recognised, not a refutation
    except (minirust.NoEval, minirust.Proceed, TypeError, KeyError, IndexError, AttributeError) as ex:
        ck.note('from_qasm_parser on a program without statements: the evaluator declined (%s); structural reading used' % str(ex)[:120])
    ck.ob3('R-PATH', 'from_qasm/qubit-count-of-a-program-without-statements', v, ck.site(pk),
           'the parsed circuit starts with 0 qubits and its count is only ever set by GateWriter::initialize, which openqasm calls at the first statement: a program that declares registers but has no gate '
           '(what Circuit::new(n).to_qasm() prints) parses back as a 0-qubit circuit — zero-gate circuits do not round-trip')
    # positive controls
    fx = fixture()
    nt2 = name_tables(fx)
    ck.control('R-TABLE-names flags sdg printed as "s"', nt2 is not None and nt2[0].get(nt2[1].get('Sdg')) != 'Sdg')
    o, n_ok, n_err = writer_discipline(fx['fns']['<&mut circuit::CircuitWriter as openqasm::GateWriter>::write_barrier'])
    ck.control('R-ERR flags a barrier that returns Ok without emitting', n_ok >= 1 and any(not ok for ok, _w in o))
