"""C13 — qgraph JSON: writer/reader field provenance, Hadamard-edge marker, serde attribute pairing, neutral markers."""
import os
import re
from fractions import Fraction as Fr

from .. import hir, extract
from ..controls import fixture

W = R = None   # resolved per run (the impl block lives in json/graph.rs)


def struct_lits(f, ctor_suffix):
    return [n for n in hir.nodes(f['hir']) if n.get('k') == 'Struct' and (n['ctor'].get('path') or '').endswith(ctor_suffix)]


def coord_tables(facts):
    """which VData component each Coord component carries (writer side: GraphLike::coord; reader side: Coord::qubit/row)"""
    cf = facts['fns']['graph::GraphLike::coord']
    new = [c for c in hir.calls(cf['hir']) if hir.callee(c) == 'graph::Coord::new']
    w = None
    if len(new) == 1:
        w = [hir.strip(a)['name'] if hir.strip(a).get('k') == 'Field' else '?' for a in new[0]['args']]     # [x-source, y-source]
    nf = facts['fns']['graph::Coord::new']
    lit = struct_lits(nf, 'graph::Coord')
    order = None
    if lit:
        ps = [p['name'] for p in nf['params'] if p.get('k') == 'Bind']
        d = {fn_: hir.local_name(e) for fn_, e in lit[0]['fields']}
        order = (ps.index(d['x']), ps.index(d['y'])) if d.get('x') in ps and d.get('y') in ps else None
    r = {}
    for m in ('qubit', 'row'):
        f = facts['fns']['graph::Coord::' + m]
        e = hir.strip(hir.stmts_of(f['hir'])[-1])
        r[m] = e['name'] if e.get('k') == 'Field' else '?'
    return w, order, r


def writer_fields(f):
    """provenance of the vertex record fields on the writer side"""
    d = {}
    for n in struct_lits(f, 'json::VertexData'):
        flds = dict(n['fields'])
        if 'typ' in flds and 'value' in flds:
            d['typ'] = hir.pp(flds['typ'])
            d['value'] = hir.pp(flds['value'])
    coords = set()
    for n in struct_lits(f, 'json::VertexAnnotations'):
        flds = dict(n['fields'])
        if 'coord' in flds:
            coords.add(hir.pp(flds['coord']))
        if 'input' in flds:
            d['input'] = hir.pp(flds['input'])
            d['output'] = hir.pp(flds['output'])
    d['coords'] = sorted(coords)
    env = {}
    for n in hir.nodes(f['hir']):
        if n.get('k') == 'Let' and n['pat'].get('k') == 'Bind' and n.get('init') is not None:
            env.setdefault(n['pat']['name'], []).append(hir.pp(n['init']))
    d['env'] = env
    return d


def reader_fields(f):
    d = {'vdata': []}
    for n in struct_lits(f, 'graph::VData'):
        flds = {a: hir.pp(b) for a, b in n['fields']}
        d['vdata'].append(flds)
    d['coord'] = []
    for n in struct_lits(f, 'graph::Coord'):
        d['coord'].append({a: hir.pp(b) for a, b in n['fields']})
    env = {}
    for n in hir.nodes(f['hir']):
        if n.get('k') == 'Let' and n['pat'].get('k') == 'Bind' and n.get('init') is not None:
            env.setdefault(n['pat']['name'], []).append((hir.pp(n['init']), n['pat'].get('ty', '')))
    d['env'] = env
    return d


def phase_default_tables(wf, rf):
    """vertex phase neutral markers: what the writer elides per type vs what the reader assumes when the value is missing"""
    w = None
    for n in struct_lits(wf, 'json::phase::PhaseOptions'):
        flds = dict(n['fields'])
        if 'ignore_value' in flds:
            # inside a per-vertex context?  table type==H -> one, else zero
            m = [x for x in hir.nodes(flds['ignore_value']) if x.get('k') == 'Match']
            if m:
                tbl = {}
                for a in m[0]['arms']:
                    key = hir.pp_pat(a['pat'])
                    val = 'one' if 'one' in hir.pp(a['body']) else ('zero' if 'zero' in hir.pp(a['body']) else '?')
                    tbl[key] = val
                scr = hir.pp(m[0]['scrut'])
                w = {'H': tbl.get('true') if 'VType::H' in scr.replace(' ', '') or '== H' in scr else None, 'other': tbl.get('false')}
            else:
                v = hir.pp(flds['ignore_value'])
                c = 'one' if 'one' in v else ('zero' if 'zero' in v else '?')
                w = {'H': c, 'other': c}
    r = None
    for m in hir.find(rf['hir'], 'Match'):
        sc = hir.strip(m['scrut'])
        if sc.get('k') == 'Tup' and any('typ' in hir.pp(x) for x in sc['items']):
            tbl = {}
            for a in m['arms']:
                p = hir.pp_pat(a['pat'])
                val = 'one' if 'one' in hir.pp(a['body']) else ('zero' if 'zero' in hir.pp(a['body']) else 'given')
                tbl[p] = val
            r = {'H': tbl.get('(None, H)'), 'other': tbl.get('(None, _)')}
    return w, r


def scalar_markers(ef, df):
    """neutral value the exact branch of the encoder writes for the float factor, and whether the decoder's multiply-guard skips it"""
    wrote = None
    for m in hir.find(ef['hir'], 'Match'):
        for a in m['arms']:
            if (hir.pat_ctor(a['pat']) or '').endswith('Some'):
                for n in struct_lits({'hir': a['body']}, 'json::JsonScalar'):
                    flds = dict(n['fields'])
                    if 'floatfactor' in flds:
                        e = hir.strip(flds['floatfactor'])
                        if e.get('k') == 'Lit' and e['v'].startswith('Float('):
                            wrote = float(re.match(r'^Float\("([^"]*)"', e['v']).group(1))
    # decoder guard around the multiplication by Scalar4::from(<the float factor>) (`s *= ..`, `s = s * ..`, `acc * ..`)
    lets = hir.let_env(df)

    def is_ff(e):
        return 'floatfactor' in hir.pp_resolved(e, lets)
    guard = None
    found = False
    pm = hir.parent_map(df['hir'])
    for n in hir.nodes(df['hir']):
        mul = (n.get('k') == 'AssignOp' and n['op'] == 'MulAssign' and is_ff(n['r'])) or (n.get('k') == 'Binary' and n['op'] == 'Mul' and (is_ff(n['r']) or is_ff(n['l'])))
        if mul:
            found = True
            conds = []
            for a, slot in hir.ancestors(n, pm):
                if a.get('k') == 'If' and slot in ('then', 'else'):
                    conds.append((a['cond'], slot == 'then'))
                elif a.get('k') in ('Match', 'Closure', 'For', 'While', 'Loop'):
                    return wrote, None, 'the multiplication by the float factor sits inside a %s: not understood' % a['k']
            if len(conds) == 1:
                guard = conds[0]
            elif conds:
                return wrote, None, 'the multiplication by the float factor is nested in %d conditions: not understood' % len(conds)
            break
    if not found:
        return wrote, None, 'no multiplication by the float factor found: not understood'
    if guard is None:
        return wrote, True, 'no guard: the float factor is always multiplied in'
    guard, positive = guard

    def ev(e, x):
        e = hir.resolve(e, lets)
        k = e.get('k')
        if k == 'Binary' and e['op'] == 'And':
            return ev(e['l'], x) and ev(e['r'], x)
        if k == 'Binary' and e['op'] == 'Or':
            return ev(e['l'], x) or ev(e['r'], x)
        if k == 'Unary' and e['op'] == 'Not':
            return not ev(e['e'], x)
        if k == 'MethodCall' and e['name'] == 'is_zero' and is_ff(e['recv']):
            return x == 0.0
        if k == 'MethodCall' and e['name'] == 'is_one' and is_ff(e['recv']):
            return x == 1.0
        if k == 'Binary' and e['op'] in ('Eq', 'Ne', 'Lt', 'Le', 'Gt', 'Ge'):
            for a, b, flip in ((e['l'], e['r'], False), (e['r'], e['l'], True)):
                r = hir.resolve(b, lets)
                if is_ff(a) and r.get('k') == 'Lit' and r['v'].startswith('Float('):
                    c = float(re.match(r'^Float\("([^"]*)"', r['v']).group(1))
                    op = e['op'] if not flip else {'Lt': 'Gt', 'Le': 'Ge', 'Gt': 'Lt', 'Ge': 'Le'}.get(e['op'], e['op'])
                    return {'Eq': x == c, 'Ne': x != c, 'Lt': x < c, 'Le': x <= c, 'Gt': x > c, 'Ge': x >= c}[op]
        raise ValueError(hir.pp(e)[:40])
    try:
        multiplies = (ev(guard, wrote) == positive) if wrote is not None else None
    except ValueError as ex:
        return wrote, None, 'guard not understood: %s' % ex
    return wrote, multiplies, hir.pp_resolved(guard, lets)


def serde_attrs(path):
    """[(struct, field, set of serde attribute keys)] parsed from the source text (attributes are consumed by the derive and absent from HIR)"""
    src = open(path).read()
    src = src.split('#[cfg(test)]')[0]
    out = []
    cur_struct = None
    attrs = []
    for line in src.splitlines():
        s = line.strip()
        m = re.match(r'^pub (?:struct|enum) (\w+)', s)
        if m:
            cur_struct = m.group(1)
            attrs = []
            continue
        m = re.match(r'^#\[serde\((.*)\)\]$', s)
        if m:
            for part in re.split(r',\s*(?![^()]*\))', m.group(1)):
                attrs.append(part.strip())
            continue
        m = re.match(r'^(?:pub(?:\([a-z]+\))? )?(\w+)\s*:\s*[^;]+,$', s)
        if m and cur_struct and not s.startswith('//'):
            out.append((cur_struct, m.group(1), list(attrs)))
            attrs = []
            continue
        if s.startswith('}'):
            attrs = []
        if s and not s.startswith(('#[', '//', '///')) and not m:
            if not s.startswith(('pub ', 'fn ')):
                pass
    return out


def polar_angle_options(ef):
    """the non-exact (polar) arm of the scalar encoder: how the angle handed to JsonPhase::from_phase is limited.
    Returns ('none' | int | 'unknown', detail).  A finite bound L rounds the angle to a fraction with denominator <= L, i.e. an error of up to
    ~1/(2 L^2) half-turns: anything below ~10^8 is far outside floating-point tolerance."""
    lets = {n['pat']['id']: n['init'] for n in hir.nodes(ef['hir']) if n.get('k') == 'Let' and n['pat'].get('k') == 'Bind' and n.get('init') is not None}

    def field_of(e, name, depth=0):
        e = hir.strip(e)
        if depth > 6:
            return 'unknown'
        l = hir.local(e)
        if l and l[1] in lets:
            return field_of(lets[l[1]], name, depth + 1)
        if e.get('k') == 'Struct':
            for fname, val in e['fields']:
                if fname == name:
                    v = hir.strip(val)
                    if hir.is_ctor_path(v, 'None'):
                        return 'none'
                    a = hir.ctor_call(v, 'Some') if v.get('k') == 'Call' else None
                    if a:
                        li = hir.lit_int(hir.strip(a[0]))
                        return li if li is not None else 'unknown'
                    return 'unknown'
            if e.get('base') is not None:
                b = hir.strip(e['base'])
                if b.get('k') == 'Call' and (hir.callee(b) or '').endswith('Default::default'):
                    return 'default'
                return field_of(b, name, depth + 1)
        if e.get('k') == 'Call' and (hir.callee(e) or '').endswith('Default::default'):
            return 'default'
        return 'unknown'
    # the arm that converts to polar form: the from_phase call whose first argument mentions the polar angle (to_polar / arg / atan2)
    polar = None
    for n in hir.nodes(ef['hir']):
        if n.get('k') == 'Let' and n.get('init') is not None and any(c.get('k') == 'MethodCall' and c['name'] in ('to_polar', 'arg', 'atan2') for c in hir.calls(n['init'])):
            ids = [i for _nm, i in hir.bindings(n['pat'])]
            for c in hir.calls(ef['hir']):
                if (hir.callee(c) or '').endswith('::from_phase') and 'JsonPhase' in (hir.callee(c) or '') and any(hir.local(x) and hir.local(x)[1] in ids for x in hir.nodes(c['args'][0]) if x.get('k') == 'Path'):
                    polar = c
    if polar is None:
        return 'unknown', 'the polar arm (to_polar -> JsonPhase::from_phase(angle / pi, options)) was not found'
    return field_of(polar['args'][1], 'limit_denom'), hir.pp(polar)[:70]


def reader_marker_condition(rf, rp, facts):
    """the reader must treat exactly (typ == H && is_edge) as a virtual Hadamard edge: the condition that guards the insertion into the
    marker table is evaluated for every vertex type and both values of is_edge.  -> (verdict, message)"""
    variants = [v['name'] for v in facts['adts']['graph::VType']['variants']]
    lets = hir.let_env(rf)
    conds = [n for n in hir.nodes(rf['hir']) if n.get('k') == 'If' and 'is_edge' in hir.pp_resolved(n['cond'], lets)]
    if len(conds) != 1:
        return None, 'expected one condition on is_edge in the reader, found %d' % len(conds)

    class U(Exception):
        pass

    def ev(e, ty, ie):
        e = hir.resolve(e, lets)
        k = e.get('k')
        b = hir.lit_bool(e)
        if b is not None:
            return b
        if k == 'Binary' and e['op'] in ('And', 'Or'):
            l = ev(e['l'], ty, ie)
            if e['op'] == 'And':
                return l and ev(e['r'], ty, ie)
            return l or ev(e['r'], ty, ie)
        if k == 'Unary' and e['op'] == 'Not':
            return not ev(e['e'], ty, ie)
        p = rp.of(e)
        if re.match(r'^self\.node_vertices\[\*\]\.1\.data\.is_edge$', p):
            return ie
        if k == 'Binary' and e['op'] in ('Eq', 'Ne'):
            for a, c in ((e['l'], e['r']), (e['r'], e['l'])):
                if re.match(r'^self\.node_vertices\[\*\]\.1\.data\.typ$', rp.of(a)):
                    dp = hir.def_path(hir.resolve(c, lets)) or ''
                    if dp.startswith('graph::VType::'):
                        r = ty == dp.rsplit('::', 1)[1]
                        return r if e['op'] == 'Eq' else not r
        if k == 'Match' and all(hir.lit_bool(hir.strip(a['body'])) is not None and not a.get('guard') for a in e['arms']) and re.match(r'^self\.node_vertices\[\*\]\.1\.data\.typ$', rp.of(e['scrut'])):
            for a in e['arms']:
                pats = a['pat']['sub'] if a['pat'].get('k') == 'Or' else [a['pat']]
                for q in pats:
                    if q.get('k') == 'Wild' or (q.get('k') == 'Path' and (q['res'].get('path') or '').rsplit('::', 1)[-1] == ty):
                        return hir.lit_bool(hir.strip(a['body']))
                    if q.get('k') not in ('Wild', 'Path'):
                        raise U(hir.pp_pat(q))
            raise U('no arm')
        raise U(hir.pp(e)[:40])
    n = conds[0]
    # which branch records the marker: the one that inserts into a map and skips the vertex
    then_marks = any(c.get('k') == 'MethodCall' and c['name'] == 'insert' for c in hir.calls(n['then']))
    else_marks = n.get('else') is not None and any(c.get('k') == 'MethodCall' and c['name'] == 'insert' for c in hir.calls(n['else']))
    if then_marks == else_marks:
        return None, 'which branch of the is_edge condition records the virtual Hadamard node could not be established'
    try:
        table = {(ty, ie): (ev(n['cond'], ty, ie) == then_marks) for ty in variants for ie in (True, False)}
    except U as ex:
        return None, 'condition on is_edge not understood: %s' % ex
    wrong = sorted(k for k, v in table.items() if v != (k == ('H', True)))
    return (not wrong), 'the reader must treat exactly (typ == H && is_edge) as a virtual Hadamard edge; it also / does not treat as one: %s' % wrong[:4]


def reader_refuse(rf, rp):
    """virtual Hadamard nodes are re-fused with ONE smart Hadamard edge between their two recorded neighbours, after establishing that there are exactly two"""
    fuse = [c for c in hir.calls(rf['hir']) if c.get('k') == 'MethodCall' and c['name'] == 'add_edge_smart' and (hir.def_path(hir.resolve(c['args'][2], hir.let_env(rf))) or '').endswith('EType::H')]
    if len(fuse) != 1:
        raw = [c for c in hir.calls(rf['hir']) if c.get('k') == 'MethodCall' and c['name'] in ('add_edge', 'add_edge_with_type') and any((hir.def_path(a) or '').endswith('EType::H') for a in c['args'])]
        return (False if (not fuse and raw) else None), 'expected one add_edge_smart(.., .., EType::H) in the reader, found %d' % len(fuse)
    c = fuse[0]
    a, b = rp.of(c['args'][0]), rp.of(c['args'][1])
    pm = hir.parent_map(rf['hir'])
    # (1) slice pattern of exactly two elements binds the endpoints
    for n in hir.nodes(rf['hir']):
        if n.get('k') in ('Let', 'LetCond') and n.get('init') is not None:
            pt = n['pat']
            while pt.get('k') == 'Ref':
                pt = pt['sub']
            if pt.get('k') == 'Slice' and pt.get('mid') is None and len((pt.get('pre') or []) + (pt.get('post') or [])) == 2:
                ids = set(i for _n, i in hir.bindings(pt))
                used = set(hir.local(hir.strip(x))[1] for x in c['args'][:2] if hir.local(hir.strip(x)))
                if ids and ids == used:
                    return True, ''
    # (2) indexed [0] / [1] of one collection under a length test against 2
    ma, mb = re.match(r'^(.*)\[0\]$', a), re.match(r'^(.*)\[1\]$', b)
    if not (ma and mb and ma.group(1) == mb.group(1)):
        ma, mb = re.match(r'^(.*)\[0\]$', b), re.match(r'^(.*)\[1\]$', a)
    if ma and mb and ma.group(1) == mb.group(1):
        coll = ma.group(1)
        tests = []
        for n in hir.nodes(rf['hir']):
            if n.get('k') == 'Binary' and n['op'] in ('Eq', 'Ne', 'Lt', 'Gt', 'Le', 'Ge'):
                for x, y in ((n['l'], n['r']), (n['r'], n['l'])):
                    if rp.of(x) == coll + '.len()' and hir.lit_int(y) is not None:
                        tests.append((n['op'], hir.lit_int(y)))
            if n.get('k') == 'Match' and rp.of(n['scrut']) == coll + '.len()':
                tests.append(('match', 2))
        if any(op in ('Eq', 'Ne', 'match') and k == 2 for op, k in tests):
            return True, ''
        if not tests:
            return False, 'the two neighbours of a virtual Hadamard node are read as %s[0] and %s[1] without any test of how many there are: a marker with one or three neighbours is silently accepted' % (coll, coll)
        return None, 'the neighbour count of a virtual Hadamard node is tested as %s: not understood' % tests
    return None, 'how the endpoints of the re-fused Hadamard edge (%s, %s) relate to the recorded neighbours was not established' % (a[:50], b[:50])




# ---- the file-level functions on a host model of std::fs (round 3)
class _FS:
    """files as strings; the documented semantics of File::create / File::open / OpenOptions / fs::write / fs::read_to_string"""

    def __init__(self, files):
        self.files = dict(files)


def _file_level(facts, old):
    """write_graph then read_graph interpreted on a host file system whose target file initially holds `old` (None: absent).  serde_json is a host:
    to_writer writes the fixed text ENC at the handle's position, from_reader / from_str accept exactly ENC (serde_json rejects trailing characters).
    -> (content after write_graph, result of read_graph)"""
    from .. import minirust
    ENC = '{"enc":1}'
    PATH = 'g.qgraph'
    fs = _FS({} if old is None else {PATH: old})
    JG = minirust.Obj('JsonGraph', {'to_graph': lambda a: ('Ok', 'GRAPH')}, strict=True)

    class Handle(minirust.Obj):
        def __init__(self, pos, readable=True, writable=True, append=False):
            self.pos, self.readable, self.writable, self.append = pos, readable, writable, append
            minirust.Obj.__init__(self, 'file', {'flush': lambda a: ('Ok', ()), 'sync_all': lambda a: ('Ok', ()), 'sync_data': lambda a: ('Ok', ()),
                                                 'write_all': self._write_all, 'set_len': self._set_len, 'into_inner': lambda a: ('Ok', self), 'by_ref': lambda a: self,
                                                 'get_mut': lambda a: self, 'get_ref': lambda a: self}, strict=True)

        def write(self, text):
            if not self.writable:
                raise minirust.NoEval('write through a read-only handle')
            cur = fs.files.get(PATH, '')
            pos = len(cur) if self.append else self.pos
            fs.files[PATH] = cur[:pos] + text + cur[pos + len(text):]
            self.pos = pos + len(text)

        def _write_all(self, a):
            t = a[0]
            if isinstance(t, list) and all(isinstance(x, int) for x in t):
                t = bytes(t).decode()
            if not isinstance(t, str):
                raise minirust.NoEval('write_all(%r)' % (t,))
            self.write(t)
            return ('Ok', ())

        def _set_len(self, a):
            fs.files[PATH] = fs.files.get(PATH, '')[:a[0]].ljust(a[0], '\0')
            return ('Ok', ())

    class Opts(minirust.Obj):
        def __init__(self):
            self.o = {'read': False, 'write': False, 'append': False, 'truncate': False, 'create': False, 'create_new': False}
            m = {}
            for k in self.o:
                m[k] = (lambda a, _k=k: self._set(_k, a[0]))
            m['open'] = self._open
            minirust.Obj.__init__(self, 'OpenOptions', m, strict=True)

        def _set(self, k, v):
            self.o[k] = bool(v)
            return self

        def _open(self, a):
            o = self.o
            exists = PATH in fs.files
            if not (o['write'] or o['append']) and (o['truncate'] or o['create'] or o['create_new']):
                return ('Err', 'InvalidInput')
            if o['create_new'] and exists:
                return ('Err', 'AlreadyExists')
            if not exists and not (o['create'] or o['create_new']):
                return ('Err', 'NotFound')
            if not exists:
                fs.files[PATH] = ''
            if o['truncate']:
                fs.files[PATH] = ''
            return ('Ok', Handle(0, o['read'], o['write'] or o['append'], o['append']))

    def hc(c, e, args):
        last = c.rsplit('::', 1)[-1]
        if c.endswith('::from_graph') and 'JsonGraph' in c:
            args()
            return ('Ok', JG)
        if c in ('std::fs::File::create', 'std::fs::File::create_new') and len(e['args']) == 1:
            args()
            if last == 'create_new' and PATH in fs.files:
                return ('Err', 'AlreadyExists')
            fs.files[PATH] = ''
            return ('Ok', Handle(0, False, True))
        if c == 'std::fs::File::open' and len(e['args']) == 1:
            args()
            return ('Ok', Handle(0, True, False)) if PATH in fs.files else ('Err', 'NotFound')
        if c in ('std::fs::OpenOptions::new', 'std::fs::File::options'):
            return Opts()
        if c == 'std::fs::write' and len(e['args']) == 2:
            t = args()[1]
            if not isinstance(t, str):
                raise minirust.NoEval('fs::write(%r)' % (t,))
            fs.files[PATH] = t
            return ('Ok', ())
        if c == 'std::fs::read_to_string' and len(e['args']) == 1:
            args()
            return ('Ok', fs.files[PATH]) if PATH in fs.files else ('Err', 'NotFound')
        if c.startswith(('std::io::BufWriter', 'std::io::BufReader', 'std::io::LineWriter')) and last in ('new', 'with_capacity') and e['args']:
            return args()[-1]
        if c.startswith('serde_json::') and last in ('to_writer', 'to_writer_pretty') and len(e['args']) == 2:
            w, v = args()
            if not isinstance(w, Handle) or v is not JG:
                raise minirust.NoEval('serde_json::to_writer(%r, %r)' % (w, v))
            w.write(ENC)
            return ('Ok', ())
        if c.startswith('serde_json::') and last in ('to_string', 'to_string_pretty') and len(e['args']) == 1:
            if args()[0] is not JG:
                raise minirust.NoEval('serde_json::to_string of something else')
            return ('Ok', ENC)
        if c.startswith('serde_json::') and last == 'from_reader' and len(e['args']) == 1:
            r = args()[0]
            if not isinstance(r, Handle) or not r.readable:
                raise minirust.NoEval('serde_json::from_reader(%r)' % (r,))
            return ('Ok', JG) if fs.files.get(PATH, '')[r.pos:].strip() == ENC else ('Err', 'SerdeError(trailing characters / syntax)')
        if c.startswith('serde_json::') and last == 'from_str' and len(e['args']) == 1:
            t = args()[0]
            return ('Ok', JG) if isinstance(t, str) and t.strip() == ENC else ('Err', 'SerdeError')
        if c.startswith(('std::fs::', 'std::io::', 'serde_json::')):
            raise minirust.NoEval('%s is not modelled' % c)
        return NotImplemented

    def run(key, *args):
        it = minirust.Interp(fuel=5000, facts=facts, inline=lambda c: c.startswith('json::') and not c.endswith(('::from_graph', '::to_graph')))
        it.host_call = hc

        def hm(callee, nm, recv, a):
            if isinstance(recv, tuple) and len(recv) == 2 and recv[0] == 'Err' and nm == 'map_err':
                return ('Err', 'JsonError')
            return NotImplemented
        it.host_method = hm
        return it.local_call(key, list(args))
    w = run('json::write_graph', minirust.Obj('graph', {}, strict=True), PATH)
    after = fs.files.get(PATH)
    r = run('json::read_graph', PATH)
    return ENC, w, after, r

def _run_own(ck):
    facts = ck.facts
    ck.decided('D1 field provenance agrees between writer and reader: type, phase, coordinates (through Coord::new / coord() / qubit() / row()), input/output order through an ORDERED map',
               'D2 Hadamard-edge marker: the writer emits typ = H with is_edge = true plus two plain edges to it; the reader recognises exactly that, re-fuses with a smart Hadamard edge and rejects a marker without two neighbours',
               'D3 serde attribute pairing: serialize_with has its deserialize_with; skip_serializing_if = is_default only on fields with serde(default)',
               'D4 the hash back end\'s Serialize/Deserialize delegate to the same JsonGraph conversion',
               'D5 writer and reader agree on the neutral markers: vertex phase elided per type vs assumed when missing; the float factor the exact scalar branch writes is one the decoder does not multiply in',
               'D6 a phase with denominator exactly at the limit is encoded unchanged (encoder guard or limiter exact-hit return)')
    ck.not_decided('phase and scalar string/float encodings (values)', 'isomorphism and tensor equality', 'denominator limiting arithmetic')
    global W, R
    W = hir.inherent_method(facts, 'json::JsonGraph', 'from_graph')
    R = hir.inherent_method(facts, 'json::JsonGraph', 'to_graph')
    if not W or not R:
        raise Exception('JsonGraph::from_graph / to_graph not found (anchor-missing)')
    wf, rf = ck.fn(W), ck.fn(R)
    # ---- D1 (round 2: canonical access paths — independent of the names of locals, of temporaries and of loop spelling)
    from ..hfacts import APaths
    wp, rp = APaths(wf), APaths(rf)

    def v3(ok, *texts):
        """True when the expected source is read; False when a DIFFERENT, fully understood source is read; None when the path is not canonical"""
        if ok:
            return True
        return None if any('?' in t for t in texts) else False
    # writer: the vertex record
    recs = [dict((a, wp.of(b)) for a, b in n['fields']) for n in struct_lits(wf, 'json::VertexData') if 'value' in dict(n['fields'])]
    typ = recs[0].get('typ', '?') if len(recs) == 1 else '?'
    val = recs[0].get('value', '?') if len(recs) == 1 else '?'
    m1 = re.match(r'^param#0\.vertex_type\((.*)\)$', typ)
    m2 = re.match(r'^from_phase\(param#0\.phase\((.*?)\), ', val)
    ok = bool(m1 and m2 and m1.group(1) == m2.group(1))
    ck.ob3('R-DATAFLOW-json', 'writer/type-and-phase', v3(ok, typ, val.split(', PhaseOptions')[0]) if len(recs) == 1 else None, ck.site(W),
           'the vertex record must carry vertex_type(v) as typ and phase(v) as value of the same vertex (typ <- %s, value <- %s)' % (typ, val[:80]), sample={'typ': typ, 'value': val[:120]})
    # reader: the decoded spider
    vd = [dict((a, rp.of(b)) for a, b in n['fields']) for n in struct_lits(rf, 'graph::VData')]
    spiders = [d for d in vd if 'phase' in d]
    if len(spiders) == 1:
        ty, ph = spiders[0].get('ty', '?'), spiders[0]['phase']
        m = re.match(r'^(self\.node_vertices\[\*\]\.1)\.data\.typ$', ty)
        ok = bool(m) and (m.group(1) + '.data.value.to_phase()') in ph
        # the phase path contains closures (error mapping): only the part up to the value access decides
        ck.ob3('R-DATAFLOW-json', 'reader/type-and-phase', v3(ok, ty, '' if 'data.value' in ph or 'data.' not in ph else ph.split('.map_err')[0]), ck.site(R),
               'the decoded vertex must take its type from data.typ and its phase from data.value of the same node record (ty <- %s, phase <- %s)' % (ty, ph[:90]))
    else:
        ck.ob3('R-DATAFLOW-json', 'reader/type-and-phase', None, ck.site(R), 'expected exactly one VData literal with a phase in the reader, found %d' % len(spiders))
    # writer: coordinates
    coords = sorted(set(dict((a, wp.of(b)) for a, b in n['fields']).get('coord', '?') for n in struct_lits(wf, 'json::VertexAnnotations')))
    plain = [c for c in coords if 'avg_coord' not in c]
    okc = bool(plain) and all(re.match(r'^\(param#0\.coord\((.*)\)\.x, param#0\.coord\(\1\)\.y\)$', c) for c in plain)
    ck.ob3('R-DATAFLOW-json', 'writer/coordinates', v3(okc, *plain) if plain else None, ck.site(W), 'coordinates must be written as (coord(v).x, coord(v).y): %s' % plain)
    # reader: coordinates
    own = [d for d in vd if 'avg_coord' not in d.get('qubit', '')]
    pat_q = r'^Coord\{x: (self\.(?:node|wire)_vertices\[\*\]\.1)\.annotation\.coord\.0, y: \1\.annotation\.coord\.1\}\.%s\(\)$'
    okv = len(own) >= 2 and all(re.match(pat_q % 'qubit', d.get('qubit', '')) and re.match(pat_q % 'row', d.get('row', '')) for d in own)
    ck.ob3('R-DATAFLOW-json', 'reader/coordinates', v3(okv, *[d.get('qubit', '?') + d.get('row', '?') for d in own]) if len(own) >= 2 else None, ck.site(R),
           'the reader must rebuild Coord{x: coord.0, y: coord.1} and take qubit()/row() from it: %s' % [(d.get('qubit'), d.get('row')) for d in own])
    cw, order, cr = coord_tables(facts)
    # coord(): Coord::new(a, b) with x <- arg order[0]; writer components [x-source, y-source]
    ok = False
    if cw and order:
        xsrc, ysrc = cw[order[0]], cw[order[1]]
        comp = {'x': xsrc, 'y': ysrc}
        ok = comp.get(cr['qubit']) == 'qubit' and comp.get(cr['row']) == 'row'
    ck.ob3('R-DATAFLOW-json', 'coord-components-agree', (None if (not cw or not order or '?' in cw or '?' in cr.values()) else ok), ck.site('graph::GraphLike::coord'),
           'coord() stores (x <- %s, y <- %s) but Coord::qubit reads .%s and Coord::row reads .%s' % (cw[order[0]] if cw and order else '?', cw[order[1]] if cw and order else '?', cr['qubit'], cr['row']),
           sample={'coord()': str(cw), 'qubit()': cr['qubit'], 'row()': cr['row']})
    # writer: boundary order
    ann = [dict((a, wp.of(b)) for a, b in n['fields']) for n in struct_lits(wf, 'json::VertexAnnotations') if 'input' in dict(n['fields'])]
    if len(ann) == 1:
        gi, go = ann[0]['input'], ann[0].get('output', '?')
        okw = gi.startswith('param#0.inputs().iter().position(') and go.startswith('param#0.outputs().iter().position(')
        ck.ob3('R-DATAFLOW-json', 'writer/io-order', v3(okw, gi.split('(?')[0], go.split('(?')[0]), ck.site(W), 'a boundary must record its position in inputs() / outputs() (input <- %s, output <- %s)' % (gi[:60], go[:60]))
    else:
        ck.ob3('R-DATAFLOW-json', 'writer/io-order', None, ck.site(W), 'expected one boundary annotation literal with input/output, found %d' % len(ann))
    # reader: boundary order restored through an ORDERED map keyed by the recorded position
    io_res = {}
    for nm in ('inputs', 'outputs'):
        st = [c for c in hir.calls(rf['hir']) if c.get('k') == 'MethodCall' and c['name'] == 'set_' + nm]
        if len(st) != 1:
            io_res[nm] = (None, 'set_%s called %d times' % (nm, len(st)))
            continue
        src = rp.of(st[0]['args'][0])
        mm = re.match(r'^(var<([^#]*)>#\d+)\.(into_values|values)\(\)', src)
        if not mm:
            io_res[nm] = (None, 'set_%s(%s): source not recognised' % (nm, src[:70]))
            continue
        var, vty = mm.group(1), mm.group(2)
        if 'BTreeMap' not in vty:
            io_res[nm] = (False if 'HashMap' in vty else None, 'set_%s reads the values of a %s: only an ordered map restores the order' % (nm, vty))
            continue
        ins = [c for c in hir.calls(rf['hir']) if c.get('k') == 'MethodCall' and c['name'] == 'insert' and rp.of(c['recv']) == var]
        keys = sorted(set(rp.of(c['args'][0]) for c in ins))
        want = 'self.wire_vertices[*].1.annotation.%s.some' % nm[:-1]
        io_res[nm] = (v3(keys == [want], *keys) if ins else None, 'the ordered map behind set_%s is keyed by %s, expected %s' % (nm, keys, want))
    verdicts = [v for v, _m in io_res.values()]
    ck.ob3('R-DATAFLOW-json', 'reader/io-order', False if False in verdicts else (None if None in verdicts else True), ck.site(R),
           'inputs and outputs must be restored in index order through an ordered map keyed by annotation.input / annotation.output (a hash map would scramble the order): %s' % [m for _v, m in io_res.values()])
    # ---- D2
    marks = [n for n in struct_lits(wf, 'json::VertexData') if 'is_edge' in dict(n['fields'])]
    if len(marks) == 1:
        mk = dict((a, wp.of(b)) for a, b in marks[0]['fields'])
        ck.ob3('R-TABLE-marker', 'writer/h-edge-marker', v3(mk.get('is_edge') == 'true' and mk.get('typ') == 'H', mk.get('is_edge', '?'), mk.get('typ', '?')), ck.site(W),
               'a Hadamard edge must be written as a node with typ = H and is_edge = true (found typ = %s, is_edge = %s)' % (mk.get('typ'), mk.get('is_edge')))
    else:
        ck.ob3('R-TABLE-marker', 'writer/h-edge-marker', None, ck.site(W), 'expected one marker literal (VertexData with is_edge), found %d' % len(marks))
    v_, m_ = reader_marker_condition(rf, rp, facts)
    ck.ob3('R-TABLE-marker', 'reader/h-edge-marker', v_, ck.site(R), m_)
    v_, m_ = reader_refuse(rf, rp)
    ck.ob3('R-TABLE-marker', 'reader/re-fuses-and-validates', v_, ck.site(R), m_)
    raw = [c for c in hir.calls(rf['hir']) if c.get('k') == 'MethodCall' and c['name'] in ('add_edge', 'add_edge_with_type')]
    ck.ob('R-EDGE', 'reader/smart-insertion-only', not raw, ck.site(R), 'decoded edges come from untrusted input: only add_edge_smart may be used (%d raw insertions)' % len(raw))
    # ---- D3
    path = os.path.join(extract.REPO, 'quizx', 'src', 'json.rs')
    sa = serde_attrs(path)
    n3 = 0
    for st, fld, attrs in sa:
        keys = {a.split('=')[0].strip() for a in attrs}
        if 'serialize_with' in keys:
            n3 += 1
            ck.ob('R-SERDE', '%s.%s/serialize_with-has-deserialize_with' % (st, fld), 'deserialize_with' in keys, 'quizx/src/json.rs (%s.%s)' % (st, fld), 'field is written with a custom serializer but read with the default one')
        if any(a.replace(' ', '') == 'skip_serializing_if="is_default"' for a in attrs):
            n3 += 1
            ck.ob('R-SERDE', '%s.%s/skip-needs-default' % (st, fld), 'default' in keys, 'quizx/src/json.rs (%s.%s)' % (st, fld), 'field is skipped when default but has no #[serde(default)]: decoding a document the writer produced would fail')
    ck.floor('R-SERDE', n3, 12)
    # custom field deserialisers are generic over the Deserializer: they must ask for OWNED data. Deserialising into a borrowed `&str` / `&[u8]` only works
    # when the input can lend it (serde_json::from_str) and fails with `expected a borrowed string` for a reader (read_graph) or an escaped string
    nb = 0
    for key, fn_ in sorted(facts['fns'].items()):
        if not fn_['file'].endswith(('quizx/src/json.rs', 'quizx/src/json/graph.rs', 'quizx/src/json/phase.rs', 'quizx/src/json/scalar.rs')) or fn_.get('macro'):
            continue
        if not any('Deserializer' in (fn_.get('output') or '') or 'Deserializer' in (i or '') for i in [fn_.get('output')] + list(fn_.get('inputs') or [])):
            continue
        for i, c in enumerate(c2 for c2 in hir.calls(fn_['hir']) if (hir.callee(c2) or '').endswith('Deserialize::deserialize')):
            nb += 1
            ty = c.get('ty') or ''
            inner = ty[len('std::result::Result<'):].split(',')[0] if ty.startswith('std::result::Result<') else ty
            borrowed = inner.strip().startswith('&')
            ck.ob('R-SERDE-owned', '%s/deserialize-%d' % (key, i), not borrowed, ck.site(key, c),
                  'a field deserialiser asks for borrowed data (`%s`): serde_json can lend a &str only when parsing an in-memory string without escapes; reading the same document with from_reader (read_graph) '
                  'fails with "invalid type: string, expected a borrowed string" — every file with a Hadamard edge (`"is_edge":"true"`) is unreadable' % inner.strip(), sample={'asks_for': inner.strip()})
    ck.floor('R-SERDE-owned', nb, 2)
    # ---- D4
    for tr, meth, callee in (('serde::Serialize', 'serialize', W), ('serde::Deserialize', 'deserialize', R)):
        key = None
        for im in facts['impls']:
            if im['self'] == 'hash_graph::Graph' and im['trait'] and tr.split('::')[-1] in im['trait'] and not im['derived']:
                for n, k in im['methods']:
                    if n == meth:
                        key = k
        ok = key is not None and len(hir.calls_to(facts['fns'][key]['hir'], callee)) == 1
        ck.ob('R-WHO', 'hash_graph/%s-delegates' % meth, ok, 'hash_graph.rs', 'serde %s of the hash back end must go through JsonGraph (%s)' % (meth, callee))
    # ---- D5
    wt, rt = phase_default_tables(wf, rf)
    ck.ob('R-MARKER', 'vertex-phase-default', wt is not None and wt == rt and wt == {'H': 'one', 'other': 'zero'}, ck.site(W),
          'the writer elides the phase %s but the reader assumes %s when the value is missing (H-boxes default to 1, everything else to 0)' % (wt, rt), sample={'writer': str(wt), 'reader': str(rt)})
    ek = hir.impl_method(facts, 'std::convert::From<&scalar::Scalar4>', 'json::JsonScalar', 'from')
    dk = hir.impl_method(facts, 'std::convert::TryFrom<&json::JsonScalar>', 'scalar::Scalar4', 'try_from')
    if not ek or not dk:
        ck.violation('R-MARKER', 'scalar/anchors', 'json/scalar.rs', 'anchor-missing: scalar encoder/decoder')
    else:
        ck.fn(ek)
        ck.fn(dk)
        wrote, multiplies, guard = scalar_markers(facts['fns'][ek], facts['fns'][dk])
        ck.ob3('R-MARKER', 'scalar/floatfactor-neutral', None if (wrote is None or multiplies is None) else (multiplies is False), ck.site(dk),
              'the exact branch of the encoder writes floatfactor = %s and the decoder (guard `%s`) multiplies it in: a float 1.0 is always flagged approximate, so an exact scalar comes back approximate and no longer compares equal' % (wrote, guard),
              sample={'written': wrote, 'decoder_guard': guard, 'decoder_multiplies': multiplies})
        lim, detail = polar_angle_options(facts['fns'][ek])
        if lim == 'default':
            lim = 256       # PhaseOptions::default().limit_denom (checked below against the ADT default where it matters)
        if lim == 'unknown':
            ck.violation('R-LOSSY', 'scalar/polar-angle-not-rounded', ck.site(ek), 'how the polar arm of the scalar encoder limits the angle could not be established: %s (not-established-by-recognised-idiom)' % detail)
        else:
            ok = lim == 'none' or (isinstance(lim, int) and lim >= 10 ** 8)
            ck.ob('R-LOSSY', 'scalar/polar-angle-not-rounded', ok, ck.site(ek),
                  'a scalar that is not sqrt2^k e^{i k pi/4} is written in polar form and its angle is rounded to a fraction of pi with denominator <= %s: the decoded scalar is off by up to ~1/(2*%s^2) half-turns '
                  '(e.g. 2 + e^{i pi/4}: relative error 4e-5 at 256), which is not floating-point tolerance — the decoded diagram denotes a different linear map' % (lim, lim),
                  sample={'limit_denom_in_polar_arm': str(lim), 'call': detail})
    # D6: encoding never fails on the denominator bound: phases within the bound are written as they are (the limiter is entered only above it,
    # and returns its argument unchanged at the bound: C16-D5)
    fk = hir.inherent_method(facts, 'json::JsonPhase', 'from_phase')
    if fk:
        ff = ck.fn(fk)
        lim = hir.calls_to(ff['hir'], 'phase::utils::limit_denominator')
        ok = False
        if len(lim) == 1:
            from .. import paths
            conds = [hir.pp(x[1]).replace(' ', '') for x in paths.dominating_conds(lim[0], hir.parent_map(ff['hir'])) if x[0] == 'cond' and x[2]]
            ok = any('phase.denom()>limit_denom' in c.replace('*', '').replace('(', '').replace(')', '') or 'denom>limit_denom' in c.replace('*', '').replace('(', '').replace(')', '').replace('phase.', '') for c in conds)
        from .C16 import run as _c16  # noqa: F401  (the exact-hit rule itself lives in C16)
        lf = facts['fns'].get('phase::utils::limit_denominator')
        hit = False
        if lf:
            from .. import paths
            ps = [p for p in lf['params'] if p.get('k') == 'Bind']
            for p2 in paths.return_paths(lf):
                if p2.kind == 'return' and p2.ret is not None and hir.local(p2.ret) and hir.local(p2.ret)[1] == ps[0]['id']:
                    for c in p2.conds:
                        if c[0] == 'cond' and c[2] and hir.strip(c[1]).get('k') == 'Binary' and hir.strip(c[1])['op'] == 'Le' and hir.local_name(hir.strip(c[1])['l']) == 'denom':
                            hit = True
        ck.ob('R-PATH', 'JsonPhase::from_phase/denominator-bound', ok or hit, ck.site(fk),
              'a phase whose denominator equals the bound must be encoded as it is: either the encoder calls the limiter only above the bound, or the limiter returns exact hits unchanged — neither holds, so the bound itself enters the continued-fraction search (which divides by zero on it)')
    # positive control
    fx = fixture()
    w2, m2, g2 = scalar_markers(fx['fns']['json::enc'], fx['fns']['json::dec'])
    ck.control('R-MARKER flags a neutral marker the reader does not treat as neutral', m2 is True)


def _file_rules(ck):
    """write_graph / read_graph: whatever the target file held before, after write_graph it holds exactly the encoding and read_graph decodes it"""
    from .. import minirust
    facts = ck.facts
    if not (ck.has_fn('json::write_graph') and ck.has_fn('json::read_graph')):
        ck.violation('E3-file', 'write_graph', 'quizx/src/json.rs', 'anchor-missing: json::write_graph / json::read_graph')
        return
    site = ck.site('json::write_graph')
    cases = [('the file does not exist', None), ('the file holds a LONGER encoding (a larger diagram saved earlier under the same name)', '{"enc":1,"older":"xxxxxxxxxxxxxxxxxxxxxxxx"}'),
             ('the file holds a shorter text', '{}'), ('the file is empty', '')]
    n = 0
    try:
        bad = []
        for name, old in cases:
            try:
                enc, w, after, r = _file_level(facts, old)
            except minirust.Panics as ex:
                bad.append('%s: panics (%s)' % (name, ex))
                continue
            n += 1
            if not (isinstance(w, tuple) and w[0] == 'Ok'):
                bad.append('%s: write_graph returns %r' % (name, w))
            elif after != enc:
                bad.append('%s: after write_graph the file holds %r, the encoding is %r' % (name, after, enc))
            elif not (isinstance(r, tuple) and r[0] == 'Ok' and r[1] == 'GRAPH'):
                bad.append('%s: read_graph of the file just written returns %r' % (name, r))
        ck.ob('E3-file', 'write_graph-then-read_graph/the-file-holds-exactly-the-encoding', not bad, site, '; '.join(bad)[:600], sample={'cases': [c[0] for c in cases]})
        ck.floor('E3-file-cases', n, 4)
    except (minirust.NoEval, minirust.Proceed, TypeError, KeyError, IndexError, AttributeError) as ex:
        ck.ob3('E3-file', 'write_graph-then-read_graph/the-file-holds-exactly-the-encoding', None, site, 'the file-level functions are not evaluable on the host file system (%s: %s)' % (type(ex).__name__, str(ex)[:160]))


def _scalar_roundtrip(ck):
    """the scalar clause of the statement by evaluation: JsonScalar::from(&Scalar4) and Scalar4::try_from(&JsonScalar) interpreted (json/scalar.rs,
    json/phase.rs, scalar.rs, dyadic.rs, phase.rs; Rational64 a host) on every sqrt2^p * e^{i k pi/4} for p over the whole exponent range that large
    simplified circuits reach, and on scalars that are not of that form"""
    import cmath
    from .. import minirust
    from . import C07
    facts = ck.facts
    S4, DY = C07.S4, C07.DY
    ENC = 'json::scalar::<impl std::convert::From<&scalar::Scalar4> for json::JsonScalar>::from'
    DEC = 'json::scalar::<impl std::convert::TryFrom<&json::JsonScalar> for scalar::Scalar4>::try_from'
    ISONE = '<%s as num::One>::is_one' % S4
    site = ck.site(ENC) if ck.has_fn(ENC) else 'quizx/src/json/scalar.rs'
    if not (ck.has_fn(ENC) and ck.has_fn(DEC)):
        ck.violation('E3-scalar-json', 'round-trip', site, 'anchor-missing: the JsonScalar conversions')
        return

    def interp():
        it = C07._s4_interp(facts)
        it.inline = lambda c: c.startswith(('scalar::', '<scalar::', '<&scalar::', 'scalar_traits::', 'json::', '<json::'))
        base = it.host_call

        def hc(c, e, args):
            if c.rsplit('::', 1)[-1] in ('from_i64', 'from_u64', 'from_i32') and 'Option<' in (e.get('ty') or '') and 'Ratio' in (e.get('ty') or '') and len(e['args']) == 1:
                a = args()
                if isinstance(a[0], int) and not isinstance(a[0], bool):
                    from .. import circsem as cs
                    return minirust.some(cs.Ph(a[0]))
            return base(c, e, args)
        it.host_call = hc
        hm0 = it.host_method

        def hm(callee, nm, recv, args):
            import math
            if isinstance(recv, dict) and recv.get('__struct__') == 'num::Complex' and all(isinstance(recv.get(k_), float) for k_ in ('re', 'im')):
                if nm == 'to_polar':
                    return (math.hypot(recv['re'], recv['im']), math.atan2(recv['im'], recv['re']))
                if nm == 'norm':
                    return math.hypot(recv['re'], recv['im'])
                if nm == 'arg':
                    return math.atan2(recv['im'], recv['re'])
            return hm0(callee, nm, recv, args)
        it.host_method = hm
        return it

    def mk(co):
        return {'__struct__': S4, '0': [C07._dy_call(facts, DY + '::new', [v, e if v else 0]) for v, e in co]}

    def unit(k, p_):
        om = list(C07._s4_omega_pow(k))
        if p_ % 2 == 0:
            return mk([(c, p_ // 2) for c in om])
        return mk([(c, (p_ - 1) // 2) for c in C07._s4_mul(tuple(om), (0, 1, 0, -1))])
    try:
        bad_exact, bad_marker, bad_float, n = [], [], [], 0
        float_declined = None
        for p_ in (-3001, -2400, -1075, -1022, -64, -3, -1, 0, 1, 2, 5, 63, 64, 1023, 1024, 2177, 3001):
            for k in range(8):
                s_ = unit(k, p_)
                what = 'sqrt2^%d * e^(i pi %d/4)' % (p_, k)
                n += 1
                try:
                    one = interp().local_call(ISONE, [minirust.deep_clone(s_)])
                    if one is not (k == 0 and p_ == 0):
                        bad_marker.append('is_one(%s) answers %s: from_graph leaves the scalar out exactly when it is one' % (what, one))
                    enc = interp().local_call(ENC, [minirust.deep_clone(s_)])
                    dec = interp().local_call(DEC, [enc])
                except minirust.Panics as ex:
                    bad_exact.append('%s: encoding / decoding panics (%s)' % (what, ex))
                    continue
                if not (isinstance(dec, tuple) and dec[0] == 'Ok'):
                    bad_exact.append('%s: decoding the encoded scalar fails with %r' % (what, dec))
                elif C07._s4_value(dec[1]) != C07._s4_value(s_) or any(d['flags'] & 2 for d in dec[1]['0']):
                    bad_exact.append('%s comes back as %s%s' % (what, C07._s4_value(dec[1]), ' flagged approximate' if any(d['flags'] & 2 for d in dec[1]['0']) else ''))
        w = cmath.exp(1j * cmath.pi / 4)

        def cval(s4):
            return sum(complex(float(c)) * w ** i for i, c in enumerate(C07._s4_value(s4)))
        for co in ([(2, 0), (1, 0), (0, 0), (0, 0)], [(3, 0), (0, 0), (-1, 0), (0, 0)], [(1, -2), (1, -2), (1, -2), (1, -2)], [(5, -3), (-3, 1), (0, 0), (7, 0)], [(0, 0), (0, 0), (0, 0), (0, 0)],
                   [(-7, 3), (0, 0), (0, 0), (1, 0)], [(1, 40), (0, 0), (3, 38), (0, 0)], [(1, -40), (1, -41), (0, 0), (0, 0)], [(0, 0), (0, 0), (0, 0), (-3, 0)]):
            s_ = mk(co)
            try:
                enc = interp().local_call(ENC, [minirust.deep_clone(s_)])
                dec = interp().local_call(DEC, [enc])
                n += 1
            except minirust.Panics as ex:
                bad_float.append('the scalar with coefficients %s: encoding / decoding panics (%s)' % (co, ex))
                continue
            except (minirust.NoEval, minirust.Proceed) as ex:
                float_declined = str(ex)[:100]        # (the polar branch goes through the float -> Phase conversion of the external num crate: not modelled)
                break
            if not (isinstance(dec, tuple) and dec[0] == 'Ok'):
                bad_float.append('the scalar with coefficients %s: decoding fails with %r' % (co, dec))
                continue
            z0, z1 = cval(s_), cval(dec[1])
            if abs(z0 - z1) > 1e-9 * max(1e-300, abs(z0)) and not (z0 == 0 and z1 == 0):
                bad_float.append('the scalar %s comes back as %s' % (z0, z1))
        ck.ob('E3-scalar-json', 'exact-forms-round-trip-exactly', not bad_exact, site, ('; '.join(bad_exact[:2]) + ' [%d cases]' % len(bad_exact)) if bad_exact else '', sample={'scalars': n})
        ck.ob('E3-scalar-json', 'the-one-marker', not bad_marker, ck.site(ISONE) if ck.has_fn(ISONE) else site, ('; '.join(bad_marker[:2]) + ' [%d cases]' % len(bad_marker)) if bad_marker else '')
        if float_declined is None:
            ck.ob('E3-scalar-json', 'other-scalars-round-trip-to-1e-9', not bad_float, site, ('; '.join(bad_float[:2]) + ' [%d cases]' % len(bad_float)) if bad_float else '')
        else:
            ck.note('E3-scalar-json: the polar (floating-point) branch of the scalar encoder is not evaluated (%s); decided structurally by R-LOSSY / R-MARKER' % float_declined)
        ck.floor('E3-scalar-json-scalars', n, 136)
    except (minirust.NoEval, minirust.Proceed, TypeError, KeyError, IndexError, AttributeError, ValueError) as ex:
        ck.ob3('E3-scalar-json', 'round-trip', None, site, 'the scalar conversions are not evaluable (%s: %s)' % (type(ex).__name__, str(ex)[:160]))


def run(ck, **kw):
    _run_own(ck)
    _file_rules(ck)
    _scalar_roundtrip(ck)
    ck.include('C09', 'the decoder rebuilds the graph with named vertex insertion and edge insertion of the back ends (hash_graph.rs is anchored here too)')
