"""C01 — simplification preserves the linear map.

D1 every unchecked application is justified (R-GUARD), D2 the inline matchers of fuse_gadgets /
remove_gadget_pi meet the gadget contract, D3 rule bodies conform to the rule schemas (R-EFFECT),
D4 edge-insertion discipline (R-EDGE).
"""
import os
import sys

from .. import hir, rmatch, redge, paths
from ..rmatch import Z, X, B, H, N, V, W, has, closure_lits, dnf, thaw_formula, Blowup
from ..controls import fixture

sys.path.insert(0, os.path.dirname(os.path.dirname(os.path.dirname(os.path.abspath(__file__)))))
from refs import rules_req as R  # noqa: E402

GL = 'graph::GraphLike::'

# rule-inside-rule calls: named exceptions, each with its compensating argument (DESIGN 5/C01-D1)
INNER_CALLS = {
    ('basic_rules::gen_pivot_unchecked', 'basic_rules::pivot_unchecked'):
        'the unfusing steps before the call (unfuse_gadget on both vertices, unfuse_boundary on every neighbour) turn the generalised match into an interior Pauli one',
    ('basic_rules::boundary_local_comp_unchecked', 'basic_rules::local_comp_unchecked'):
        'unfuse_boundary on every neighbour makes v0 interior; the second local complementation sees the Pauli phase +-pi/2 that the first one produced on v1',
    ('basic_rules::remove_duplicate_unchecked', 'basic_rules::remove_single_unchecked'):
        'duplicate removal reuses remove_single for its 1+e^{ia} scalar and the deletion and pays sqrt2^-d for the legs',
}


def unchecked_sites(facts):
    """every call of a `*_unchecked` rule in the lib: [(caller key, call node, callee)]"""
    out = []
    for key, f in facts['fns'].items():
        for c in hir.calls(f['hir']):
            cal = hir.callee(c) or ''
            if cal.startswith('basic_rules::') and cal.endswith('_unchecked') and c.get('k') == 'Call':
                out.append((key, c, cal))
    return out


def guard_of(facts, key, call, pm):
    """the matcher call that dominates `call` with the same vertex arguments, and whether the graph is mutated in between"""
    f = facts['fns'][key]
    args = call['args']
    for cond in paths.dominating_conds(call, pm):
        if cond[0] != 'cond' or not cond[2]:
            continue
        e = hir.strip(cond[1])
        if e.get('k') == 'Call' and (hir.callee(e) or '') in facts['fns'] and facts['fns'][hir.callee(e)]['output'] == 'bool':
            if len(e['args']) == len(args) and all(hir.same_expr(x, y) for x, y in zip(e['args'], args)):
                return hir.callee(e), e
    return None, None


def mutated_between(f, guard_node, call, pm):
    """is there a call taking the graph mutably between the guard and the rule application (same block sequence)?"""
    # statements of the block that contains `call`, before it
    cur = call
    while id(cur) in pm:
        par, slot = pm[id(cur)]
        if par.get('k') == 'Block':
            st = par['stmts'] + ([par['expr']] if par['expr'] is not None else [])
            idx = [i for i, s in enumerate(st) if s is cur]
            if idx:
                for s in st[:idx[0]]:
                    if any(n is guard_node for n in hir.nodes(s)):
                        # statements after the guard statement and before the call
                        j = st.index(s)
                        for t in st[j + 1:idx[0]]:
                            for n in hir.nodes(t):
                                if n.get('mutborrow') and hir.local_name(n) == 'g':
                                    return True
                        return False
        if any(n is guard_node for n in hir.nodes(par.get('cond', {}))) if par.get('k') == 'If' else False:
            # guard is the condition of the enclosing if: statements of the branch before the call
            br = par['then']
            st = hir.stmts_of(br)
            for t in st:
                if t is cur or any(n is call for n in hir.nodes(t)):
                    break
                for n in hir.nodes(t):
                    if n.get('mutborrow') and hir.local_name(n) == 'g':
                        return True
            return False
        cur = par
    return False


def contract_holds(facts, matcher, rule):
    """does `matcher` establish the contract of `rule` on all its accepting paths?"""
    ckey = R.RULE_CONTRACT.get(rule)
    contract = R.CONTRACTS.get(ckey)
    if contract is None:
        return None, ['no contract for %s' % rule]
    eng = rmatch.Engine(facts)
    f, ds, cx = eng.matcher(matcher)
    if ds is None:
        return False, ['matcher too large']
    closed = [closure_lits(d) for d in ds]
    # the contract is written over the vertex parameter names of its canonical matcher: rename positionally
    def vparams(k):
        fn = facts['fns'][k]
        return [p['name'] for p, t in zip(fn['params'], fn['inputs']) if t == 'usize' and p.get('k') == 'Bind']
    act, canon = vparams(matcher), vparams(ckey) if ckey in facts['fns'] else vparams(matcher)
    if act != canon and len(act) == len(canon):
        ren = dict(zip(act, canon))

        def rn(x):
            if isinstance(x, tuple):
                if len(x) == 2 and x[0] == 'var' and x[1] in ren:
                    return ('var', ren[x[1]])
                return tuple(rn(i) for i in x)
            return x
        closed = [closure_lits({rn(l) for l in fs}) for fs in closed]
    missing = [name for name, pred in contract if not all(pred(fs) for fs in closed)]
    if missing:
        # refuted only where the engine understood the accepting paths on which a conjunct is missing
        for name, pred in contract:
            if name in missing:
                for i, fs in enumerate(closed):
                    if not pred(fs) and rmatch.foreign_atoms(ds[i]):
                        return None, missing
    return not missing, missing


# ---------------------------------------------------------------- D2 gadget matchers

def fuse_gadgets_point(facts, key='simplify::fuse_gadgets'):
    """facts at the point where a (centre, leaf) pair is recorded"""
    eng = rmatch.Engine(facts)

    def is_record(s):
        s = hir.strip(s)
        if s.get('k') == 'MethodCall' and s['name'] in ('push', 'insert'):
            # gs.push((w, v)) / gadgets.insert(nhd, vec![(w, v)])
            tups = [n for n in hir.nodes(s) if n.get('k') == 'Tup' and len(n['items']) == 2 and all(hir.local(i) for i in n['items'])]
            return bool(tups) and hir.local_name(s['recv']) in ('gs', 'gadgets')
        return False
    ds, cx = eng.facts_at(key, is_record)
    return ds, cx


LEAF = V('v')
CENTRE = ('first_nbr', V('v'))


def gadget_contract():
    def ety(fs, t):
        return any(has(fs, ('etype', a, b, t)) for a, b in ((LEAF, CENTRE), (CENTRE, LEAF)))

    def forall_centre(fs):
        for (pol, a) in fs:
            if pol and a[0] == 'forall' and a[1] == ('inc', CENTRE):
                try:
                    ds = dnf(thaw_formula(a[2]))
                except Blowup:
                    continue
                if all(rmatch.w_zh(closure_lits(d)) for d in ds):
                    return True
        return False
    return [
        ('leaf deg=1', lambda fs: has(fs, ('deg', LEAF, 1))),
        ('leaf ty=Z', lambda fs: has(fs, ('ty', LEAF, Z))),
        ('etype(leaf,centre)=H', lambda fs: ety(fs, H)),
        ('centre ty=Z', lambda fs: has(fs, ('ty', CENTRE, Z))),
        ('centre phase zero', lambda fs: has(fs, ('phase', CENTRE, 'zero'))),
        ('centre vars empty', lambda fs: has(fs, ('vars_empty', CENTRE))),
        ('every leg of the centre is a Hadamard edge to a Z spider (a non-conforming leg rejects the gadget)', forall_centre),
    ]


def gadget_pi_filters(facts, key='simplify::remove_gadget_pi'):
    """the filter chain that selects the leaves pi_copy_unchecked is applied to: conjunct atoms of both filters"""
    f = facts['fns'][key]
    eng = rmatch.Engine(facts)
    atoms = set()
    for c in hir.calls(f['hir']):
        if c.get('k') == 'MethodCall' and c['name'] == 'filter' and c['args'] and hir.strip(c['args'][0]).get('k') == 'Closure':
            cl = hir.strip(c['args'][0])
            cx = rmatch.Ctx(eng, key, {}, set())
            p = cl['params'][0]
            ids = hir.bindings(p)
            if len(ids) == 1:
                eng.bind_pat(p, V('leaf'), cx)
            elif len(ids) == 2:
                eng.bind_pat(p, ('tuple', [V('centre'), V('leaf')]), cx)
            fm = eng.boolexpr(cl['body'], cx, {(True, ('exists', V('leaf'))), (True, ('exists', V('centre')))})
            atoms |= closure_lits(rmatch.must(fm))
    # the map step pairs (first neighbour of leaf, leaf)
    maps = [c for c in hir.calls(f['hir']) if c.get('k') == 'MethodCall' and c['name'] == 'map']
    pair_ok = False
    for m in maps:
        cl = hir.strip(m['args'][0])
        if cl.get('k') == 'Closure':
            b = hir.strip(cl['body'])
            if b.get('k') == 'Tup' and len(b['items']) == 2:
                first = hir.strip(b['items'][0])
                pair_ok = first.get('k') == 'MethodCall' and first['name'] in ('unwrap', 'expect') and hir.local(b['items'][1]) is not None
    applied = [c for c in hir.calls(f['hir']) if hir.callee(c) == 'basic_rules::pi_copy_unchecked']
    return atoms, pair_ok, applied


def gadget_pi_point(facts, key='simplify::remove_gadget_pi'):
    """the loop form of the selection: must-facts at the point where `map.insert(centre, leaf)` records a pair, renamed to the filter-chain vocabulary
    (leaf / centre).  -> (atoms, pair_ok)"""
    eng = rmatch.Engine(facts)
    rec = []

    def is_record(s_):
        s_ = hir.strip(s_)
        ok = s_.get('k') == 'MethodCall' and s_['name'] == 'insert' and len(s_['args']) == 2 and all(hir.local(a) for a in s_['args'])
        if ok:
            rec.append(s_)
        return ok
    ds, cx = eng.facts_at(key, is_record)
    if not ds or not rec:
        return set(), False
    leaf_name = hir.local(rec[0]['args'][1])[0]
    leaf, centre = V(leaf_name), ('first_nbr', V(leaf_name))

    def ren(t):
        if t == leaf:
            return V('leaf')
        if t == centre:
            return V('centre')
        if isinstance(t, tuple):
            return tuple(ren(x) for x in t)
        return t
    common = None
    for d in ds:
        lits = set((pol, ren(a)) for pol, a in closure_lits(d))
        common = lits if common is None else (common & lits)
    # the first argument of insert must be the leaf's first neighbour
    try:
        pair_ok = eng.term(rec[0]['args'][0], cx, set()) == centre
    except Exception:
        pair_ok = False
    return common or set(), pair_ok


def fuse_effect(facts, key='simplify::fuse_gadgets'):
    """the fusion loop of fuse_gadgets: for a group of `num` gadgets on the same `degree` targets, all but the first are removed (hub and leaf), the sum of
    their leaf phases is added to the leaf of the first, and the scalar gets sqrt2^(-(num-1)(degree-1)).  [(slot, ok, msg)]"""
    from ..reffect import Poly
    f = facts['fns'][key]
    res = []
    # the group loop: a For over `gadgets` (map iteration) whose body applies the fusion
    grp = None
    for n in hir.find(f['hir'], 'For'):
        if any(c.get('k') == 'MethodCall' and c['name'] == 'mul_sqrt2_pow' for c in hir.calls(n['body'])):
            grp = n
    if grp is None or grp['pat'].get('k') != 'Tuple' or len(grp['pat']['sub']) != 2:
        return [('shape', None, 'the loop that fuses each group of gadgets `for (targets, gadgets) in ..` was not found (not-established-by-recognised-idiom)')]
    key_id = hir.bindings(grp['pat']['sub'][0])[0][1]
    val_id = hir.bindings(grp['pat']['sub'][1])[0][1]
    lets = {n['pat']['id']: n for n in hir.nodes(grp['body']) if n.get('k') == 'Let' and n['pat'].get('k') == 'Bind' and n.get('init') is not None}

    def len_of(e):
        e = hir.strip(e)
        while e.get('k') == 'Cast':
            e = hir.strip(e['e'])
        if e.get('k') == 'MethodCall' and e['name'] == 'len' and hir.local(e['recv']):
            return hir.local(e['recv'])[1]
        return None

    def poly(e):
        e = hir.strip(e)
        while e.get('k') == 'Cast':
            e = hir.strip(e['e'])
        v = hir.lit_int(e)
        if v is not None:
            return Poly.const(v)
        l = hir.local(e)
        if l and l[1] in lets:
            src = len_of(lets[l[1]]['init'])
            if src == val_id:
                return Poly.sym('num')
            if src == key_id:
                return Poly.sym('degree')
            return poly(lets[l[1]]['init'])
        src = len_of(e)
        if src == val_id:
            return Poly.sym('num')
        if src == key_id:
            return Poly.sym('degree')
        if e.get('k') == 'Unary' and e['op'] == 'Neg':
            return -poly(e['e'])
        if e.get('k') == 'Binary' and e['op'] in ('Add', 'Sub', 'Mul'):
            a, b = poly(e['l']), poly(e['r'])
            return a + b if e['op'] == 'Add' else (a - b if e['op'] == 'Sub' else a * b)
        raise ValueError(hir.pp(e)[:40])
    sc = [c for c in hir.calls(grp['body']) if c.get('k') == 'MethodCall' and c['name'] == 'mul_sqrt2_pow']
    try:
        got = poly(sc[0]['args'][0]) if len(sc) == 1 else None
    except ValueError as ex:
        got = None
        res.append(('scalar-exponent', None, 'the sqrt2 exponent `%s` is not a polynomial in the group size and the number of targets (not-established-by-recognised-idiom)' % ex))
    want = -(Poly.sym('num') - Poly.const(1)) * (Poly.sym('degree') - Poly.const(1))
    if got is not None:
        res.append(('scalar-exponent', got == want, 'fusing num gadgets on degree common targets multiplies the scalar by sqrt2^(-(num-1)(degree-1)) — one factor per removed gadget; the code uses exponent %s (for num = 2 the two agree, for larger groups they do not)' % got))
    # inner loop over the fused gadgets
    inner = [n for n in hir.find(grp['body'], 'For')]
    if len(inner) != 1:
        res.append(('inner-loop', None, 'expected one loop over the gadgets that are fused away, found %d' % len(inner)))
        return res
    inner = inner[0]
    it = hir.strip(inner['iter'])
    names = []
    while it.get('k') == 'MethodCall':
        names.append((it['name'], it['args']))
        it = hir.strip(it['recv'])
    skip = [a for nm, a in names if nm == 'skip']
    src_ok = None
    if hir.local(it) and hir.local(it)[1] == val_id:
        src_ok = len(skip) == 1 and hir.lit_int(hir.strip(skip[0][0])) == 1          # gs.iter().skip(1)
    elif it.get('k') == 'Index' and hir.local(hir.strip(it['e'])) and hir.local(hir.strip(it['e']))[1] == val_id:
        rb = hir.range_bounds(it['i'])
        src_ok = bool(rb and rb[1] is None and hir.lit_int(hir.strip(rb[0])) == 1) if rb else None      # &gs[1..]
    res.append(('all-but-first', src_ok, 'the gadgets fused away must be all of the group except the first (`gs.iter().skip(1)` / `&gs[1..]`)'))
    ivars = [i for _n, i in hir.bindings(inner['pat'])]
    rem = [c for c in hir.calls(inner['body']) if c.get('k') == 'MethodCall' and c['name'] == 'remove_vertex']
    removed = {hir.local(c['args'][0])[1] for c in rem if hir.local(c['args'][0])}
    res.append(('removes-hub-and-leaf', len(ivars) == 2 and removed == set(ivars), 'each fused gadget must be removed entirely (hub and leaf)'))
    # phase accumulator: declared zero, folded with += g.phase(leaf) for every fused gadget, then added to the first leaf
    add = [c for c in hir.calls(grp['body']) if c.get('k') == 'MethodCall' and c['name'] == 'add_to_phase' and not any(x is c for x in hir.nodes(inner))]
    acc_ok = False
    msg = 'the phases of the fused leaves must be summed (`ph += g.phase(v)`) and the sum added to the leaf of the first gadget'
    if len(add) == 1 and hir.local(add[0]['args'][1]):
        acc = hir.local(add[0]['args'][1])[1]
        tgt = hir.strip(add[0]['args'][0])
        tl_ = hir.local(tgt)
        tuple_first_leaf = None
        if tl_ and tl_[1] in lets:
            tgt = hir.strip(lets[tl_[1]]['init'])          # let first_leaf = gs[0].1;
        elif tl_:
            # let (_, keep) = gs[0];
            for n_ in hir.nodes(grp['body']):
                if n_.get('k') == 'Let' and n_.get('init') is not None and n_['pat'].get('k') == 'Tuple' and len(n_['pat']['sub']) == 2:
                    b1 = [i for _nm, i in hir.bindings(n_['pat']['sub'][1])]
                    b0 = [i for _nm, i in hir.bindings(n_['pat']['sub'][0])]
                    i0 = hir.strip(n_['init'])
                    is_first = i0.get('k') == 'Index' and hir.lit_int(hir.strip(i0['i'])) == 0 and hir.local(hir.strip(i0['e'])) and hir.local(hir.strip(i0['e']))[1] == val_id
                    if tl_[1] in b1:
                        tuple_first_leaf = bool(is_first)
                    elif tl_[1] in b0:
                        tuple_first_leaf = False
        first_leaf = tgt.get('k') == 'Field' and tgt['name'] == '1' and hir.strip(tgt['e']).get('k') == 'Index' and hir.lit_int(hir.strip(hir.strip(tgt['e'])['i'])) == 0 and hir.local(hir.strip(tgt['e'])['e']) and hir.local(hir.strip(tgt['e'])['e'])[1] == val_id
        init_zero = acc in lets and (hir.callee(hir.strip(lets[acc]['init'])) or '').endswith('zero')
        ups = [n for n in hir.nodes(inner['body']) if n.get('k') in ('Assign', 'AssignOp') and hir.local(n['l']) and hir.local(n['l'])[1] == acc]
        fold = False
        if len(ups) == 1:
            u = ups[0]
            rhs_phase = [c for c in hir.calls(u['r']) if c.get('k') == 'MethodCall' and c['name'] == 'phase' and hir.local(c['args'][0]) and len(ivars) == 2 and hir.local(c['args'][0])[1] == ivars[1]]
            if u['k'] == 'AssignOp' and u['op'] == 'AddAssign':
                fold = bool(rhs_phase)
            elif u['k'] == 'Assign':
                uses_old = any(hir.local(x) and hir.local(x)[1] == acc for x in hir.nodes(u['r']) if x.get('k') == 'Path')
                fold = bool(rhs_phase) and uses_old and hir.strip(u['r']).get('k') == 'Binary' and hir.strip(u['r'])['op'] == 'Add'
                if rhs_phase and not uses_old:
                    msg = 'the accumulator is overwritten (`ph = g.phase(v)`) instead of summed: with three or more gadgets in a group the phases of the middle ones are dropped while their vertices are removed'
        if tuple_first_leaf is not None:
            first_leaf = tuple_first_leaf
        acc_ok = bool(first_leaf and init_zero and fold)
        if not acc_ok and not first_leaf and tuple_first_leaf is None and hir.local(hir.strip(add[0]['args'][0])) and hir.local(hir.strip(add[0]['args'][0]))[1] not in lets:
            acc_ok = None       # the vertex that receives the sum is named in a way the rule does not follow
    elif not add:
        acc_ok = None
    res.append(('phase-sum', acc_ok, msg))
    return res


def run(ck, parts=None):
    facts = ck.facts
    parts = set(parts or ('D1', 'D2', 'D3', 'D4'))
    ck.decided('D1 every call of an *_unchecked rule is justified: checked wrappers (C04), sweep macro instances guarded by a matcher that establishes the rule\'s contract with the same arguments and no graph mutation in between, named rule-inside-rule exceptions',
               'D2 the inline matcher of fuse_gadgets establishes the phase-gadget contract at the point where a gadget is recorded (a non-conforming leg must reject, not be skipped); the filter chain of remove_gadget_pi establishes what pi-copy needs',
               'D3 rule bodies conform to the rule schemas (effects on phases, edges, vertices; sqrt2 exponents; phase factors) — see R-EFFECT obligations',
               'D4 edge-insertion discipline: raw add_edge/add_edge_with_type only to fresh vertices or under a not-connected test in basic_rules.rs, simplify.rs, graph.rs')
    ck.not_decided('that the schemas themselves are true ZX identities (trusted base)', 'soundness of composites as a whole (induction over D1-D4 is an argument, not a computation)',
                   'termination', 'panic freedom beyond the existence clause', 'floating-point tolerance for non-Clifford+T phases')
    if parts >= {'D1', 'D2', 'D3', 'D4'}:
        _d0(ck, facts)
    if 'D1' in parts:
        _d1(ck, facts)
    if 'D2' in parts:
        _d2(ck, facts)
    if 'D4' in parts:
        _d4(ck, facts)
    if 'D3' in parts:
        from .. import reffect
        reffect.check_c01_schemas(ck)
    _controls(ck)


SIMP_QUICK = [('circuit-like', 'vec_graph::Graph', 29), ('gadgets', 'vec_graph::Graph', 29), ('two-cores', 'vec_graph::Graph', 499), ('one-core', 'vec_graph::Graph', 97),
              ('circuit-like', 'hash_graph::Graph', 151), ('gadgets', 'hash_graph::Graph', 151)]
SIMP_THOROUGH = [('circuit-like', 'vec_graph::Graph', 1), ('gadgets', 'vec_graph::Graph', 1), ('two-cores', 'vec_graph::Graph', 7), ('one-core', 'vec_graph::Graph', 3), ('boundary', 'vec_graph::Graph', 3),
                 ('circuit-like', 'hash_graph::Graph', 11), ('gadgets', 'hash_graph::Graph', 11), ('two-cores', 'hash_graph::Graph', 97)]


def _d0(ck, facts):
    """the statement itself on small diagrams: every simplifier of simplify.rs interpreted on both back ends, map before = map after (qxlib/zxsem.py)"""
    from .. import zxsem, minirust
    ck.decided('D0 (evaluation, small scope) every simplification procedure of simplify.rs (id, spider, local-complementation, pivot, generalised-pivot, scalar, flow, interior-Clifford, Clifford, gadget fusion, gadget-pi removal, full) '
               'interpreted from its HIR, with basic_rules.rs, phase.rs, params.rs and both graph back ends, on a finite family of small diagrams (circuit-like diagrams on two wires with Clifford+T phases, cross edges and a phase gadget; '
               'pairs of phase gadgets; one or two core spiders with neighbours and boundaries; with and without boolean variables): the simplified diagram denotes the same linear map, scalar included, under every assignment '
               '(brute-force contraction over exact numbers in Q(e^{i pi/4}), independent of tensor.rs), and no procedure panics')
    plan = SIMP_THOROUGH if ck.tier == 'thorough' else SIMP_QUICK
    try:
        tot, bad, declined = zxsem.run_simplifiers(facts, plan, procs=16 if ck.tier == 'thorough' else 8)
    except (minirust.NoEval, minirust.Proceed) as ex:
        ck.ob3('E3-simplifiers', 'evaluation', None, ck.site('simplify::full_simp'), 'the evaluator declined (%s: %s)' % (type(ex).__name__, ex))
        return
    simps = zxsem.simplifier_table(facts)
    by = {}
    for fam, ty, sk, dia, _a, what in bad:
        by.setdefault(sk, []).append((ty, dia, what))
    for sk in simps:
        ck.fn(sk)
        fs = by.get(sk, [])
        for clause, pred in (('preserves-the-map', lambda w: not w.startswith('panics')), ('no-panic', lambda w: w.startswith('panics'))):
            hit = [f for f in fs if pred(f[2])]
            if hit:
                ty, dia, what = hit[0]
                ck.ob('E3-simplifiers', '%s/%s' % (sk, clause), False, ck.site(sk), 'on the diagram %s (%s) %s: %s [%d such cases in this run]' % (dia, ty.split('::')[0], sk.rsplit('::', 1)[-1], what, len(hit)))
            else:
                ck.ob('E3-simplifiers', '%s/%s' % (sk, clause), True, ck.site(sk), '', sample={'simplifier': sk, 'diagrams_it_changed_in_this_run': tot['per_simp_changed'].get(sk, 0)} if clause == 'preserves-the-map' else None)
    idle = sorted(k for k in simps if not tot['per_simp_changed'].get(k))
    ck.floor('E3-simplifiers-procedures', len(simps), 12)
    ck.floor('E3-simplifiers-procedures-that-changed-a-diagram', len(simps) - len(idle), 12)
    ck.floor('E3-simplifiers-runs', tot['runs'], 40000 if ck.tier == 'thorough' else 3000)
    if tot['declined'] * 50 > tot['runs']:
        k0 = sorted(declined)[0]
        ck.ob3('E3-simplifiers', 'declined', None, ck.site(declined[k0][0]) if declined[k0][0] in facts['fns'] else '', 'the evaluator declined %d of %d runs, e.g. %s on %s' % (tot['declined'], tot['runs'], k0, declined[k0][1]))
    _c1, _c2 = zxsem.oracle_controls()
    ck.control('E3-simplifiers oracle: the fast contraction agrees with the reference contraction on a fixed sample of every family', _c1)
    ck.control('E3-simplifiers oracle: accepts a true identity and tells apart a wrong phase, a flipped edge type, a negated scalar and a dropped variable', _c2)
    ck.note('E3-simplifiers: %d diagrams, %d runs of %d procedures, %d changed the diagram, %d declined; changed per procedure: %s'
            % (tot['diagrams'], tot['runs'], tot['simplifiers'], tot['changed'], tot['declined'], ', '.join('%s %d' % (k.rsplit('::', 1)[-1], n) for k, n in sorted(tot['per_simp_changed'].items()))))


def _d1(ck, facts):
    sites = unchecked_sites(facts)
    n_guarded = 0
    for i, (key, call, rule) in enumerate(sorted(sites, key=lambda s: (s[0], hir.line(s[1])))):
        ck.fn(key)
        sid = '%s/calls/%s' % (key, rule.rsplit('::', 1)[1])
        if key in R.WRAPPERS and R.WRAPPERS[key][1] == rule:
            matcher = R.WRAPPERS[key][0]
            ok, missing = contract_holds(facts, matcher, rule)
            ck.ob3('R-GUARD', sid, ok, ck.site(key, call), ('checked wrapper guards %s with %s, which does not establish: %s' % (rule, matcher, missing)) if ok is False else 'the matcher %s contains conditions the engine cannot interpret; whether it establishes %s is not decided' % (matcher, missing), sample={'kind': 'wrapper', 'guard': matcher})
            continue
        if (key, rule) in INNER_CALLS:
            ck.exception(sid, INNER_CALLS[(key, rule)])
            ck.ob('R-GUARD', sid, True, ck.site(key, call), '', sample={'kind': 'named exception', 'reason': INNER_CALLS[(key, rule)]})
            continue
        if key == 'simplify::remove_gadget_pi' and rule == 'basic_rules::pi_copy_unchecked':
            continue   # D2
        f = facts['fns'][key]
        pm = hir.parent_map(f['hir'])
        matcher, gnode = guard_of(facts, key, call, pm)
        if matcher is None:
            ck.ob('R-GUARD', sid, False, ck.site(key, call), 'unchecked rule %s is applied without a dominating matcher call on the same arguments' % rule)
            continue
        ok, missing = contract_holds(facts, matcher, rule)
        mut = mutated_between(f, gnode, call, pm)
        n_guarded += 1
        if ok is None and not mut:
            ck.ob3('R-GUARD', sid, None, ck.site(key, call), 'the matcher %s contains conditions the engine cannot interpret; whether it establishes %s is not decided' % (matcher, missing))
            continue
        ck.ob('R-GUARD', sid, bool(ok) and not mut, ck.site(key, call),
              ('the graph is mutated between %s and %s' % (matcher, rule)) if mut else ('%s is applied under %s, which does not establish the rule\'s precondition: missing %s' % (rule, matcher, missing)),
              sample={'kind': 'guarded', 'guard': matcher, 'rule': rule})
    ck.floor('R-GUARD', len(sites), 24)
    ck.floor('R-GUARD-sweeps', n_guarded, 7)


def _d2(ck, facts):
    ck.fn('simplify::fuse_gadgets')
    ds, cx = fuse_gadgets_point(facts)
    if not ds:
        ck.violation('R-MATCH-point', 'simplify::fuse_gadgets/record-point', ck.site('simplify::fuse_gadgets'), 'anchor-missing: the point where a (centre, leaf) gadget is recorded was not found or is unreachable')
    else:
        closed = [closure_lits(d) for d in ds]
        for name, pred in gadget_contract():
            ok = all(pred(fs) for fs in closed)
            ck.ob('R-MATCH-point', 'simplify::fuse_gadgets/%s' % name.split(' (')[0], ok, ck.site('simplify::fuse_gadgets'),
                  'a gadget is recorded for fusion without establishing `%s`: fusing it changes the linear map' % name, sample={'conjunct': name, 'paths_to_point': len(ds)})
    ck.fn('simplify::remove_gadget_pi')
    atoms, pair_ok, applied = gadget_pi_filters(facts)
    if not atoms:
        # no filter chain: the same selection written as a loop — facts at the point where a (centre, leaf) pair is recorded in the map
        atoms, pair_ok = gadget_pi_point(facts)
    found_shape = bool(atoms)
    need = [('leaf deg=1', (True, ('deg', V('leaf'), 1))), ('leaf ty=Z', (True, ('ty', V('leaf'), Z))), ('centre ty=Z', (True, ('ty', V('centre'), Z))),
            ('centre phase pi', (True, ('phase', V('centre'), 'one')))]
    for name, atom in need:
        ck.ob3('R-MATCH-point', 'simplify::remove_gadget_pi/' + name, (atom in atoms) if found_shape else None, ck.site('simplify::remove_gadget_pi'),
               ('the selection does not establish `%s` for the leaves pi-copy is applied to' % name) if found_shape else 'neither a filter chain nor a point where (centre, leaf) pairs are recorded was found: how the leaves are selected is not understood')
    ety_ok = any((True, ('etype', a, b, H)) in atoms for a, b in ((V('leaf'), V('centre')), (V('centre'), V('leaf'))))
    ck.ob3('R-MATCH-point', 'simplify::remove_gadget_pi/etype(leaf,centre)=H', ety_ok if found_shape else None, ck.site('simplify::remove_gadget_pi'), 'the selection does not require the leaf\'s single leg to be a Hadamard edge (pi-copy through a plain Z-Z edge is unsound)')
    ck.ob3('R-MATCH-point', 'simplify::remove_gadget_pi/pairs-centre-with-leaf', True if (pair_ok and len(applied) == 1) else None, ck.site('simplify::remove_gadget_pi'), 'the (centre, leaf) pairing or the single pi_copy_unchecked application is not recognised')

    for slot, ok, msg in fuse_effect(facts):
        ck.ob3('R-EFFECT-fuse', 'simplify::fuse_gadgets/' + slot, ok, ck.site('simplify::fuse_gadgets'), msg)


def _d4(ck, facts):
    keys = [k for k, f in facts['fns'].items() if f['file'].endswith(('basic_rules.rs', 'simplify.rs', 'graph.rs'))]
    rs = redge.raw_sites(facts, keys)
    EXC = {
        'graph::GraphLike::add_edge': 'forwards to the primitive add_edge_with_type with the default edge type: the obligation is its callers\'',
        'basic_rules::unfuse_boundary': None,  # second insertion goes to the fresh vertex; first as well
    }
    for i, (key, c, just, detail) in enumerate(rs):
        sid = '%s/%s-%d' % (key, hir.callee(c).rsplit('::', 1)[1], i)
        if just is None and key in EXC and EXC[key]:
            ck.exception(sid, EXC[key])
            just = 'exception'
        if just is None and key in ('graph::GraphLike::append_graph', 'graph::GraphLike::subgraph_from_vertices', 'graph::GraphLike::copy'):
            # injective copy of the edges of a simple graph through a vertex map
            just = 'injective-copy' if _is_injective_copy(facts['fns'][key], c) else None
        ck.ob3('R-EDGE', sid, redge.verdict(just, detail), ck.site(key, c), 'raw edge insertion `%s`: %s (use add_edge_smart, or insert only to fresh vertices)' % (hir.pp(c)[:60], detail.replace('UNRECOGNISED: ', '')),
               sample={'call': hir.pp(c)[:60], 'justified_by': just})
    ck.floor('R-EDGE', len(rs), 8)


def _controls(ck):
    fx = fixture()
    fsites = unchecked_sites(fx)
    bad = False
    for key, call, rule in fsites:
        if key == 'simplify::bad_sweep':
            m, _g = guard_of(fx, key, call, hir.parent_map(fx['fns'][key]['hir']))
            bad = m is None
    ck.control('R-GUARD flags an unchecked application without its matcher', bad)
    frs = redge.raw_sites(fx, ['simplify::bad_edge'])
    fe = fuse_effect(fx)
    ck.control('R-EFFECT-fuse flags a per-group scalar and an overwritten phase accumulator', sum(1 for _s, ok, _m in fe if ok is False) >= 2)
    ck.control('R-EDGE flags a raw insertion between two pre-existing vertices', any(j is None for _k, _c, j, _d in frs))


def _is_injective_copy(f, call):
    """add_edge_with_type(vmap[s], vmap[t], ..) / through a vertex table: both endpoints are images under the same map"""
    a, b = hir.strip(call['args'][0]), hir.strip(call['args'][1])

    def mapped(e):
        if e.get('k') == 'Index':
            return hir.local(e['e'])
        if e.get('k') == 'MethodCall' and e['name'] in ('unwrap', 'expect'):
            r = hir.strip(e['recv'])
            if r.get('k') == 'MethodCall' and r['name'] == 'get':
                return hir.local(r['recv'])
        l = hir.local(e)
        return None
    ma, mb = mapped(a), mapped(b)
    if ma and mb and ma[1] == mb[1]:
        return True
    # locals bound from the same map lookup
    return False
