"""C15 — circuit adjoint, basic-gate expansion, concatenation, statistics."""
import sys
import os
from fractions import Fraction as Fr

from .. import circsem as cs, minirust, hir, rtable, rops, paths
from ..controls import fixture

sys.path.insert(0, os.path.dirname(os.path.dirname(os.path.dirname(os.path.abspath(__file__)))))
from refs import gates as G  # noqa: E402

GT = G.GTYPE


# ---------------------------------------------------------------- D1 adjoint table

def adjoint_arm_descriptor(arm_body):
    st = [s for s in hir.stmts_of(arm_body)]
    if not st:
        return ('fixed',)
    if len(st) != 1:
        return ('other', hir.pp(arm_body)[:60])
    s = hir.strip(st[0])
    if s.get('k') == 'AssignOp' and s['op'] == 'MulAssign' and hir.strip(s['l']).get('k') == 'Field' and hir.strip(s['l'])['name'] == 'phase' and hir.lit_int(s['r']) == -1:
        return ('negate-phase',)
    if s.get('k') == 'Assign' and hir.strip(s['l']).get('k') == 'Field' and hir.strip(s['l'])['name'] == 'phase':
        r = hir.strip(s['r'])
        if r.get('k') == 'Unary' and r['op'] == 'Neg' and hir.strip(r['e']).get('k') == 'Field' and hir.strip(r['e'])['name'] == 'phase':
            return ('negate-phase',)
    if s.get('k') == 'Assign' and hir.strip(s['l']).get('k') == 'Field' and hir.strip(s['l'])['name'] == 't':
        v = rtable.variant_of(s['r'], GT)
        if v:
            return ('retype', v)
    return ('other', hir.pp(s)[:60])


def d1_adjoint_table(facts, key='gate::Gate::adjoint'):
    f = facts['fns'][key]
    variants = rtable.enum_variants(facts, GT)
    ms = rtable.enum_matches(f, GT)
    if len(ms) != 1 or not variants:
        return None
    table, problems = rtable.match_table(ms[0], GT, variants)
    out = {}
    for v in variants:
        if v in table:
            out[v] = adjoint_arm_descriptor(table[v]['body'])
    return out, problems


def d1_circuit_adjoint(f):
    """Circuit::adjoint reverses the gate list and adjoints every gate, unconditionally"""
    st = hir.stmts_of(f['hir'])
    rev = False
    each = False
    for s in st:
        s0 = hir.strip(s)
        if s0.get('k') == 'MethodCall' and s0['name'] == 'reverse' and hir.place(s0['recv']) and hir.place(s0['recv'])[1] == 'self':
            rev = True
        if s0.get('k') == 'For':
            it = hir.place(hir.strip(s0['iter']))
            root = it and it[1] == 'self' and ('f', 'gates') in it[2]
            vid = s0['pat']['id'] if s0['pat'].get('k') == 'Bind' else None
            body = hir.stmts_of(s0['body'])
            adj = [c for c in body if hir.strip(c).get('k') == 'MethodCall' and hir.callee(hir.strip(c)) == 'gate::Gate::adjoint'
                   and hir.local(hir.strip(c)['recv']) and hir.local(hir.strip(c)['recv'])[1] == vid]
            if root and adj and not any(hir.strip(c).get('k') in ('If', 'Match', 'Continue', 'Break') for c in body[:body.index(adj[0])]):
                each = True
    return rev, each


# ---------------------------------------------------------------- D2 expansion count

class Unknown(Exception):
    pass


def _ival(e, env):
    """integer value of an expression for a concrete qs length n (env: local id -> int, plus 'n')"""
    e = hir.strip(e)
    k = e.get('k')
    v = hir.lit_int(e)
    if v is not None:
        return v
    if k == 'Path':
        l = hir.local(e)
        if l and l[1] in env:
            return env[l[1]]
    if k == 'MethodCall' and e['name'] == 'len' and _is_qs(e['recv']):
        return env['n']
    if k == 'Binary' and e['op'] in ('Add', 'Sub', 'Mul'):
        a, b = _ival(e['l'], env), _ival(e['r'], env)
        return {'Add': a + b, 'Sub': a - b, 'Mul': a * b}[e['op']]
    if k == 'If':
        c = _bval(e['cond'], env)
        br = e['then'] if c else e.get('else')
        st = hir.stmts_of(br)
        if len(st) == 1:
            return _ival(st[0], env)
    if k == 'Block' and len(hir.stmts_of(e)) == 1:
        return _ival(hir.stmts_of(e)[0], env)
    raise Unknown('integer expression not understood: %s' % hir.pp(e)[:60])


def _is_qs(e):
    p = hir.place(hir.strip(e))
    return bool(p and p[1] == 'self' and p[2] == [('f', 'qs')])


def _bval(e, env):
    e = hir.strip(e)
    k = e.get('k')
    if k == 'MethodCall' and e['name'] == 'is_empty' and _is_qs(e['recv']):
        return env['n'] == 0
    if k == 'Unary' and e['op'] == 'Not':
        return not _bval(e['e'], env)
    if k == 'LetCond':
        i = hir.strip(e['init'])
        if i.get('k') == 'MethodCall' and i['name'] in ('last', 'first') and _is_qs(i['recv']) and hir.pat_ctor(e['pat']) and hir.pat_ctor(e['pat']).endswith('Some'):
            return env['n'] >= 1
    if k == 'Binary' and e['op'] in ('Eq', 'Ne', 'Lt', 'Le', 'Gt', 'Ge'):
        a, b = _ival(e['l'], env), _ival(e['r'], env)
        return {'Eq': a == b, 'Ne': a != b, 'Lt': a < b, 'Le': a <= b, 'Gt': a > b, 'Ge': a >= b}[e['op']]
    raise Unknown('condition not understood: %s' % hir.pp(e)[:60])


def _iter_count(e, env):
    """number of iterations of `self.qs[a..b].iter()[.rev()]` / `a..b`"""
    e = hir.strip(e)
    while e.get('k') == 'MethodCall' and e['name'] in ('iter', 'rev', 'into_iter', 'copied', 'cloned'):
        e = hir.strip(e['recv'])
    if e.get('k') == 'Index' and _is_qs(e['e']):
        rb = hir.range_bounds(e['i'])
        if rb:
            lo = _ival(rb[0], env) if rb[0] is not None else 0
            hi = _ival(rb[1], env) if rb[1] is not None else env['n']
            return max(0, hi - lo + (1 if rb[2] else 0))
    if _is_qs(e):
        return env['n']
    rb = hir.range_bounds(e)
    if rb and rb[1] is not None:
        return max(0, _ival(rb[1], env) - _ival(rb[0], env) + (1 if rb[2] else 0))
    raise Unknown('loop range not understood: %s' % hir.pp(e)[:60])


def count_pushes(facts, stmts, env, circ_id, depth=0):
    """number of gates pushed onto the circuit parameter by a statement list, for qs length env['n']"""
    total = 0
    for s in stmts:
        s0 = hir.strip(s)
        k = s0.get('k')
        if k == 'Let':
            if s0.get('init') is not None and s0['pat'].get('k') == 'Bind':
                try:
                    env = dict(env)
                    env[s0['pat']['id']] = _ival(s0['init'], env)
                except Unknown:
                    pass
            continue
        if k == 'If':
            c = _bval(s0['cond'], env)
            br = s0['then'] if c else s0.get('else')
            total += count_pushes(facts, hir.stmts_of(br), env, circ_id, depth) if br else 0
            continue
        if k == 'For':
            it = _iter_count(s0['iter'], env)
            total += it * count_pushes(facts, hir.stmts_of(s0['body']), env, circ_id, depth)
            continue
        if k in ('Block',):
            total += count_pushes(facts, hir.stmts_of(s0), env, circ_id, depth)
            continue
        if k == 'MethodCall' and hir.callee(s0) in ('circuit::Circuit::push', 'circuit::Circuit::push_back') and hir.local(s0['recv']) and hir.local(s0['recv'])[1] == circ_id:
            total += 1
            continue
        if k == 'Call' and hir.callee(s0) in facts['fns'] and depth < 3:
            cf = facts['fns'][hir.callee(s0)]
            # callee receives the circuit as a parameter?
            pos = [i for i, a in enumerate(s0['args']) if hir.local(a) and hir.local(a)[1] == circ_id]
            if pos:
                cid = cf['params'][pos[0]]['id']
                total += count_pushes(facts, hir.stmts_of(cf['hir']), {'n': env['n']}, cid, depth + 1)
                continue
        if any(hir.local(n) and hir.local(n)[1] == circ_id for n in hir.nodes(s0) if n.get('k') == 'Path'):
            raise Unknown('use of the circuit not understood: %s' % hir.pp(s0)[:70])
    return total


def d2_expansion(facts, push_key='gate::Gate::push_basic_gates', num_key='gate::Gate::num_basic_gates'):
    """[(kind, n, pushed, advertised, ok/err)]"""
    variants = rtable.enum_variants(facts, GT)
    pf, nf = facts['fns'][push_key], facts['fns'][num_key]
    pm, nm = rtable.enum_matches(pf, GT), rtable.enum_matches(nf, GT)
    if len(pm) != 1 or len(nm) != 1:
        return None
    pt, _ = rtable.match_table(pm[0], GT, variants)
    nt, _ = rtable.match_table(nm[0], GT, variants)
    circ_id = [p['id'] for p in pf['params'] if p.get('k') == 'Bind' and p['name'] != 'self'][0]
    out = []
    for v in variants:
        ar = G.GATES[v]['arity']
        ns = [ar] if ar is not None else list(range(0, 9))
        for n in ns:
            try:
                try:
                    pushed = count_pushes(facts, hir.stmts_of(pt[v]['body']), {'n': n}, circ_id)
                except Unknown:
                    if v != 'ParityPhase':
                        raise
                    sim = []
                    try:
                        _pp_run(hir.stmts_of(pt[v]['body']), {'qs': list(range(n))}, circ_id, sim)
                    except _PP as ex2:
                        raise Unknown(str(ex2))
                    pushed = len(sim)
                adv = _ival(nt[v]['body'], {'n': n})
                out.append((v, n, pushed, adv, None))
            except Unknown as ex:
                out.append((v, n, None, None, str(ex)))
    return out


def emitted_kinds(facts, keys):
    """constant gate kinds of Gate::new* calls in the given functions: [(fn, kind or None, node)]"""
    out = []
    for key in keys:
        f = facts['fns'][key]
        for c in hir.calls(f['hir']):
            cal = hir.callee(c) or ''
            if cal in ('gate::Gate::new', 'gate::Gate::new_with_phase', 'gate::Gate::new_with_phase_and_vars'):
                out.append((key, rtable.variant_of(c['args'][0], GT), c))
    return out


def gate_seq(facts, stmts, circ_id):
    """straight-line sequence [(kind, [qs index positions])] pushed by a statement list (None if not straight-line constants)"""
    out = []
    for s in stmts:
        s0 = hir.strip(s)
        if s0.get('k') == 'MethodCall' and hir.callee(s0) in ('circuit::Circuit::push', 'circuit::Circuit::push_back') and hir.local(s0['recv']) and hir.local(s0['recv'])[1] == circ_id:
            g = hir.strip(s0['args'][0])
            if g.get('k') != 'Call' or hir.callee(g) not in ('gate::Gate::new',):
                return None
            kind = rtable.variant_of(g['args'][0], GT)
            items = hir.vec_literal(g['args'][1])
            if kind is None or items is None:
                return None
            pos = []
            for it in items:
                it = hir.strip(it)
                if it.get('k') == 'Index' and hir.lit_int(it['i']) is not None:
                    pos.append(hir.lit_int(it['i']))
                else:
                    return None
            out.append((kind, pos))
        elif s0.get('k') == 'Call' and hir.callee(s0) in facts['fns']:
            cf = facts['fns'][hir.callee(s0)]
            posn = [i for i, a in enumerate(s0['args']) if hir.local(a) and hir.local(a)[1] == circ_id]
            if not posn:
                return None
            sub = gate_seq(facts, hir.stmts_of(cf['hir']), cf['params'][posn[0]]['id'])
            if sub is None:
                return None
            out += sub
        else:
            return None
    return out


def seq_unitary(seq, n):
    """2^n x 2^n matrix of a sequence of reference-table gates on qubit positions (exact constants from refs/gates.py;
    evaluates the constant table found in the source, not the program)"""
    import cmath
    dim = 1 << n
    m = [[1.0 + 0j if i == j else 0j for j in range(dim)] for i in range(dim)]

    def apply(u):
        nonlocal m
        m = [[sum(u[i][k] * m[k][j] for k in range(dim)) for j in range(dim)] for i in range(dim)]

    def bit(x, q):
        return (x >> (n - 1 - q)) & 1
    for kind, qs in seq:
        g = G.GATES[kind]
        u = [[0j] * dim for _ in range(dim)]
        if g['cls'] == 'had':
            q = qs[0]
            r = 2 ** -0.5
            for x in range(dim):
                x0 = x & ~(1 << (n - 1 - q))
                x1 = x | (1 << (n - 1 - q))
                u[x][x0] += r
                u[x][x1] += r * (-1 if bit(x, q) else 1)
        elif g['cls'] == 'diag' and g['phase'] != 'param':
            # H^hset . diag . H^hset
            hs = [qs[i] for i in g['hset']]
            ph = cmath.exp(1j * cmath.pi * float(g['phase']))
            for x in range(dim):
                # enumerate basis after Hadamards on hs
                for y in range(dim):
                    # amplitude <x| H d H |y> = sum_z <x|H|z> d(z) <z|H|y>; z differs from x,y only on hs
                    if any(bit(x, q) != bit(y, q) for q in range(n) if q not in hs):
                        continue
                    amp = 0j
                    k = len(hs)
                    for zb in range(1 << k):
                        z = x
                        sign = 1
                        for t, q in enumerate(hs):
                            b = (zb >> t) & 1
                            z = (z & ~(1 << (n - 1 - q))) | (b << (n - 1 - q))
                            if b and bit(x, q):
                                sign = -sign
                            if b and bit(y, q):
                                sign = -sign
                        d = ph if all(bit(z, q) for q in qs) else 1
                        amp += sign * d * (0.5 ** k)
                    u[x][y] = amp
        else:
            return None
        apply(u)
    return m


# ---------------------------------------------------------------- parity-phase expansion: exact phase-polynomial semantics for every arity 0..8

class _PP(Exception):
    pass


def _pp_val(e, env):
    """value of an expression of the ParityPhase arm for a concrete arity: ints, lists (self.qs and its slices / windows), 'PHASE'"""
    e = hir.strip(e)
    k = e.get('k')
    v = hir.lit_int(e)
    if v is not None:
        return v
    l = hir.local(e)
    if l:
        if l[1] in env:
            return env[l[1]]
        raise _PP('unbound local %s' % l[0])
    if k == 'Field' and hir.local_name(e['e']) == 'self':
        if e['name'] == 'qs':
            return list(env['qs'])
        if e['name'] == 'phase':
            return 'PHASE'
    if k == 'Cast':
        return _pp_val(e['e'], env)
    if k == 'Binary' and e['op'] in ('Add', 'Sub', 'Mul'):
        a, b = _pp_val(e['l'], env), _pp_val(e['r'], env)
        if not (isinstance(a, int) and isinstance(b, int)):
            raise _PP('arithmetic on non-integers')
        r = a + b if e['op'] == 'Add' else (a - b if e['op'] == 'Sub' else a * b)
        if r < 0:
            raise _PP('usize underflow in `%s` for arity %d' % (hir.pp(e)[:20], len(env['qs'])))
        return r
    if k == 'Index':
        base = _pp_val(e['e'], env)
        rb = hir.range_bounds(e['i'])
        if rb is not None:
            lo = _pp_val(rb[0], env) if rb[0] is not None else 0
            hi = _pp_val(rb[1], env) if rb[1] is not None else len(base)
            hi += 1 if rb[2] else 0
            if not (0 <= lo <= hi <= len(base)):
                raise _PP('slice %d..%d out of range for arity %d' % (lo, hi, len(env['qs'])))
            return base[lo:hi]
        i = _pp_val(e['i'], env)
        if not isinstance(base, (list, tuple)) or not isinstance(i, int) or not 0 <= i < len(base):
            raise _PP('index out of range for arity %d' % len(env['qs']))
        return base[i]
    items = hir.vec_literal(e)
    if items is not None:
        return [_pp_val(x, env) for x in items]
    if k == 'MethodCall':
        nm = e['name']
        r = _pp_val(e['recv'], env)
        if nm in ('iter', 'into_iter', 'copied', 'cloned', 'to_vec', 'as_slice') and isinstance(r, list):
            return r
        if nm == 'rev' and isinstance(r, list):
            return list(reversed(r))
        if nm == 'len' and isinstance(r, list):
            return len(r)
        if nm == 'windows' and isinstance(r, list):
            w = _pp_val(e['args'][0], env)
            return [r[i:i + w] for i in range(0, len(r) - w + 1)] if w >= 1 else []
        if nm == 'enumerate' and isinstance(r, list):
            return [(i, x) for i, x in enumerate(r)]
        if nm in ('skip', 'take') and isinstance(r, list):
            n2 = _pp_val(e['args'][0], env)
            return r[n2:] if nm == 'skip' else r[:n2]
        if nm == 'zip' and isinstance(r, list):
            o = _pp_val(e['args'][0], env)
            return list(zip(r, o))
        if nm in ('last', 'first') and isinstance(r, list):
            return ('Some', r[-1] if nm == 'last' else r[0]) if r else ('None',)
        if nm == 'is_empty' and isinstance(r, list):
            return not r
    raise _PP('expression `%s`' % hir.pp(e)[:40])


def _pp_bind(pat, val, env):
    k = pat.get('k')
    if k == 'Bind':
        env[pat['id']] = val
        if pat.get('sub'):
            _pp_bind(pat['sub'], val, env)
        return True
    if k == 'Ref':
        return _pp_bind(pat['sub'], val, env)
    if k == 'Wild':
        return True
    if k == 'Tuple' and isinstance(val, (tuple, list)) and len(pat['sub']) == len(val):
        return all(_pp_bind(p2, v, env) for p2, v in zip(pat['sub'], val))
    if k == 'TupleStruct' and (hir.pat_ctor(pat) or '').endswith('Some'):
        if isinstance(val, tuple) and val and val[0] == 'Some':
            return _pp_bind(pat['sub'][0], val[1], env)
        return False
    if k == 'Slice' and isinstance(val, list) and len(pat.get('sub') or []) == len(val):
        return all(_pp_bind(p2, v, env) for p2, v in zip(pat['sub'], val))
    raise _PP('pattern %s' % hir.pp_pat(pat))


def _pp_run(stmts, env, circ_id, out):
    for s in stmts:
        s0 = hir.strip(s) if s.get('k') != 'Let' else s
        k = s0.get('k')
        if k == 'Let':
            if s0.get('init') is None:
                raise _PP('let without initialiser')
            _pp_bind(s0['pat'], _pp_val(s0['init'], env), env)
        elif k == 'If':
            c = hir.strip(s0['cond'])
            if c.get('k') == 'LetCond':
                e2 = dict(env)
                taken = _pp_bind(c['pat'], _pp_val(c['init'], env), e2)
            else:
                b = _pp_val(c, env) if c.get('k') != 'Binary' or c['op'] not in ('Lt', 'Le', 'Gt', 'Ge', 'Eq', 'Ne') else \
                    {'Lt': lambda a, b2: a < b2, 'Le': lambda a, b2: a <= b2, 'Gt': lambda a, b2: a > b2, 'Ge': lambda a, b2: a >= b2, 'Eq': lambda a, b2: a == b2, 'Ne': lambda a, b2: a != b2}[c['op']](_pp_val(c['l'], env), _pp_val(c['r'], env))
                if c.get('k') == 'Unary' and c['op'] == 'Not':
                    b = not _pp_val(c['e'], env)
                taken, e2 = bool(b), dict(env)
            br = s0['then'] if taken else s0.get('else')
            if br is not None:
                _pp_run(hir.stmts_of(br), e2 if taken else dict(env), circ_id, out)
        elif k == 'For':
            for x in _pp_val(s0['iter'], env):
                e2 = dict(env)
                _pp_bind(s0['pat'], x, e2)
                _pp_run(hir.stmts_of(s0['body']), e2, circ_id, out)
        elif k == 'Block':
            _pp_run(hir.stmts_of(s0), dict(env), circ_id, out)
        elif k == 'MethodCall' and hir.callee(s0) in ('circuit::Circuit::push', 'circuit::Circuit::push_back') and hir.local(s0['recv']) and hir.local(s0['recv'])[1] == circ_id:
            g = hir.strip(s0['args'][0])
            c = hir.callee(g)
            if c == 'gate::Gate::new':
                out.append((rtable.variant_of(g['args'][0], GT), _pp_val(g['args'][1], env), None))
            elif c == 'gate::Gate::new_with_phase':
                out.append((rtable.variant_of(g['args'][0], GT), _pp_val(g['args'][1], env), _pp_val(g['args'][2], env)))
            else:
                raise _PP('pushed gate `%s`' % hir.pp(g)[:40])
        else:
            raise _PP('statement `%s`' % hir.pp(s0)[:50])


def parity_phase_semantics(facts):
    """for every arity n = 0..8 the gates emitted for ParityPhase(qs = [0..n), phase) are CNOTs on distinct wires plus ZPhase gates such that the
    CNOT network is the identity and the only phase term is `phase` on the parity of ALL n wires (exact phase-polynomial semantics over F2).
    Returns (ok, message, sample); ok None = not understood."""
    variants = rtable.enum_variants(facts, GT)
    pf = facts['fns']['gate::Gate::push_basic_gates']
    pm = rtable.enum_matches(pf, GT)
    if len(pm) != 1:
        return None, 'no single match over GType in push_basic_gates', None
    pt, _ = rtable.match_table(pm[0], GT, variants)
    circ_id = [p['id'] for p in pf['params'] if p.get('k') == 'Bind' and p['name'] != 'self'][0]
    counts = {}
    for n in range(0, 9):
        out = []
        try:
            _pp_run(hir.stmts_of(pt['ParityPhase']['body']), {'qs': list(range(n))}, circ_id, out)
        except _PP as ex:
            return None, 'parity-phase expansion not understood for arity %d: %s (not-established-by-recognised-idiom)' % (n, ex), None
        wires = [frozenset([i]) for i in range(n)]
        terms = {}
        for kind, qs, ph in out:
            if kind == 'CNOT' and len(qs) == 2 and qs[0] != qs[1] and all(isinstance(q, int) and 0 <= q < n for q in qs):
                wires[qs[1]] = wires[qs[1]] ^ wires[qs[0]]
            elif kind == 'ZPhase' and len(qs) == 1 and isinstance(qs[0], int) and 0 <= qs[0] < n and ph == 'PHASE':
                terms[wires[qs[0]]] = terms.get(wires[qs[0]], 0) + 1
            else:
                return False, 'for arity %d the expansion emits %s on %s (phase %s): only CNOTs on two distinct wires of the gate and ZPhase(self.phase) are admissible' % (n, kind, qs, ph), None
        want_terms = {frozenset(range(n)): 1} if n else {}
        if wires != [frozenset([i]) for i in range(n)]:
            bad = [i for i in range(n) if wires[i] != frozenset([i])]
            return False, ('for a parity-phase gate on %d qubits the CNOTs are not undone: wire(s) %s end up holding the parity of %s — the uncompute ladder must be the compute ladder in reverse order; '
                           'emitted: %s' % (n, bad, [sorted(wires[i]) for i in bad], [(k2, q) for k2, q, _p in out])), None
        if terms != want_terms:
            return False, 'for a parity-phase gate on %d qubits the phase is applied to the parity of %s (expected exactly once, on all %d qubits)' % (n, [sorted(t) for t in terms], n), None
        counts[n] = len(out)
    return True, '', {'arities': '0..8', 'gates_emitted': counts}


def d2_structure(facts):
    """semantic checks of the three compound expansions; [(key, ok, why, sample)]"""
    res = []
    variants = rtable.enum_variants(facts, GT)
    pf = facts['fns']['gate::Gate::push_basic_gates']
    pm = rtable.enum_matches(pf, GT)
    if len(pm) != 1:
        return [('shape', False, 'no single match over GType', None)]
    pt, _ = rtable.match_table(pm[0], GT, variants)
    circ_id = [p['id'] for p in pf['params'] if p.get('k') == 'Bind' and p['name'] != 'self'][0]
    for kind in ('CCZ', 'TOFF'):
        # self.qs[i] and qs[i] both count as position i
        seq = gate_seq(facts, _self_qs_as_index(hir.stmts_of(pt[kind]['body'])), circ_id)
        if seq is None:
            res.append((kind + '/sequence', False, 'expansion of %s is not a straight-line sequence of constant gates on fixed positions (not-established-by-recognised-idiom)' % kind, None))
            continue
        u = seq_unitary(seq, 3)
        ref = seq_unitary([(kind, [0, 1, 2])], 3)
        ok = u is not None and all(abs(u[i][j] - ref[i][j]) < 1e-9 for i in range(8) for j in range(8))
        res.append((kind + '/sequence', ok, 'the %d-gate expansion of %s does not multiply out to the %s matrix (constants evaluated from the source sequence %s)' % (len(seq), kind, kind, seq), {'gates': len(seq), 'first': seq[:3]}))
    # parity phase: CNOT(c, t) for c in all-but-last, ZPhase(t, self.phase), CNOT(c, t) again over the same set
    body = pt['ParityPhase']['body']
    fors = hir.find(body, 'For')
    zs = [c for c in hir.calls(body) if hir.callee(c) == 'gate::Gate::new_with_phase']
    ok = False
    why = 'parity-phase expansion is not `CNOT ladder onto the last qubit; ZPhase(self.phase) on it; the same ladder again`'
    if len(fors) == 2 and len(zs) == 1:
        def ladder(fr):
            cn = [c for c in hir.calls(fr['body']) if hir.callee(c) == 'gate::Gate::new']
            if len(cn) != 1 or rtable.variant_of(cn[0]['args'][0], GT) != 'CNOT':
                return None
            items = hir.vec_literal(cn[0]['args'][1])
            if not items or len(items) != 2:
                return None
            vid = [i for _n, i in hir.bindings(fr['pat'])]
            c_ok = hir.local(items[0]) and hir.local(items[0])[1] in vid
            it = hir.strip(fr['iter'])
            while it.get('k') == 'MethodCall' and it['name'] in ('iter', 'rev', 'copied', 'cloned'):
                it = hir.strip(it['recv'])
            rng = hir.pp(it)
            return c_ok, hir.local(items[1]), rng
        l1, l2 = ladder(fors[0]), ladder(fors[1])
        z = zs[0]
        zt = hir.vec_literal(z['args'][1])
        zphase = hir.strip(z['args'][2])
        if l1 and l2 and l1[0] and l2[0] and l1[1] and l2[1] and l1[1][1] == l2[1][1] and l1[2] == l2[2] and zt and len(zt) == 1 \
                and hir.local(zt[0]) and hir.local(zt[0])[1] == l1[1][1] and rtable.variant_of(z['args'][0], GT) == 'ZPhase' \
                and zphase.get('k') == 'Field' and zphase['name'] == 'phase' and hir.local_name(zphase['e']) == 'self':
            # t must be bound from self.qs.last(); the ladder ranges over qs[0..len-1]
            ok = 'self.qs[0..(sz - 1)]' in l1[2].replace('(0..(sz - 1))', '0..(sz - 1)') or 'sz - 1' in l1[2]
            lets = [n for n in hir.nodes(body) if n.get('k') == 'LetCond']
            ok = ok and any(hir.strip(n['init']).get('name') == 'last' for n in lets)
    sok, swhy, ssample = parity_phase_semantics(facts)
    if sok is not None:
        res.append(('ParityPhase/phase-polynomial', sok, swhy, ssample))
    else:
        # the semantic evaluation did not understand the arm: fall back to the recognised fan-in idiom, fail closed otherwise
        res.append(('ParityPhase/phase-polynomial', ok, swhy if not ok else '', None))
    return res


def _self_qs_as_index(stmts):
    """rewrite `self.qs[i]` → `qs[i]`-style index nodes are both accepted by gate_seq (it only looks at the literal index)"""
    return stmts


# ---------------------------------------------------------------- D3 concatenation

def concat_descriptor(f):
    ps = [p for p in f['params'] if p.get('k') == 'Bind']
    if len(ps) != 2:
        return ('?',)
    sid, rid = ps[0]['id'], ps[1]['id']

    def root(e):
        # root parameter of an expression (through clones / method chains / field gates)
        for n in hir.nodes(e):
            l = hir.local(n) if n.get('k') == 'Path' else None
            if l and l[1] in (sid, rid):
                return 'self' if l[1] == sid else 'rhs'
        return None
    for c in hir.calls(f['hir']):
        if c.get('k') != 'MethodCall':
            continue
        if c['name'] in ('append', 'extend') and (hir.callee(c) or '').startswith('std::'):
            rp = hir.place(hir.strip(c['recv']))
            if rp and ('f', 'gates') in rp[2]:
                arg = c['args'][0]
                rev = any(n.get('k') == 'MethodCall' and n['name'] == 'rev' for n in hir.nodes(arg))
                gates_arg = any(n.get('k') == 'Field' and n['name'] == 'gates' for n in hir.nodes(arg))
                return ('append', 'self' if rp[0] == sid else 'rhs', root(arg), 'reversed' if rev else 'in-order', gates_arg)
        if c['name'] in ('add', 'add_assign') and (hir.callee(c) or '').startswith(('std::ops::', 'core::ops::')):
            return ('forward', root(c['recv']), root(c['args'][0]))
        if c['name'] in ('push_front', 'prepend', 'insert'):
            return ('other', hir.pp(c)[:60])
    for n in hir.nodes(f['hir']):
        if n.get('k') == 'Binary' and n['op'] == 'Add' and (n.get('callee') or '').startswith(('std::ops::', 'core::ops::')):
            return ('forward', root(n['l']), root(n['r']))
    return ('?',)


# ---------------------------------------------------------------- D4 statistics

def d4_partition(f):
    """in the per-gate loop of CircuitStats::make, every path increments exactly one size counter and one class counter, by one"""
    fors = [n for n in hir.find(f['hir'], 'For')]
    if len(fors) != 1:
        return None

    def is_inc(n):
        return n.get('k') in ('AssignOp', 'Assign') and hir.strip(n['l']).get('k') == 'Field' and \
            hir.strip(n['l'])['name'] in ('oneq', 'twoq', 'moreq', 'cliff', 'non_cliff', 'total', 'qubits')
    res = []
    for p in paths.effect_paths(hir.stmts_of(fors[0]['body']), is_inc):
        size = [hir.strip(e['l'])['name'] for e in p.events if hir.strip(e['l'])['name'] in ('oneq', 'twoq', 'moreq')]
        cls = [hir.strip(e['l'])['name'] for e in p.events if hir.strip(e['l'])['name'] in ('cliff', 'non_cliff')]
        other = [hir.strip(e['l'])['name'] for e in p.events if hir.strip(e['l'])['name'] in ('total', 'qubits')]
        by_one = all(e['k'] == 'AssignOp' and e['op'] == 'AddAssign' and hir.lit_int(e['r']) == 1 for e in p.events)
        ok = len(size) == 1 and len(cls) == 1 and by_one and not other and p.end == 'end'
        res.append((ok, p, size, cls))
    return res


def d4_size_table(f):
    """the size counter chosen for 1 / 2 / other qubits"""
    for m in hir.find(f['hir'], 'Match'):
        sc = hir.strip(m['scrut'])
        if sc.get('k') == 'MethodCall' and sc['name'] == 'len':
            t = {}
            for a in m['arms']:
                incs = [hir.strip(n['l'])['name'] for n in hir.nodes(a['body']) if n.get('k') == 'AssignOp' and hir.strip(n['l']).get('k') == 'Field']
                key = a['pat']['v'] if a['pat'].get('k') == 'Lit' else '_'
                key = str(hir.lit_int({'k': 'Lit', 'v': key})) if key != '_' else '_'
                t[key] = incs
            return t
    return None


# ---------------------------------------------------------------- evaluation on small circuits (round 2; qxlib/circsem.py)

def _sem(kind, phase):
    """denotation class of a unitary gate: diag -> (arity, hset, phase mod 2); had / perm -> the kind; parity -> ('parity', phase)"""
    g = G.GATES[kind]
    if g['cls'] == 'diag':
        return ('diag', g['arity'], g['hset'], (Fr(phase) if g['phase'] == 'param' else Fr(g['phase'])) % 2)
    if g['cls'] == 'parity':
        return ('parity', Fr(phase) % 2)
    return (g['cls'], kind)


def _adj(sem):
    if sem[0] == 'diag':
        return ('diag', sem[1], sem[2], (-sem[3]) % 2)
    if sem[0] == 'parity':
        return ('parity', (-sem[1]) % 2)
    return sem


def ev_adjoint_table(facts):
    """Gate::adjoint evaluated on every unitary kind with phase 1/8: kind -> (ok, got, want)"""
    out = {}
    for v in G.UNITARY:
        ar = G.GATES[v]['arity'] or 3
        g = cs.gate(v, list(range(ar)), Fr(1, 8))
        cs.call(facts, 'gate::Gate::adjoint', [g])
        k2, qs, p2 = cs.out_gate(g)
        if k2 not in G.GATES or qs != tuple(range(ar)):
            out[v] = (False, (k2, qs, p2), 'a gate of the same arity on the same qubits')
            continue
        got, want = _sem(k2, p2), _adj(_sem(v, Fr(1, 8)))
        out[v] = (got == want, '%s(%s)' % (k2, p2), want)
    return out


def _gates(n):
    """n gates none of which is self-adjoint, on pairwise different qubit lists"""
    pool = [('T', [0]), ('ZPhase', [1]), ('S', [2]), ('Tdg', [3]), ('XPhase', [4]), ('Sdg', [5]), ('ParityPhase', [0, 1])]
    return [cs.gate(k, qs, Fr(1, 8)) for k, qs in pool[:n]]


def _three(facts, n=4, split=None):
    return cs.circuit(6, _gates(n), split)


def ev_circuit_adjoint(facts, key='circuit::Circuit::adjoint', inplace=True):
    """(reverses, adjoints-each, untouched, detail): the result on circuits of 0..6 gates (every ring-buffer layout of the gate deque) against
    `reverse order` and `Gate::adjoint of each`"""
    rev_all = adj_all = untouched_all = True
    detail = ''
    for n in range(0, 7):
        for split in ([None] + list(range(1, n))):
            c = _three(facts, n, split)
            before = [cs.out_gate(g) for g in c['gates']]
            r = cs.call(facts, key, [c])
            res = c if inplace else r
            after = [cs.out_gate(g) for g in res['gates']]
            each = []
            for k, qs, ph in before:
                g = cs.gate(k, qs, ph)
                cs.call(facts, 'gate::Gate::adjoint', [g])
                each.append(cs.out_gate(g))
            rev = [x[1] for x in after] == [x[1] for x in reversed(before)]
            bykey = dict((x[1], x) for x in after)
            adj = len(after) == len(before) and all(bykey.get(e[1]) == e for e in each)
            untouched = inplace or [cs.out_gate(g) for g in c['gates']] == before
            if not (rev and adj and untouched) and not detail:
                detail = 'a circuit of %d gates%s, %s, becomes %s' % (n, '' if split is None else ' (deque laid out as %d + %d)' % (split, n - split), [(k, q) for k, q, _p in before], [(k, q) for k, q, _p in after])
            rev_all, adj_all, untouched_all = rev_all and rev, adj_all and adj, untouched_all and untouched
    return rev_all, adj_all, untouched_all, detail


def ev_expansion(facts):
    """[(kind, n, pushed gates, advertised count)] for every kind on its arity (parity-phase: 0..8)"""
    out = []
    for v in rtable.enum_variants(facts, GT):
        ar = G.GATES[v]['arity'] if v in G.GATES else 1
        for n in ([ar] if ar is not None else list(range(0, 9))) if v != 'UnknownGate' else [1]:
            g = cs.gate(v, [2 * i + 1 for i in range(n)], Fr(1, 8))
            c = cs.circuit(20, [])
            cs.call(facts, 'gate::Gate::push_basic_gates', [g, c])
            adv = cs.call(facts, 'gate::Gate::num_basic_gates', [g])
            out.append((v, n, [cs.out_gate(x) for x in c['gates']], adv))
    return out


def ev_stats(facts):
    """CircuitStats::make on single-gate circuits of every kind / arity 1..4 / Clifford and non-Clifford phase, and on their concatenation.
    -> list of (key, ok, message)"""
    res = []
    allg = []
    variants = rtable.enum_variants(facts, GT)
    for v in variants:
        for n in (1, 2, 3, 4):
            for ph, phname in ((Fr(1, 2), 'Clifford phase'), (Fr(1, 4), 'non-Clifford phase')):
                g = cs.gate(v, list(range(n)), ph)
                allg.append((v, n, ph))
                st = cs.call(facts, 'circuit::CircuitStats::make', [cs.circuit(5, [g])])
                size = {k: st[k] for k in ('oneq', 'twoq', 'moreq')}
                cls = {k: st[k] for k in ('cliff', 'non_cliff')}
                want_size = {'oneq': int(n == 1), 'twoq': int(n == 2), 'moreq': int(n > 2)}
                ok_size = size == want_size
                ok_one = sorted(cls.values()) == [0, 1]
                want_cls = None
                if v in G.CLIFFORD_FIXED:
                    want_cls = 'cliff'
                elif v in ('T', 'Tdg', 'CCZ', 'TOFF'):
                    want_cls = 'non_cliff'
                elif v in ('ZPhase', 'XPhase'):
                    want_cls = 'cliff' if ph.denominator <= 2 else 'non_cliff'
                ok_cls = ok_one and (want_cls is None or cls[want_cls] == 1)
                res.append((v, n, phname, ok_size, ok_cls, st['total'] == 1 and st['qubits'] == 5, size, cls))
    return res


def _seq_from_expansion(ck, exp):
    bygate = dict(((v, n), gates) for v, n, gates, _a in exp)
    for kind in ('CCZ', 'TOFF'):
        gates = bygate[(kind, 3)]
        pos = {1: 0, 3: 1, 5: 2}
        ok_q = all(q in pos for _k, qs, _p in gates for q in qs)
        seq = [(k, [pos[q] for q in qs]) for k, qs, _p in gates] if ok_q else None
        u = seq_unitary(seq, 3) if seq is not None and all(k in G.GATES and G.GATES[k]['phase'] != 'param' for k, _q in seq) else None
        ref = seq_unitary([(kind, [0, 1, 2])], 3)
        ok = u is not None and all(abs(u[i][j] - ref[i][j]) < 1e-9 for i in range(8) for j in range(8))
        ck.ob3('R-TABLE-seq', 'push_basic_gates/%s/sequence' % kind, (None if (ok_q and u is None) else ok), ck.site('gate::Gate::push_basic_gates'),
               'the %d-gate expansion of %s does not multiply out to the %s matrix (sequence evaluated from the source: %s)' % (len(gates), kind, kind, [(k, q) for k, q, _p in gates]),
               sample={'gates': len(gates), 'first': str(gates[:3])})
    # parity phase: exact phase-polynomial semantics over F2 for arities 0..8
    pp_ok, pp_why, counts = True, '', {}
    for n in range(0, 9):
        gates = bygate[('ParityPhase', n)]
        qmap = dict((2 * i + 1, i) for i in range(n))
        wires = [frozenset([i]) for i in range(n)]
        terms = {}
        for kind, qs, ph in gates:
            if kind == 'CNOT' and len(qs) == 2 and qs[0] != qs[1] and all(q in qmap for q in qs):
                wires[qmap[qs[1]]] = wires[qmap[qs[1]]] ^ wires[qmap[qs[0]]]
            elif kind == 'ZPhase' and len(qs) == 1 and qs[0] in qmap:
                terms[wires[qmap[qs[0]]]] = (terms.get(wires[qmap[qs[0]]], 0) + ph) % 2
            elif pp_ok:
                pp_ok, pp_why = False, 'for arity %d the expansion emits %s on %s: only CNOTs on two distinct wires of the gate and ZPhase gates are admissible' % (n, kind, qs)
        terms = dict((k, v_) for k, v_ in terms.items() if v_ != 0)
        if pp_ok and wires != [frozenset([i]) for i in range(n)]:
            bad = [i for i in range(n) if wires[i] != frozenset([i])]
            pp_ok, pp_why = False, ('for a parity-phase gate on %d qubits the CNOTs are not undone: wire(s) %s end up holding the parity of %s — the uncompute ladder must undo the compute ladder; emitted: %s'
                                    % (n, bad, [sorted(wires[i]) for i in bad], [(k2, q) for k2, q, _p in gates]))
        if pp_ok and terms != ({frozenset(range(n)): Fr(1, 8)} if n else {}):
            pp_ok, pp_why = False, 'for a parity-phase gate on %d qubits with phase 1/8 the phase terms are %s (expected exactly 1/8 on the parity of all %d qubits)' % (n, [(sorted(t), str(v_)) for t, v_ in terms.items()], n)
        counts[n] = len(gates)
    ck.ob('R-TABLE-seq', 'push_basic_gates/ParityPhase/phase-polynomial', pp_ok, ck.site('gate::Gate::push_basic_gates'), pp_why, sample={'arities': '0..8', 'gates_emitted': counts})


def seq_obligations(ck, facts):
    """R-TABLE-seq (shared with C02-D3): the compound expansions denote their gates — evaluation first, syntactic reading as three-valued fallback"""
    try:
        _seq_from_expansion(ck, ev_expansion(facts))
    except cs.DECLINED as ex:
        ck.note('push_basic_gates: the evaluator declined (%s); syntactic reading used' % ex)
        for key, ok, why, sample in d2_structure(facts):
            ck.ob3('R-TABLE-seq', 'push_basic_gates/' + key, True if ok else (None if ('not-established' in (why or '') or 'not understood' in (why or '') or 'shape' in key) else False), ck.site('gate::Gate::push_basic_gates'), why, sample=sample)


def run(ck):
    facts = ck.facts
    ck.decided('D1 Gate::adjoint maps every unitary kind to the kind with the same Hadamard set and the negated phase (table derived from the gate semantics); Circuit::adjoint reverses AND adjoints each gate',
               'D2 the number of gates pushed by push_basic_gates equals num_basic_gates for every kind (all arities 0..8 for parity-phase), every emitted kind is a 1- or 2-qubit basic gate, the constant CCZ/Toffoli gate sequences in the source multiply out to the CCZ/Toffoli matrix (the constants are evaluated, the program is not run), and the parity-phase expansion is a CNOT ladder around ZPhase(self.phase)',
               'D3 the five Add/AddAssign impls append rhs.gates after self.gates in order (or forward to one that does)',
               'D4 CircuitStats::make increments exactly one size counter and one class counter, by one, on every path; sizes 1/2/other map to oneq/twoq/moreq; the always-Clifford kinds are counted as Clifford')
    ck.not_decided('value-level equality of maps for whole circuits')
    variants = rtable.enum_variants(facts, GT)
    if not variants:
        raise Exception('enum gate::GType not found')
    missing = [v for v in variants if v not in G.GATES]
    ck.ob('R-TABLE-ref', 'GType/variants-known', not missing, GT, 'gate kinds without reference semantics: %s (the reference table must be extended before the clause can be decided)' % missing)
    # D1
    ck.fn('gate::Gate::adjoint')
    try:
        tab = ev_adjoint_table(facts)
        for v, (ok, got, want) in sorted(tab.items()):
            ck.ob('R-TABLE-adjoint', 'gate::Gate::adjoint/%s' % v, ok, ck.site('gate::Gate::adjoint', None),
                  'the adjoint of %s(1/8) evaluates to %s, which does not denote the inverse %s (same Hadamard set, negated phase)' % (v, got, want), sample={'kind': v, 'adjoint': str(got)})
        ck.floor('R-TABLE-adjoint', len(tab), 16)
        ck.note('Gate::adjoint: decided by evaluation on every unitary kind')
    except cs.DECLINED as ex:
        ck.note('Gate::adjoint: the evaluator declined (%s); syntactic table used' % ex)
        r = d1_adjoint_table(facts)
        if r is None:
            ck.violation('R-TABLE-adjoint', 'gate::Gate::adjoint/shape', ck.site('gate::Gate::adjoint'), 'Gate::adjoint is neither evaluable (%s) nor a single match over GType' % ex)
        else:
            table, problems = r
            n = 0
            for v in variants:
                ref = G.adjoint_ref(v) if v in G.GATES else None
                if ref is None:
                    continue
                n += 1
                ck.ob3('R-TABLE-adjoint', 'gate::Gate::adjoint/%s' % v, True if table.get(v) == ref else (None if (table.get(v) or ('other',))[0] == 'other' else False), ck.site('gate::Gate::adjoint', None),
                       'adjoint of %s is %s, reference (same Hadamard set, negated phase) is %s' % (v, table.get(v), ref), sample={'kind': v, 'effect': str(table.get(v))})
            ck.floor('R-TABLE-adjoint', n, 16)
    f = ck.fn('circuit::Circuit::adjoint')
    try:
        rev, each, _u, detail = ev_circuit_adjoint(facts)
        ck.ob('R-EFFECT', 'circuit::Circuit::adjoint/reverses', rev, ck.site('circuit::Circuit::adjoint'), 'Circuit::adjoint does not reverse the gate list: ' + detail)
        ck.ob('R-EFFECT', 'circuit::Circuit::adjoint/adjoints-each', each, ck.site('circuit::Circuit::adjoint'), 'Circuit::adjoint does not adjoint every gate: ' + detail)
        rv_ok, rv_detail = True, ''
        for n in range(0, 7):
            for split in ([None] + list(range(1, n))):
                c = _three(facts, n, split)
                before = [cs.out_gate(g) for g in c['gates']]
                cs.call(facts, 'circuit::Circuit::reverse', [c])
                if [cs.out_gate(g) for g in c['gates']] != before[::-1] and rv_ok:
                    rv_ok, rv_detail = False, '%d gates%s: %s becomes %s' % (n, '' if split is None else ' with the deque laid out as %d + %d' % (split, n - split), [q for _k, q, _p in before], [q for _k, q, _p in [cs.out_gate(g) for g in c['gates']]])
        ck.ob('R-EFFECT', 'circuit::Circuit::reverse', rv_ok, ck.site('circuit::Circuit::reverse'), 'Circuit::reverse does not reverse self.gates: ' + rv_detail)
        rev2, each2, untouched, detail2 = ev_circuit_adjoint(facts, 'circuit::Circuit::to_adjoint', inplace=False)
        ck.ob('R-EFFECT', 'circuit::Circuit::to_adjoint', rev2 and each2 and untouched, ck.site('circuit::Circuit::to_adjoint'), 'to_adjoint must return the adjoint of a copy and leave the circuit as it is: ' + detail2)
        ck.note('Circuit::adjoint / reverse / to_adjoint: decided by evaluation on circuits of 0..6 gates in every two-slice layout of the deque')
    except cs.DECLINED as ex:
        ck.note('Circuit::adjoint: the evaluator declined (%s); syntactic reading used' % ex)
        rev, each = d1_circuit_adjoint(f)
        ck.ob3('R-EFFECT', 'circuit::Circuit::adjoint/reverses', True if rev else None, ck.site('circuit::Circuit::adjoint'), 'Circuit::adjoint is not evaluable (%s) and no reversal of the gate list was recognised' % ex)
        ck.ob3('R-EFFECT', 'circuit::Circuit::adjoint/adjoints-each', True if each else None, ck.site('circuit::Circuit::adjoint'), 'Circuit::adjoint is not evaluable (%s) and no unconditional loop adjointing every gate was recognised' % ex)
        rf = ck.fn('circuit::Circuit::reverse')
        revs = [c for c in hir.calls(rf['hir']) if c.get('k') == 'MethodCall' and c['name'] == 'reverse']
        ok = len(revs) == 1 and hir.place(hir.strip(_base_recv(revs[0]))) is not None and ('f', 'gates') in hir.place(hir.strip(_base_recv(revs[0])))[2]
        ck.ob3('R-EFFECT', 'circuit::Circuit::reverse', True if ok else None, ck.site('circuit::Circuit::reverse'), 'Circuit::reverse is not evaluable and does not reverse self.gates exactly once in the recognised way')
        ta = ck.fn('circuit::Circuit::to_adjoint')
        adj = hir.calls_to(ta['hir'], 'circuit::Circuit::adjoint')
        ck.ob3('R-EFFECT', 'circuit::Circuit::to_adjoint', True if len(adj) == 1 else None, ck.site('circuit::Circuit::to_adjoint'), 'to_adjoint is not evaluable and does not call adjoint exactly once on its copy')
    # D2
    ck.fn('gate::Gate::push_basic_gates')
    ck.fn('gate::Gate::num_basic_gates')
    try:
        exp = ev_expansion(facts)
        emitted = set()
        for v, n, gates, adv in exp:
            ck.ob('R-COUNT', 'push_basic_gates/%s/n=%s' % (v, n), len(gates) == adv, ck.site('gate::Gate::push_basic_gates'),
                  '%s on %s qubits: push_basic_gates pushes %s gates, num_basic_gates advertises %s' % (v, n, len(gates), adv), sample={'kind': v, 'n': n, 'pushed': len(gates), 'advertised': adv})
            emitted |= set((g[0], len(g[1])) for g in gates if v in G.UNITARY)
        ck.floor('R-COUNT', len(exp), 21)
        bad_em = sorted(k for k, a in emitted if k not in G.BASIC and k not in ('SWAP',)) + sorted('%s on %d qubits' % (k, a) for k, a in emitted if a > 2)
        ck.ob('R-EMIT-basic', 'push_basic_gates/emitted-kinds', not bad_em, ck.site('gate::Gate::push_basic_gates'), 'the expansion of a unitary gate emits %s, which is not a one- or two-qubit basic gate' % bad_em, sample={'emitted': sorted(emitted)})
        ck.floor('R-EMIT-basic', len(emitted), 5)
        _seq_from_expansion(ck, exp)
        # to_basic_gates: every gate expanded in order, same qubit count
        c = cs.circuit(20, [cs.gate(v, [2 * i + 1 for i in range(n)], Fr(1, 8)) for v, n, _g, _a in exp])
        b = cs.call(facts, 'circuit::Circuit::to_basic_gates', [c])
        want = []
        for g in c['gates']:
            c2 = cs.circuit(20, [])
            cs.call(facts, 'gate::Gate::push_basic_gates', [g, c2])
            want += [cs.out_gate(x) for x in c2['gates']]
        ck.ob('R-EFFECT', 'circuit::Circuit::to_basic_gates/every-gate-in-order', [cs.out_gate(x) for x in b['gates']] == want, ck.site('circuit::Circuit::to_basic_gates'),
              'to_basic_gates must expand every gate of self.gates, in order, unconditionally (a circuit with one gate of every kind and arity expands to %d gates, the expansions of its gates have %d)' % (len(b['gates']), len(want)))
        ck.ob('R-EFFECT', 'circuit::Circuit::to_basic_gates/same-qubits', b.get('nqubits') == 20, ck.site('circuit::Circuit::to_basic_gates'), 'the expanded circuit must have self.nqubits qubits (20 becomes %s)' % b.get('nqubits'))
        ck.note('push_basic_gates / num_basic_gates / to_basic_gates: decided by evaluation (every kind; parity-phase arities 0..8)')
    except cs.DECLINED as ex:
        ck.note('push_basic_gates: the evaluator declined (%s); syntactic reading used' % ex)
        exp = d2_expansion(facts)
        if exp is None:
            ck.violation('R-COUNT', 'shape', ck.site('gate::Gate::push_basic_gates'), 'push_basic_gates is neither evaluable (%s) nor a single match over GType' % ex)
        else:
            for v, n, pushed, adv, err in exp:
                ck.ob3('R-COUNT', 'push_basic_gates/%s/n=%s' % (v, n), None if err is not None else (pushed == adv), ck.site('gate::Gate::push_basic_gates'),
                       err or ('%s on %s qubits: push_basic_gates pushes %s gates, num_basic_gates advertises %s' % (v, n, pushed, adv)),
                       sample={'kind': v, 'n': n, 'pushed': pushed, 'advertised': adv})
            ck.floor('R-COUNT', len(exp), 21)
        for key, ok, why, sample in d2_structure(facts):
            ck.ob3('R-TABLE-seq', 'push_basic_gates/' + key, True if ok else (None if ('not-established' in (why or '') or 'not understood' in (why or '') or 'shape' in key) else False), ck.site('gate::Gate::push_basic_gates'), why, sample=sample)
        tb = ck.fn('circuit::Circuit::to_basic_gates')
        tfors = hir.find(tb['hir'], 'For')
        ok = len(tfors) == 1 and hir.plain_field_loop(tfors[0], 'self', 'gates')
        if ok:
            vid = [i for _n, i in hir.bindings(tfors[0]['pat'])]
            ok = len(hir.unconditional_calls(hir.stmts_of(tfors[0]['body']), lambda c: hir.callee(c) == 'gate::Gate::push_basic_gates' and hir.local(c['recv']) and hir.local(c['recv'])[1] in vid)) == 1
        ck.ob3('R-EFFECT', 'circuit::Circuit::to_basic_gates/every-gate-in-order', True if ok else None, ck.site('circuit::Circuit::to_basic_gates'),
               'to_basic_gates is not evaluable and not of the recognised form (expand every gate of self.gates, in order, unconditionally)')
        nq = [n for n in hir.nodes(tb['hir']) if n.get('k') == 'Struct' and n['ctor'].get('path') == 'circuit::Circuit']
        ok = len(nq) == 1 and any(fn == 'nqubits' and hir.strip(e).get('k') == 'Field' and hir.strip(e)['name'] == 'nqubits' and hir.local_name(hir.strip(e)['e']) == 'self' for fn, e in nq[0]['fields'])
        ck.ob3('R-EFFECT', 'circuit::Circuit::to_basic_gates/same-qubits', True if ok else None, ck.site('circuit::Circuit::to_basic_gates'), 'the expanded circuit must have self.nqubits qubits')
        em = emitted_kinds(facts, ['gate::Gate::push_basic_gates', 'gate::Gate::push_ccz_decomp'])
        for i, (key, kind, node) in enumerate(em):
            ck.ob3('R-EMIT-basic', '%s/site-%d' % (key, i), None if kind is None else (kind in G.BASIC), ck.site(key, node),
                   'expansion emits %s, which is not a one- or two-qubit basic gate' % (kind or 'a non-constant kind: ' + hir.pp(node)[:50]), sample={'kind': kind})
    # D3
    adds = [x for x in rops.op_impls(facts, lambda s: s.replace('&', '').strip() == 'circuit::Circuit') if x[1] == 'Add']
    for key, op, is_assign, _s in adds:
        ck.fn(key)
        try:
            a, b = cs.circuit(6, _gates(3), 1), cs.circuit(6, _gates(7)[4:], 2)
            ga, gb = [cs.out_gate(g) for g in a['gates']], [cs.out_gate(g) for g in b['gates']]
            r = cs.call(facts, key, [a, b])
            res = a if is_assign else r
            got = [cs.out_gate(g) for g in res['gates']]
            ck.ob('R-OPS-concat', key, got == ga + gb and res.get('nqubits') == 6, ck.site(key),
                  'concatenation must append rhs.gates after self.gates in order: %s + %s evaluates to %s' % ([q for _k, q, _p in ga], [q for _k, q, _p in gb], [q for _k, q, _p in got]))
        except cs.DECLINED as ex:
            d = concat_descriptor(ck.fn(key))
            ok = (d[0] == 'append' and d[1] == 'self' and d[2] == 'rhs' and d[3] == 'in-order' and d[4]) or (d[0] == 'forward' and d[1] == 'self' and d[2] == 'rhs')
            definite = d[0] == 'append' and d[1] == 'self' and d[2] == 'rhs' and d[3] != 'in-order'
            ck.ob3('R-OPS-concat', key, True if ok else (False if definite else None), ck.site(key), 'concatenation is not evaluable (%s); syntactic reading: %s — it must append rhs.gates after self.gates in order' % (ex, d,), sample={'descriptor': str(d)})
    ck.floor('R-OPS-concat', len(adds), 5)
    # D4
    mk = ck.fn('circuit::CircuitStats::make')
    try:
        st = ev_stats(facts)
        nsz = ncl = 0
        bad_size = [(v, n, size) for v, n, _ph, ok_size, _c, _t, size, _cl in st if not ok_size]
        bad_tot = [(v, n) for v, n, _ph, _s, _c, ok_t, _sz, _cl in st if not ok_t]
        ck.ob('R-PARTITION', 'size-table', not bad_size, ck.site('circuit::CircuitStats::make'),
              'a circuit with one gate on n qubits must count it in exactly one of oneq (n = 1), twoq (n = 2), moreq (n > 2): %s' % bad_size[:3], sample={'cases': len(st)})
        ck.ob('R-PARTITION', 'all-gates', not bad_tot, ck.site('circuit::CircuitStats::make'), 'total / qubits of a one-gate circuit on 5 qubits are wrong for %s' % bad_tot[:3])
        for v in rtable.enum_variants(facts, GT):
            rows = [(n, ph, cls) for v2, n, ph, _s, ok_cls, _t, _sz, cls in st if v2 == v and not ok_cls]
            ck.ob('R-PARTITION', 'class-table/%s' % v, not rows, ck.site('circuit::CircuitStats::make'),
                  '%s must be counted in exactly one of cliff / non_cliff%s: %s' % (v, {'ZPhase': ' (Clifford exactly when its phase is)', 'XPhase': ' (Clifford exactly when its phase is)'}.get(v, ''), rows[:2]))
        # additivity: the statistics of a concatenation are the sums
        gs = [cs.gate('T', [0]), cs.gate('CNOT', [0, 1]), cs.gate('ZPhase', [2], Fr(1, 2)), cs.gate('TOFF', [0, 1, 2]), cs.gate('ZPhase', [1], Fr(1, 4)), cs.gate('HAD', [2])]
        tot = cs.call(facts, 'circuit::CircuitStats::make', [cs.circuit(3, gs)])
        parts = [cs.call(facts, 'circuit::CircuitStats::make', [cs.circuit(3, [g])]) for g in gs]
        add_ok = all(tot[k] == sum(p_[k] for p_ in parts) for k in ('total', 'oneq', 'twoq', 'moreq', 'cliff', 'non_cliff'))
        ck.ob('R-PARTITION', 'additive', add_ok, ck.site('circuit::CircuitStats::make'), 'the statistics of a six-gate circuit (%s) are not the sums of the statistics of its gates' % {k: tot[k] for k in ('total', 'oneq', 'twoq', 'moreq', 'cliff', 'non_cliff')})
        ck.floor('R-PARTITION', len(st), 160)
        ck.note('CircuitStats::make: decided by evaluation on %d one-gate circuits and one six-gate circuit' % len(st))
        ck.note('XCX is counted as non-Clifford by CircuitStats (outside the statement: the partition is consistent)')
    except cs.DECLINED as ex:
        ck.note('CircuitStats::make: the evaluator declined (%s); syntactic reading used' % ex)
        _d4_syntactic(ck, facts, mk, variants, str(ex))
    # positive controls
    fx = fixture()
    t2 = d1_adjoint_table(fx, 'gate::Gate::adjoint')
    ck.control('R-TABLE-adjoint flags a missing Tdg arm', t2 is not None and t2[0].get('Tdg') != G.adjoint_ref('Tdg'))
    e2 = d2_expansion(fx)
    ck.control('R-COUNT flags a miscounted expansion', e2 is not None and any(err or p != a for _v, _n, p, a, err in e2))
    ck.control('R-OPS-concat flags a prepend', concat_descriptor(fx['fns']['<circuit::Circuit as std::ops::AddAssign<&circuit::Circuit>>::add_assign'])[:3] != ('append', 'self', 'rhs'))
    r4 = d4_partition(fx['fns']['circuit::CircuitStats::make'])
    ck.control('R-PARTITION flags a double increment', r4 is not None and any(not ok for ok, _p, _s, _c in r4))


def _d4_syntactic(ck, facts, mk, variants, why):
    """the pre-round-2 syntactic reading of CircuitStats::make, three-valued: a recognised good shape discharges, anything else is undecided"""
    def _ob(rule, key, ok, site, msg, sample=None):
        ck.ob3(rule, key, True if ok else None, site, 'CircuitStats::make is not evaluable (%s) and not of the recognised shape: %s' % (why, msg), sample)
    res = d4_partition(mk)
    if res is None:
        ck.violation('R-PARTITION', 'shape', ck.site('circuit::CircuitStats::make'), 'anchor-missing: expected exactly one loop over the gates')
    else:
        for i, (ok, p, size, cls) in enumerate(res):
            _ob('R-PARTITION', 'circuit::CircuitStats::make/path-%d' % i, ok, ck.site('circuit::CircuitStats::make'),
                  'path %s increments size counters %s and class counters %s (need exactly one of each, by one)' % (p.cond_texts(), size, cls),
                  sample={'conds': p.cond_texts(), 'size': size, 'class': cls})
        ck.floor('R-PARTITION', len(res), 12)
    mfors = hir.find(mk['hir'], 'For')
    _ob('R-PARTITION', 'all-gates', len(mfors) == 1 and hir.plain_field_loop(mfors[0], 'c', 'gates'), ck.site('circuit::CircuitStats::make'),
          'the statistics loop must visit every gate of the circuit (plain iteration over c.gates)')
    st = d4_size_table(mk)
    _ob('R-PARTITION', 'size-table', st == {'1': ['oneq'], '2': ['twoq'], '_': ['moreq']}, ck.site('circuit::CircuitStats::make'),
          'qubit-count table is %s, expected 1->oneq, 2->twoq, other->moreq' % st, sample={'table': str(st)})
    ms = [m for m in rtable.enum_matches(mk, GT)]
    if len(ms) == 1:
        t, _ = rtable.match_table(ms[0], GT, variants)
        for v in G.CLIFFORD_FIXED:
            incs = [hir.strip(n['l'])['name'] for n in hir.nodes(t[v]['body']) if n.get('k') == 'AssignOp' and hir.strip(n['l']).get('k') == 'Field']
            _ob('R-PARTITION', 'class-table/%s' % v, incs == ['cliff'], ck.site('circuit::CircuitStats::make'), 'Clifford gate %s is counted as %s' % (v, incs))
        for v in ('T', 'Tdg', 'CCZ', 'TOFF'):
            incs = [hir.strip(n['l'])['name'] for n in hir.nodes(t[v]['body']) if n.get('k') == 'AssignOp' and hir.strip(n['l']).get('k') == 'Field']
            _ob('R-PARTITION', 'class-table/%s' % v, incs == ['non_cliff'], ck.site('circuit::CircuitStats::make'), 'non-Clifford gate %s is counted as %s' % (v, incs))
        for v in ('ZPhase', 'XPhase'):
            body = t[v]['body']
            ifs = [n for n in hir.nodes(body) if n.get('k') == 'If']
            ok = False
            if len(ifs) == 1:
                c = hir.strip(ifs[0]['cond'])
                neg = False
                if c.get('k') == 'Unary' and c['op'] == 'Not':
                    neg, c = True, hir.strip(c['e'])
                if c.get('k') == 'MethodCall' and hir.callee(c) == 'phase::Phase::is_clifford':
                    ti = [hir.strip(n['l'])['name'] for n in hir.nodes(ifs[0]['then']) if n.get('k') == 'AssignOp']
                    ei = [hir.strip(n['l'])['name'] for n in hir.nodes(ifs[0]['else']) if n.get('k') == 'AssignOp'] if ifs[0].get('else') else []
                    ok = (ti, ei) == ((['non_cliff'], ['cliff']) if neg else (['cliff'], ['non_cliff']))
            _ob('R-PARTITION', 'class-table/%s' % v, ok, ck.site('circuit::CircuitStats::make'), 'phase gate %s must be Clifford exactly when its phase is Clifford' % v)
        ck.note('XCX is counted as non-Clifford by CircuitStats (outside the statement: the partition is consistent)')
    else:
        ck.violation('R-PARTITION', 'class-table/shape', ck.site('circuit::CircuitStats::make'), 'anchor-missing: no single match over GType')


def _base_recv(c):
    """innermost receiver of a method chain"""
    r = c['recv']
    while hir.strip(r).get('k') == 'MethodCall':
        r = hir.strip(r)['recv']
    return r
